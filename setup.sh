#!/bin/sh
# builds the fact extractor (offline) and runs the engine's unit tests
set -e
cd "$(dirname "$0")"
export CARGO_NET_OFFLINE=true
(cd driver && cargo +nightly build --release --offline 2>&1 | tail -2)
python3 tests/test_solver.py
# warm the dependency cache of the extraction target dir and check the extractor works on this tree
python3 -c "from rtcpverif import facts; f = facts.load(); print('facts ok:', len(f.bodies), 'bodies')"
