import sys, os
sys.path.insert(0, os.path.dirname(os.path.dirname(os.path.abspath(__file__))))
from rtcpverif import facts
from rtcpverif.analysis import *
from rtcpverif.interp import Interp
from rtcpverif.lin import *
from rtcpverif.rules.c01 import input_slice
F = facts.load(); D = Disc(F)
cp = D.by_signature(["&[u8]"], "Result<(sdes::SdesChunk<", "sdes::")[0]
I = Interp(F)
inp = input_slice()
outs = I.run(cp, [inp])
for rep in I.loop_reports:
    print("LOOP", rep.fn, rep.kind, rep.span, "carried", rep.carried)
    print(" inv", [show_lit(l) for l in rep.inv_lits])
    for delta, new in rep.backs:
        print("  BACK", show_pc(delta)); print("      ", {a[1]: str(v) for a, v in new.items()})
    for k, v, delta in rep.exit_kinds:
        print("  EXIT", k, str(v)[:80], "|", show_pc(delta))
for s, k, v in outs:
    print(k, repr(v)[:150]); print("    ", show_pc(s.pc)[:900])
print("=========== must accept debug")
from rtcpverif import solver
from rtcpverif.wire import view_byte
from rtcpverif.values import *
t = Lin.atom(I.loop_reports[0].carried[0][0])
for s,k,v in outs:
    if v.variant != "Err" or not solver.entails(s.pc, flit(eq(view_byte(inp,t),0))): continue
    print(repr(v)[:100])
    for r in range(4):
        f=(4-r)%4
        H = list(s.pc) + [eq(Lin.atom(("mod", (t + 1).key(), 4)), r), ge(inp.length(), t + 1 + f)] + [eq(view_byte(inp, t + j), 0) for j in range(1, f + 1)]
        if not solver.feasible(H): print(" r",r,"infeasible"); continue
        for rp in I.loop_reports[1:]:
            o = Lin.atom(rp.carried[0][0])
            if not any(rp.carried[0][0] in atoms_deep(l[1]) for l in s.pc if l[0] in ("le","eq","ne")): continue
            print(" r",r, [ (j, solver.entails(H, flit(ne(o,t+j)))) for j in range(5)])
