import sys, os
sys.path.insert(0, os.path.dirname(os.path.dirname(os.path.abspath(__file__))))
from rtcpverif import facts
from rtcpverif.wsumm import Summary, discover, BUF
F = facts.load()
name = sys.argv[1]
B = [b for b in discover(F) if b.name == name][0]
S = Summary(F, B)
print("error", S.error)
for wc in S.cases:
    print("case n=", wc.n, "outs", len(wc.outs), "unmodelled", wc.unmodelled[:5])
    for s2, r in wc.outs[:3]:
        print("  ret", r)
        for w in s2.mem.get(BUF, ())[:12]:
            print("    W", w.kind, w.start, w.end, repr(w.payload)[:120])
    print("  notes", [n for n in S.I.notes][:10] if hasattr(S.I, "notes") else "")
