import sys, time
sys.path.insert(0, '/verif')
from rtcpverif import facts, solver
from rtcpverif.analysis import *
from rtcpverif.interp import Interp, State
from rtcpverif.lin import show_formula, show_pc
F = facts.load()
D = Disc(F)
only = sys.argv[1:]
for adt in D.impls_of(WRITER_TRAIT) + ['sdes::SdesChunkBuilder','sdes::SdesItemBuilder','report_block::ReportBlockBuilder']:
    if only and not any(o in adt for o in only): continue
    cs = D.impl_item(WRITER_TRAIT, adt, 'calculate_size') or [i['def'] for i in D.inherent(adt) if i['name']=='calculate_size'][0]
    wr = D.impl_item(WRITER_TRAIT, adt, 'write_into_unchecked') or [i['def'] for i in D.inherent(adt) if i['name']=='write_into_unchecked'][0]
    I = Interp(F)
    b = I.symbolic(D.ty_index_of_adt(adt), ('b',))
    t=time.time()
    try:
        outs = I.run(cs, [b])
    except Exception as ex:
        import traceback; traceback.print_exc(); continue
    print('==', adt, 'SIZE', len(outs), 'outcomes', f'{time.time()-t:.1f}s')
    for s,k,v in outs:
        print('   ', repr(v)[:200], '|', show_pc(s.pc)[:300])
    print('   unmodelled', I.unmodelled[:5], 'bad', [(o.kind,o.span,show_formula(o.goal)[:100]) for o in I.obligations if not o.ok][:5])
    for s,k,v in outs:
        if v.variant != 'Ok': continue
        n = v.fields['0']
        I2 = I
        I.obligations=[]; I.unmodelled=[]
        st = s.clone()
        buf = SliceV('B', 0, Lin.atom(('len','B')))
        st.pc.append(eq(Lin.atom(('len','B')), n.l))
        t=time.time()
        try:
            wouts = I2.inline(wr, None, st, [b, buf])
        except Exception as ex:
            import traceback; traceback.print_exc(); continue
        print('   WRITE under', show_pc(s.pc)[:150], ':', len(wouts), 'outcomes', f'{time.time()-t:.1f}s')
        for s2,k2,r in wouts:
            print('      ret', r, 'writes', [repr(w)[:120] for w in s2.mem.get('B',())][:14])
        print('      unmodelled', I2.unmodelled[:5])
        print('      bad', [(o.kind,o.span,show_formula(o.goal)[:160]) for o in I2.obligations if not o.ok][:8])
