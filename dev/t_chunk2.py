import sys, os
sys.path.insert(0, os.path.dirname(os.path.dirname(os.path.abspath(__file__))))
from rtcpverif import facts, solver
from rtcpverif.analysis import *
from rtcpverif.interp import Interp
from rtcpverif.lin import *
from rtcpverif.rules.c01 import input_slice
from rtcpverif.rules import c10
from rtcpverif.wire import view_byte
F = facts.load(); D = Disc(F)
cp = D.by_signature(["&[u8]"], "Result<(sdes::SdesChunk<", "sdes::")[0]
I = Interp(F)
inp = input_slice()
outs = I.run(cp, [inp])
t = Lin.atom(I.loop_reports[0].carried[0][0])
for s,k,v in outs:
    if v.variant != "Err" or not solver.entails(s.pc, flit(eq(view_byte(inp,t),0))): continue
    print(repr(v)[:100])
    for r in range(4):
        f=(4-r)%4
        H = list(s.pc) + [eq(Lin.atom(("mod", (t + 1).key(), 4)), r), ge(inp.length(), t + 1 + f)] + [eq(view_byte(inp, t + j), 0) for j in range(1, f + 1)]
        if not solver.feasible(H): print(" r",r,"infeasible"); continue
        atoms=set()
        for l in s.pc: atoms |= set(atoms_deep(l[1]))
        for a in atoms:
            if a[0]=="cnt":
                cs = c10._take_while_cases(F, H, a, inp)
                print(" r", r, "cases", None if cs is None else [(show_formula(c)[-150:], solver.entails(H, f_not(c))) for c in cs])
