import sys
sys.path.insert(0, '/verif')
from rtcpverif import facts, solver, loops
from rtcpverif.interp import Interp
from rtcpverif.rules.c01 import input_slice
from rtcpverif.lin import *
F = facts.load()
orig = solver.entails_lit
I = Interp(F)
d=[x for x in F.bodies if x.endswith("SdesChunk::<'a>::parse")][0]
import rtcpverif.loops as L
oldloop = L.Loops.loop
def dbg(self, e, st, for_ctx=None):
    r = oldloop(self, e, st, for_ctx)
    return r
# monkeypatch entails_lit to log pad candidates
def el(pc, l):
    r = orig(pc, l)
    s = show_lit(l)
    if 'mod 4' in s and '107' in s and '<=' in s and 'len' not in s:
        print('   CAND', r, s[:200]); print('      PC', show_pc(pc)[-900:])
    return r
solver.entails_lit = el
outs=I.run(d,[input_slice()])
