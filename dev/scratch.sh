#!/bin/bash
# dev/scratch.sh <dir> <patch> : fresh scratch copy of /repo's tree at <dir> with <patch> applied
set -e
d=$1; rm -rf "$d"; mkdir -p "$d"
cp -r /repo/Cargo.toml /repo/Cargo.lock /repo/src /repo/tests "$d"/
[ -n "$2" ] && patch -p1 -s -d "$d" -i "$2"
echo "scratch at $d"
