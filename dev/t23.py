import sys
sys.path.insert(0, '/verif')
from rtcpverif import facts, solver
from rtcpverif.analysis import *
from rtcpverif.interp import Interp
from rtcpverif.rules import c15
from rtcpverif.rules.c01 import input_slice
from rtcpverif.lin import *
from rtcpverif.wire import *
F = facts.load(); D=Disc(F)
fadt=[a for a in D.impls_of(FCI_PARSER) if a.endswith('Nack')][0]
d=D.impl_item(FCI_PARSER,fadt,'parse')
I=Interp(F); inp=input_slice()
outs=I.run(d,[inp])
s,v=[(s,v.fields['0']) for s,k,v in outs][0]
rep,nd=c15.iterate(F,D,I,s,v,'entries')
syms=c15.state_syms(rep)
for tr in rep.transitions:
    delta,outcome,ints,bools,s2,r=tr[:6]
    if outcome=='Some':
        print('yield', r.fields['0'], 'new mask', ints['mask_i'], 'new i', ints['i'])
        print('   delta', show_pc(delta)[-600:]); print('   raw', [l for l in delta if 'opq' in repr(l)][:3])
