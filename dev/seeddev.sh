#!/bin/bash
# dev/seeddev.sh <seed-id>... : run this worktree's 20 checks on a scratch copy of /tmp/clean with the seeded patch applied
here=$(cd "$(dirname "$0")/.." && pwd)
for sid in "$@"; do
  tmp=$(mktemp -d /tmp/sdv.XXXXXX)
  cp -r /tmp/clean/. $tmp/ ; rm -rf $tmp/target
  if ! patch -p1 -s -f -d $tmp -i /verif/seeded/$sid/patch.diff >/dev/null; then echo "$sid: patch does not apply"; rm -rf $tmp; continue; fi
  export RTCP_REPO=$tmp RTCP_EVIDENCE_DIR=$tmp/.ev
  (cd $here; ./check C01 >/dev/null 2>&1
   caught=""
   for i in $(seq -w 1 20); do ( ./check C$i > $tmp/C$i.log 2>&1; echo $? > $tmp/C$i.rc ) & if (( 10#$i % 7 == 0 )); then wait; fi; done; wait
   for i in $(seq -w 1 20); do rc=$(cat $tmp/C$i.rc); if [ "$rc" = 1 ]; then caught="$caught C$i"; elif [ "$rc" != 0 ]; then caught="$caught C$i(ERR$rc)"; fi; done
   echo "$sid caught by:$caught"
   p=${sid%%-*}; grep -A1 "^VIOLATION" $tmp/$p.log | grep -v "^VIOLATION" | grep -v "^--" | head -2 | cut -c1-260)
  rm -rf $tmp
done
