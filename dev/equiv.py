#!/usr/bin/env python3
"""dev/equiv.py [names...] — run all twenty checks on each behaviour-preserving rewrite of controls.EQUIV (scratch copies)"""
import os, sys, shutil, tempfile, subprocess, concurrent.futures as cf
sys.path.insert(0, os.path.dirname(os.path.dirname(os.path.abspath(__file__))))
from rtcpverif import controls
ALL = [f"C{i:02d}" for i in range(1, 21)]
names = sys.argv[1:]
def one(e):
    name, file, old, new = e
    tmp = tempfile.mkdtemp(prefix="rtcpeq")
    try:
        controls._copy_tree(tmp)
        fp = os.path.join(tmp, file)
        s = open(fp).read()
        if s.count(old) != 1:
            return name, "ANCHOR %d" % s.count(old), {}
        open(fp, "w").write(s.replace(old, new))
        r = subprocess.run("cargo test --offline 2>&1 | grep -E 'test result|error' | head", shell=True, cwd=tmp, capture_output=True, text=True,
                           env=dict(os.environ, CARGO_TARGET_DIR=os.path.join(tmp, "target")))
        tests = r.stdout.strip().replace("\n", " | ")
        shutil.rmtree(os.path.join(tmp, "target"), ignore_errors=True)
        out = {}
        controls._run(ALL[0], tmp)  # extract once
        with cf.ThreadPoolExecutor(max_workers=5) as ex:
            for c, (rc, rules) in zip(ALL, ex.map(lambda c: controls._run(c, tmp), ALL)):
                if rc != 0:
                    out[c] = (rc, rules[:3])
        return name, tests, out
    finally:
        shutil.rmtree(tmp, ignore_errors=True)
todo = [e for e in controls.EQUIV if not names or e[0] in names]
with cf.ThreadPoolExecutor(max_workers=3) as ex:
    for name, tests, out in ex.map(one, todo):
        print("==", name, "|", tests[:200])
        for c, (rc, rules) in out.items():
            print("   ", c, "exit", rc)
            for r in rules:
                print("       ", r[:230])
        if not out:
            print("    silent on all 20")
        sys.stdout.flush()
