import sys, os, json
sys.path.insert(0, os.path.dirname(os.path.dirname(os.path.abspath(__file__))))
from rtcpverif import facts
F = facts.load()
name = sys.argv[1]
ds = [d for d in F.bodies if name in d]
print(ds)
b = F.bodies[ds[0]]
def find(e, depth=0):
    if isinstance(e, dict):
        if e.get("k") == "Loop":
            print(json.dumps(e)[:int(sys.argv[2]) if len(sys.argv) > 2 else 3000])
            return True
        for v in e.values():
            if find(v, depth+1): return True
    elif isinstance(e, list):
        for v in e:
            if find(v, depth+1): return True
    return False
find(b)
