#!/bin/bash
here=$(cd "$(dirname "$0")/.." && pwd)
export RTCP_REPO=${RTCP_REPO:-/tmp/clean} RTCP_EVIDENCE_DIR=${RTCP_EVIDENCE_DIR:-/tmp/vdev-ev}
cd $here
./check C01 >/dev/null 2>&1
for i in $(seq -w 1 20); do ( ./check C$i > /tmp/alld_C$i.log 2>&1; echo "C$i exit=$? $(tail -1 /tmp/alld_C$i.log)" ) &
  if (( 10#$i % 5 == 0 )); then wait; fi
done; wait
