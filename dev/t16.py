import sys
sys.path.insert(0, '/verif')
from rtcpverif import solver
from rtcpverif.lin import *
x = Lin.atom(('sym','b.subtype','u8'))
m32 = Lin.atom(('mod', x.key(), 32)); sl=Lin.atom(('sl', x.key(), 6, 7))
print('mod32==x', solver.entails([le(x,31)], flit(eq(m32, x))))
print('sl==0', solver.entails([le(x,31)], flit(eq(sl, 0))))
print('both', solver.entails([le(x,31)], flit(eq(m32+sl.scale(64), x))))
print(solver.STATS)
