#!/usr/bin/env python3
"""dev/seedrun.py <seed id> <checks...> — apply seeded/<id>/patch.diff to a scratch copy of /repo's tree and run checks there"""
import os, sys, shutil, subprocess, tempfile
sys.path.insert(0, os.path.dirname(os.path.dirname(os.path.abspath(__file__))))
from rtcpverif import controls
sid, checks = sys.argv[1], sys.argv[2:]
tmp = tempfile.mkdtemp(prefix="rtcpseed")
try:
    controls._copy_tree(tmp)
    r = subprocess.run(["patch", "-p1", "-s", "-f", "-i", os.path.join(controls.VERIF, "seeded", sid, "patch.diff")], cwd=tmp, capture_output=True, text=True)
    print("patch:", r.returncode, r.stdout[:200])
    env = dict(os.environ, RTCP_REPO=tmp, RTCP_EVIDENCE_DIR=os.path.join(tmp, "evidence"))
    for c in checks:
        r = subprocess.run([os.path.join(controls.VERIF, "check"), c], env=env, capture_output=True, text=True)
        print(f"== {c}: exit {r.returncode}")
        for l in r.stdout.splitlines():
            if l.startswith("  ") and not l.startswith("  floor"):
                print("   ", l[:400])
        if r.returncode not in (0, 1):
            print(r.stderr[-1500:])
finally:
    shutil.rmtree(tmp, ignore_errors=True)
