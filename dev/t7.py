import sys, time
sys.path.insert(0, '/verif')
from rtcpverif import facts, solver
from rtcpverif.analysis import *
from rtcpverif.rules import c01
from rtcpverif.lin import show_formula, show_pc
F = facts.load()
I = Interp(F)
d="compound::Compound::<'a>::parse"
outs = I.run(d, [c01.input_slice()])
for r in I.loop_reports:
    print(r.fn, r.kind, r.carried, [ (show_pc(d_), n) for d_,n in r.backs], [(k, show_pc(p)) for k,_,p in r.exit_kinds])
print(validated_recurrence(I, d))
