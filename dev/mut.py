#!/usr/bin/env python3
"""dev/mut.py <file> <old> <new> -- <checks...>: apply a one-line mutation to a scratch copy of /repo and run checks on it"""
import os, shutil, subprocess, sys, tempfile
args = sys.argv[1:]
i = args.index("--")
file, old, new = args[:3]
checks = args[i + 1:]
tmp = tempfile.mkdtemp(prefix="mutrepo")
try:
    for f in ("Cargo.toml", "Cargo.lock", "src", "tests"):
        p = os.path.join("/repo", f)
        if os.path.isdir(p):
            shutil.copytree(p, os.path.join(tmp, f))
        elif os.path.exists(p):
            shutil.copy(p, tmp)
    fp = os.path.join(tmp, file)
    s = open(fp).read()
    if s.count(old) != 1:
        print("MUTATION ANCHOR COUNT", s.count(old)); sys.exit(2)
    open(fp, "w").write(s.replace(old, new))
    env = dict(os.environ, RTCP_REPO=tmp, RTCP_EVIDENCE_DIR=os.path.join(tmp, "evidence"))
    for c in checks:
        r = subprocess.run(["/verif/check", c], env=env, capture_output=True, text=True)
        lines = [l for l in r.stdout.splitlines() if not l.startswith("  floor")]
        nv = sum(1 for l in lines if l.startswith("VIOLATION"))
        print(f"== {c}: exit {r.returncode}, {nv} violation(s)")
        for l in lines:
            if l.startswith("  ") :
                print("   ", l[:260])
        if r.returncode not in (0, 1):
            print(r.stderr[-2000:])
finally:
    shutil.rmtree(tmp, ignore_errors=True)
