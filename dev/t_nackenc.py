import sys
sys.path.insert(0,'/verif')
from rtcpverif import facts
from rtcpverif.analysis import *
from rtcpverif.interp import Interp, State
from rtcpverif.lin import *
F=facts.load(); D=Disc(F)
nxt=[d for d in F.bodies if "NackBuilderEntryIter" in d and d.endswith("::next")]
adt=[a for a in F.adts if a.endswith("NackBuilder")][0]
I=Interp(F)
ent=[it["def"] for it in D.inherent(adt) if it["name"]=="entries"][0]
recv=I.symbolic(D.ty_index_of_adt(adt),("b",))
for s,k,it in I.inline(ent,None,State(),[recv]):
    X=Explorer(F,I)
    rep=IterProtocol(X,s,it,nxt[0],(it.adt,)).run()
    for lr in I.loop_reports:
        if lr.fn!=nxt[0]: continue
        print("LOOP", lr.label if hasattr(lr,'label') else '')
        for delta,new in lr.backs:
            print(" BACK", show_pc(delta)[:300])
            for a,nv in new.items():
                print("     ", a, "->", nv)
        for kind,val,delta in lr.exit_kinds:
            print(" EXIT",kind, show_pc(delta)[:300])
    break
