import sys
sys.path.insert(0, '/verif')
from rtcpverif import facts, solver
from rtcpverif.analysis import *
from rtcpverif.interp import Interp, State
from rtcpverif.lin import show_formula, show_pc
F = facts.load()
D = Disc(F)
I = Interp(F)
adt='feedback::nack::NackBuilder'
d=[i['def'] for i in D.inherent(adt) if i['name']=='entries'][0]
recv = I.symbolic(D.ty_index_of_adt(adt), ("b",))
for s,k,it in I.inline(d, None, State(), [recv]):
    nd = D.impl_item("std::iter::Iterator", it.adt, "next")
    X = Explorer(F, I)
    rep = IterProtocol(X, s, it, nd, (it.adt,)).run()
    print(rep.invariant)
    print(rep.state_fields, rep.progress)
    for o in I.obligations:
        if not o.ok: print(o.kind, o.span, show_formula(o.goal), '|', show_pc(o.pc)[:600])
    for r in I.loop_reports: print(r)
