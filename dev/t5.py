import sys
sys.path.insert(0, '/verif')
from rtcpverif import facts, loops
from rtcpverif.analysis import *
from rtcpverif.rules import c01
F = facts.load()
orig = loops.Loops._tiling
def dbg(self, pre, backs, int_syms, current, sym_name):
    r = orig(self, pre, backs, int_syms, current, sym_name)
    print('TILING', self.I.stack[-1], [a for a,_ in int_syms], {k:len(v) for sb in backs for k,v in sb.colls.items()}, r)
    return r
loops.Loops._tiling = dbg
I = Interp(F)
outs = I.run("<sdes::Sdes<'a> as RtcpPacketParser<'a>>::parse", [c01.input_slice()])
for s,k,v in outs:
    if v.variant=='Ok': print(s.tiles, list(s.colls))
