import sys, time
sys.path.insert(0, '/verif')
from rtcpverif import facts, wsumm
from rtcpverif.lin import show_formula, show_pc
F = facts.load()
for B in wsumm.discover(F):
    if sys.argv[1:] and not any(a in B.adt for a in sys.argv[1:]): continue
    t=time.time()
    S = wsumm.Summary(F, B, exact=(B.kind!='fci'))
    print('==', B.adt, B.kind, 'size outs', [(v.variant) for s,v in S.size_outs], 'err', S.error, f'{time.time()-t:.1f}s')
    print('   size bad', [(o.kind,o.span,show_formula(o.goal)[:100]) for o in S.size_obligations if not o.ok], S.size_unmodelled[:3] if hasattr(S,'size_unmodelled') else '')
    for wc in S.cases:
        print('   case n=', str(wc.n)[:100], 'outs', len(wc.outs), 'obl', len(wc.obligations), 'bad', [(o.kind,o.span,show_formula(o.goal)[:120]) for o in wc.obligations if not o.ok][:6], 'unm', wc.unmodelled[:4])
        for s2,r in wc.outs[:4]: print('       ret', str(r)[:140])
