#!/usr/bin/env python3
"""dev/seed.py confirm <id> [--wt DIR]   confirm a sub-agent's change in its scratch worktree and store it under seeded/<id>/
   dev/seed.py check <id> [checks...]    apply seeded/<id>/patch.diff to /repo, run checks (default: all 20), undo
   dev/seed.py index                      regenerate seeded/INDEX.md from the meta files"""
import json, os, re, shutil, subprocess, sys, concurrent.futures as cf

V = "/verif"
ALL = [f"C{i:02d}" for i in range(1, 21)]
ENV = dict(os.environ, CARGO_NET_OFFLINE="true")


def sh(cmd, cwd=None, env=None, timeout=None):
    try:
        r = subprocess.run(cmd, shell=True, cwd=cwd, env=env or ENV, capture_output=True, text=True, timeout=timeout)
    except subprocess.TimeoutExpired as ex:
        subprocess.run("pkill -9 -f target/release/deps/seeded_demo", shell=True)
        return 124, "TIMEOUT (the demonstration does not terminate)"
    return r.returncode, r.stdout + r.stderr


def summarise(out):
    res = re.findall(r"test result: (\w+)\. (\d+) passed; (\d+) failed", out)
    return res


def confirm(sid, wt, patch=None, demo=None):
    mdir = os.path.join(wt, "MUTATION")
    patch = patch or os.path.join(mdir, "patch.diff")
    demo = demo or os.path.join(mdir, "demo.rs")
    assert os.path.exists(patch) and os.path.exists(demo), "missing artefacts"
    log = {}
    sh("git checkout -- src Cargo.toml", wt)
    rc, o = sh("git status --short src", wt)
    assert not o.strip(), o
    shutil.copy(demo, os.path.join(wt, "tests", "seeded_demo.rs"))
    # original: demo passes
    rc, o = sh("cargo test --offline --test seeded_demo 2>&1", wt)
    log["demo_original"] = {"rc": rc, "results": summarise(o)}
    rc0 = rc
    # with the change
    rc, o = sh(f"git apply {patch}", wt)
    assert rc == 0, "patch does not apply: " + o
    rc, o = sh("cargo build --offline 2>&1", wt)
    log["build"] = {"rc": rc, "warnings": o.count("warning:")}
    rc, o = sh("cargo test --offline --no-fail-fast --lib --test custom_packet 2>&1", wt)
    log["suite_with_change"] = {"rc": rc, "results": summarise(o)}
    passed = sum(int(p) for _, p, f in summarise(o))
    failed = sum(int(f) for _, p, f in summarise(o))
    rc2, o2 = sh("cargo test --offline --no-fail-fast --test seeded_demo 2>&1", wt)
    log["demo_with_change"] = {"rc": rc2, "results": summarise(o2), "failing": re.findall(r"^test (\S+) \.\.\. FAILED", o2, re.M)}
    rc3, o3 = sh("cargo test --offline --no-fail-fast --release --test seeded_demo 2>&1", wt, timeout=300)
    log["demo_with_change_release"] = {"rc": rc3, "results": summarise(o3), "failing": re.findall(r"^test (\S+) \.\.\. FAILED", o3, re.M)}
    sh(f"git apply -R {patch}", wt)
    ok = rc0 == 0 and log["build"]["rc"] == 0 and rc == 0 and passed == 94 and failed == 0 and rc2 != 0
    log["confirmed"] = ok
    print(json.dumps(log, indent=1))
    if not ok:
        return False
    out = os.path.join(V, "seeded", sid)
    os.makedirs(out, exist_ok=True)
    shutil.copy(patch, os.path.join(out, "patch.diff"))
    shutil.copy(demo, os.path.join(out, "demo.rs"))
    rd = os.path.join(mdir, "README.md")
    if os.path.exists(rd):
        shutil.copy(rd, os.path.join(out, "AGENT_NOTES.md"))
    mp = os.path.join(out, "meta.json")
    meta = json.load(open(mp)) if os.path.exists(mp) else {}
    meta.update({"id": sid, "property": sid.split("-")[0], "base_commit": sh("git rev-parse HEAD", wt)[1].strip(),
                 "files": re.findall(r"^\+\+\+ b/(\S+)", open(patch).read(), re.M),
                 "confirmation": log,
                 "what_i_ran": ["cargo test --offline --test seeded_demo  (original source: must pass)",
                                "git apply patch.diff; cargo build --offline",
                                "cargo test --offline --no-fail-fast --lib --test custom_packet  (94 passed required)",
                                "cargo test --offline --no-fail-fast [--release] --test seeded_demo  (must fail)"]})
    meta.setdefault("needs_to_manifest", "")
    meta.setdefault("summary", "")
    json.dump(meta, open(mp, "w"), indent=1)
    return True


def run_check(c, evdir):
    env = dict(os.environ, RTCP_EVIDENCE_DIR=evdir)
    r = subprocess.run([os.path.join(V, "check"), c], env=env, capture_output=True, text=True)
    lines = r.stdout.splitlines()
    viol = []
    for i, l in enumerate(lines):
        if l.startswith("VIOLATION"):
            nxt = lines[i + 1].strip() if i + 1 < len(lines) else ""
            viol.append(nxt[:300])
    return c, r.returncode, viol, r.stderr[-500:] if r.returncode not in (0, 1) else ""


def check(sid, checks):
    out = os.path.join(V, "seeded", sid)
    patch = os.path.join(out, "patch.diff")
    rc, o = sh("git status --short", "/repo")
    assert not o.strip(), "/repo not clean: " + o
    rc, o = sh(f"git apply {patch}", "/repo")
    assert rc == 0, o
    evdir = f"/tmp/seed-ev-{sid}"
    res = {}
    try:
        # extract once
        run_check(checks[0], evdir)
        with cf.ThreadPoolExecutor(max_workers=10) as ex:
            for c, rc, viol, err in ex.map(lambda c: run_check(c, evdir), checks):
                res[c] = {"exit": rc, "violations": len(viol), "first": viol[:4]}
                if err:
                    res[c]["stderr"] = err
    finally:
        sh("git checkout -- .", "/repo")
        shutil.rmtree(evdir, ignore_errors=True)
    rc, o = sh("git status --short", "/repo")
    assert not o.strip(), o
    mp = os.path.join(out, "meta.json")
    meta = json.load(open(mp))
    meta.setdefault("checks", {}).update(res)
    meta["caught_by"] = sorted(c for c, r in meta["checks"].items() if r["exit"] == 1)
    json.dump(meta, open(mp, "w"), indent=1)
    for c in checks:
        r = res[c]
        print(f"{c}: exit {r['exit']} violations {r['violations']}")
        for f in r["first"][:3]:
            print("    ", f[:220])
    print("caught by:", meta["caught_by"])


def recheck(sids, checks):
    """re-run the checks on scratch copies of /repo with each seeded patch applied (never touches /repo); updates
    meta['checks_current'] / meta['caught_by_current'] — the record of the apply-to-/repo run stays in meta['checks']"""
    sys.path.insert(0, V)
    from rtcpverif import controls
    import tempfile

    def one(sid):
        tmp = tempfile.mkdtemp(prefix="rtcpseed")
        try:
            controls._copy_tree(tmp)
            r = subprocess.run(["patch", "-p1", "-s", "-f", "-i", os.path.join(V, "seeded", sid, "patch.diff")], cwd=tmp, capture_output=True, text=True)
            if r.returncode != 0:
                return sid, None
            res = {}
            controls._run(checks[0], tmp)
            with cf.ThreadPoolExecutor(max_workers=4) as ex:
                for c, (rc, rules) in zip(checks, ex.map(lambda c: controls._run(c, tmp), checks)):
                    res[c] = {"exit": rc, "first": rules[:3]}
            return sid, res
        finally:
            shutil.rmtree(tmp, ignore_errors=True)

    with cf.ThreadPoolExecutor(max_workers=4) as ex:
        for sid, res in ex.map(one, sids):
            mp = os.path.join(V, "seeded", sid, "meta.json")
            meta = json.load(open(mp))
            if res is None:
                print(sid, "patch does not apply")
                continue
            meta["checks_current"] = res
            meta["caught_by_current"] = sorted(c for c, r in res.items() if r["exit"] == 1)
            own = res.get(meta["property"], {})
            if own.get("exit") == 1 and own.get("first"):
                parts = own["first"][0].split(" — ")
                meta["own_property_rule"] = parts[1] if len(parts) > 1 else ""
            json.dump(meta, open(mp, "w"), indent=1)
            bad = {c: r["exit"] for c, r in res.items() if r["exit"] not in (0, 1)}
            print(sid, "caught by:", meta["caught_by_current"], ("ERRORS " + str(bad)) if bad else "")
            sys.stdout.flush()


def index():
    rows = []
    for sid in sorted(os.listdir(os.path.join(V, "seeded"))):
        mp = os.path.join(V, "seeded", sid, "meta.json")
        if not os.path.exists(mp):
            continue
        m = json.load(open(mp))
        rows.append(f"| {sid} | {m['property']} | {', '.join(m.get('files', []))} | {m.get('summary','')} | {m.get('needs_to_manifest','')} | "
                    f"{', '.join(m.get('caught_by_current', m.get('caught_by', []))) or '—'} | {m.get('own_property_rule','')} |")
    with open(os.path.join(V, "seeded", "INDEX.md"), "w") as f:
        f.write("# Seeded changes and the checks that catch them\n\nGenerated by `dev/seed.py index` from `seeded/*/meta.json`. "
                "Every change compiles, passes the 94 existing tests, and fails its own demonstration (`demo.rs`, an integration test).\n\n"
                "| id | property | file | change | needs, to manifest | checks that exit 1 | rule reporting it under its own property |\n|---|---|---|---|---|---|---|\n")
        f.write("\n".join(rows) + "\n")
    print(len(rows), "rows")


if __name__ == "__main__":
    cmd = sys.argv[1]
    if cmd == "confirm":
        sid = sys.argv[2]
        wt = sys.argv[sys.argv.index("--wt") + 1] if "--wt" in sys.argv else f"/tmp/wt/{sid}"
        pa = sys.argv[sys.argv.index("--patch") + 1] if "--patch" in sys.argv else None
        de = sys.argv[sys.argv.index("--demo") + 1] if "--demo" in sys.argv else None
        sys.exit(0 if confirm(sid, wt, pa, de) else 1)
    elif cmd == "check":
        check(sys.argv[2], sys.argv[3:] or ALL)
    elif cmd == "recheck":
        sids = [a for a in sys.argv[2:] if not a.startswith("--")] or sorted(d for d in os.listdir(os.path.join(V, "seeded")) if os.path.exists(os.path.join(V, "seeded", d, "meta.json")))
        recheck(sids, ALL)
    elif cmd == "index":
        index()
