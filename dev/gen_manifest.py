#!/usr/bin/env python3
"""regenerates /verif/MANIFEST.json from the table below (run after adding a check)"""
import json, os, subprocess
V = os.path.dirname(os.path.dirname(os.path.abspath(__file__)))
TB = ("trusted: rustc's THIR/MIR and the driver's serialisation; the abstract interpreter's transfer functions and "
      "linear-integer entailment (unit-tested); the std contract table; ")
CHECKS = {
 "C01": dict(cat="proof", tech="abstract interpretation of THIR: panic-freedom obligations under type invariants, loop ranking, iterator typestate",
   text="Every partial operation (index, slice range, arithmetic overflow, unwrap/expect, explicit panic, std preconditions) reachable from the 16 parsing entry points on an arbitrary byte string, and from every public method/conversion/iterator on every value they can return, is an obligation discharged for all inputs under the facts of the constructing path (type invariant); every loop gets a ranking argument; every stateful iterator an inductive state invariant (Houdini) and a lexicographic progress measure bounded by the input length; Compound::next is justified by recurrence agreement with the validation loop of Compound::parse.",
   note=TB + "allocation failure/stack exhaustion out of scope; documented-panic exemption only for methods with a '# Panic' doc section called directly.", ref="§4 C01"),
 "C02": dict(cat="translation_validation", tech="composition of function summaries: the SR/RR parser and accessors interpreted over the builder's abstract write log; entailment of field equality",
   text="The SR/RR parser and every accessor are interpreted over the write log of the SR/RR builder under SIZE = Ok(n), for all field values, block counts and paddings: every rejecting path is refuted; ssrc, NTP/RTP timestamps, packet/octet counts, padding and n_reports are entailed equal to the configured values; report block k read == report block k written for a symbolic k (fraction/cumulative overlay resolved last-writer-wins, the 24-bit mask shown lossless under the builder's own limit), and as many blocks are read as were added.",
   note=TB + "nothing is executed; the store is abstract (symbolic regions, per-element contents).", ref="§4 C02"),
 "C03": dict(cat="translation_validation", tech="per-iteration hypotheses by summary composition (item writer vs item parser), layout rows and tokeniser rules for chunk and packet; induction on paper",
   text="(a) SdesItem::parse interpreted over the item builder's write log followed by at least one more byte accepts, consumes exactly the written size and recovers type, value and PRIV prefix for all lengths incl. empty; (b) chunk writer layout (SSRC, contiguous items, non-empty zero run to the 32-bit boundary) and the chunk parser's advance = pad4(t+1); (c) packet layout (chunks contiguous from 4, count, trailer) and the walk ending at len - padding. The whole-packet round trip follows from (a)-(c) by induction over items and chunks (paper argument in DESIGN.md).",
   note=TB + "the induction itself is not mechanised. Open finding D11 (SDES packets above 65536 words) is reported as KNOWN-FINDING.", ref="§4 C03"),
 "C04": dict(cat="translation_validation", tech="composition of function summaries: BYE/APP parser and accessors interpreted over the builder's abstract write log",
   text="For symbolic numbers of sources, reason length, payload length, name length and padding: every rejecting parser path is refuted on the builder's output; sources (count and element k), reason bytes (None iff no reason), subtype, name zero-filled to 4 bytes, payload bytes and padding are entailed equal to the configured values.",
   note=TB + "Open finding D11 (APP above 65536 words is accepted by the builder and then rejected by the parser) is reported as KNOWN-FINDING.", ref="§4 C04"),
 "C05": dict(cat="translation_validation", tech="summary composition under the FCI trait contract (packet level) and per FCI codec (iterator transition tables over the write log); step-relation extraction for the NACK encoder",
   text="Packet level (any FCI obeying the trait contract): acceptance, sender/media SSRC, FMT = format(), padding, and the FCI parser receives exactly the member's image [12, 12+size). FCI level: FIR entry i read == map entry i written and iteration ends after the last entry; SLI entry k decoded == entry k encoded for fields within 13/13/6 bits; RPSI payload type, bit count and whole bytes; PLI empty. RPSI's partially used last byte is decided bit-for-bit by cases on the ignored-bit count 0..=8. NACK: the encoder's step relation (word' = word | 1 << (d-1) for distance d in 1..=16, new word only beyond 16, nothing dropped) is extracted and agrees with the RFC window, and the decoder's transition table (PID first, PID+j only for a tested set bit j-1, no bit skipped, word left only after bit 16) is evaluated under this property as well.",
   note=TB + "Not decided: the induction composing the two NACK state machines into 'decoded set == requested set for every set'. Open finding D11 reported as KNOWN-FINDING.", ref="§4 C05"),
 "C10": dict(cat="proof", tech="path-condition entailment on the SDES item/chunk/packet parsers with inferred loop invariants (Houdini), exact-tiling ghost facts for the item list, fold summarisation",
   text="For all inputs: every accepted item is the view [q, q+2+len) inside the input and a PRIV item holds its prefix; accessors follow RFC 3550 §6.5; the items yielded are consecutive views from byte 4; the zero skip steps only over zero bytes and the chunk's consumed length is exactly pad4(t+1) for the terminator position t; the chunk walk ends exactly at len - padding; SdesChunk::length() equals the consumed length of a terminated chunk. Must-accept: a chunk laid out as items, a null at t and zero bytes to the next 32-bit boundary is accepted whatever follows (every rejecting path after the null is refuted, by cases on alignment, later offsets and bounded take_while counts); with the chunk parser replaced by its contract the packet walk is the recurrence o' = o + used from byte 4 over views reaching len - padding, and a well-framed packet is rejected only by the chunk parser.",
   note=TB + "The induction from the per-chunk and per-walk-step facts to acceptance of every RFC-well-formed SDES packet is on paper (DESIGN.md).", ref="§4 C10"),
 "C15": dict(cat="proof", tech="gating by path-condition entailment with FCI parsers uninterpreted; iterator typestate: transition tables of next() under Houdini invariants compared with RFC rows",
   text="parse_fci::<F> reaches F::parse only for the RFC's (kind, FMT) of F, with exactly [12, len - padding), and otherwise fails with WrongImplementation; FIR and SLI iterators decode one whole entry per step at the current offset (BE32 SSRC + sequence; 13/13/6 bit fields) and stop only when no whole entry remains; RPSI payload type / bit string / ignored bits; PLI accepts only an empty body; NACK: PID first, then PID+j (mod 2^16) only for a tested set bit j-1 of BLP with j in 1..=16, next word after bit 16.",
   note=TB + "Not decided: that the NACK bit scan never skips a set bit (quantified loop invariant; argued in DESIGN.md).", ref="§4 C15"),
 "C19": dict(cat="other", tech="parametric summaries of the public helpers (symbolic P::MIN_PACKET_LEN / P::PACKET_TYPE); unknown-builder summaries; compile-only witness crate (thorough)",
   text="Proof-style check with one recorded open finding: check_packet::<P> is shown, for a symbolic packet type P, to accept exactly the well-framed strings of P; write_header_unchecked::<P>, write_padding_unchecked, check_padding and the header readers satisfy their RFC contracts for all arguments; the unknown builder satisfies the C06 and C07 rules (size, obligations, layout) except the total-size limit (D11, KNOWN-FINDING); the thorough tier type-checks a witness crate of three third-party packet types (different type numbers and minimum lengths, embedded in a compound, converted back through try_as) against /repo's current tree.",
   note=TB + "assumes third-party types declare MIN_PACKET_LEN >= 4.", ref="§4 C19"),
 "C06": dict(cat="proof", tech="abstract interpretation of size calculators and writers (loop closed forms, prefix sums, write log); entailment of return value == announced size; trait-contract assume/guarantee for dyn members",
   text="For all 18 builders (10 packet-level incl. the PacketBuilder enum and the compound builder, 5 FCI, SDES chunk/item, report block) SIZE and WRITE summaries are computed for all configurations; under SIZE = Ok(n) and a buffer of n bytes every writer obligation (bounds, slice ranges, copy lengths, arithmetic, asserts) is discharged, the returned value is entailed equal to n and n is a whole number of words; the three write_into wrappers are shown to return the size error unchanged, OutputTooSmall(n) exactly when len < n, and otherwise the unchecked write into exactly buf[..n]; compound members and FCI builders behind `dyn` obey a stated trait contract which every impl in the crate is verified against (so all feedback x FCI pairings and compounds of arbitrary members are covered compositionally).",
   note=TB + "contract clauses for third-party trait objects: size is the same on every call, FCI size is a multiple of 4, format() <= 31.", ref="§4 C06"),
 "C17": dict(cat="proof", tech="symbolic tiling of the abstract write log (frontier argument, per-element chaining for loops), def-before-use on buffer bytes, wrapper view restriction",
   text="The write log of every write_into_unchecked, under SIZE = Ok(n), is shown to tile [0,n) for all configurations: regions are ordered by entailment, per-element regions of loops chain (end of element k = start of element k+1, via prefix-sum step facts), dyn members are regions of their announced size; no byte of the output buffer is read before the same call wrote it (so the result is independent of prior contents); every region lies inside [0,n); the write_into wrappers pass exactly buf[..n] on and perform no write on any failing path.",
   note=TB, ref="§4 C17"),
 "C07": dict(cat="translation_validation", tech="abstract write log resolved last-writer-wins and read back at symbolic positions; compared row by row with an RFC layout table; region tree for variable-stride structures",
   text="For every builder the final memory of WRITE under SIZE = Ok(n) is read back byte by byte at fixed and symbolic positions (element index k, offset j) and entailed equal to an independent image written from the RFC figures: V=2, P bit iff padding, 5-bit count/subtype/FMT, packet type, length field = n/4-1 without truncation, big-endian SR/RR/report-block/APP/BYE/feedback/FIR fields, SLI 13/13/6 packing (bit provenance), RPSI PB/PT/zero fill, SDES item type/length/prefix/value, SDES null terminator and zero fill to 32 bits, trailer zeros ending in the count; SDES packet, chunk and compound layouts through the region tree; NACK words are (PID, BLP) big-endian at 4k.",
   note=TB + "the RFC transcription (spec.py, rules/c07.py). Not decided: NACK uses the minimum number of words. Open finding D11 (length field truncates above 65536 words) is reported as KNOWN-FINDING.", ref="§4 C07"),
 "C14": dict(cat="proof", tech="summaries of the compound builder under the dyn member contract (prefix-sum size, per-member views, region tiling); forwarding arms of the PacketBuilder enum with member methods uninterpreted",
   text="CompoundBuilder's size is the prefix sum of the members' announced sizes, accepted iff every member is valid and no member but the last requests padding (both directions from the outcome path conditions and the quantified loop facts); each member is handed a view of exactly its announced size and the output is exactly the members' images in order; get_padding is the last member's; each of PacketBuilder's 3x8 arms calls the same method of the wrapped builder on the same buffer.",
   note=TB + "parse-back of the built compound is the composition of C07 (member headers describe their own size), C11 and C12.", ref="§4 C14"),
 "C16": dict(cat="other", tech="SIZE summaries (guarded outcomes) checked against an independent limits table by entailment: soundness of every Err outcome, completeness of every Ok outcome",
   text="Proof-style check with one recorded open finding: every Err outcome of every calculate_size must be for a rule of the limits table that its path condition entails to be violated, with an admissible variant and the offending value as payload; every Ok outcome must entail every rule, including element rules through the containers' quantified facts, the FCI kind, non-last compound padding and the 16-bit length field limit; the value each public constructor returns (symbolic arguments) violates no argument-independent rule (a fresh builder is a configuration too). All obligations are discharged except the total-size limit for five builders (D11, KNOWN-FINDING), hence category 'other' rather than 'proof' until that is repaired.",
   note=TB + "the limits table in rules/c16.py / spec.py.", ref="§4 C16"),
 "C20": dict(cat="proof", tech="SET summaries of builder methods (abstract interpretation); frame/rebuild rules over the ADT field tables; collection-idiom recognition via std contracts; effect check",
   text="Every by-value builder method is summarised: each result field is either the same field of self or is determined by the arguments (setters of different fields commute, repeated setters keep the last value, *_owned/into_owned rebuilds lose nothing); list adders push exactly the argument, NACK inserts into an ordered set, FIR add_ssrc is insert-or-overwrite with the same value; builder()/builder_owned() agree on all plain fields and differ only in the wrapper variant, whose as_ref/deref return the wrapped builder in both variants; size/write take &self, no builder field has interior mutability, and writers touch only the output buffer.",
   note=TB + "std collection contracts (Vec::push appends, BTreeSet ordered/idempotent, HashMap entry API).", ref="§4 C20"),
 "C08": dict(cat="proof", tech="path-condition entailment of RFC framing facts on every accepting path; header accessor summaries vs RFC header table",
   text="On every Ok outcome of every typed parser, of the generic parser per dispatched variant, and of the unknown parser, the path condition entails (for all inputs) minimum size, version 2, the RFC packet type, len = 4*(length field+1), padding bit => non-zero final byte, and count-implied body size, with all constants taken from an independent RFC table; version/type_/count/subtype/length/padding accessor summaries are entailed equal to those header values.",
   note=TB + "RFC constants in rtcpverif/spec.py.", ref="§4 C08"),
 "C09": dict(cat="translation_validation", tech="accessor summaries (abstract interpretation) compared row by row with an independent RFC layout table; slice provenance; refutation of reject paths under RFC well-formedness",
   text="Accessor summaries of SR, RR, report block, APP, BYE, feedback header and unknown packets are compared with the RFC layout table: scalars must be the big-endian word at the table's offset and width, byte ranges must be views of the caller's buffer with the table's bounds (padding excluded), element iterators must have count = count field and element k at the table's stride; every rejecting path of each parser is refuted under RFC well-formedness (framing, count-implied size, legal zero padding).",
   note=TB + "the RFC layout table (spec.py). For paddings that are not a multiple of 4 the RFC does not define the layout; the table accepts either reading of a single leftover byte in BYE.", ref="§4 C09"),
 "C11": dict(cat="proof", tech="loop summarisation into a validated recurrence + iterator typestate (inductive invariant, transition table) with the generic parser uninterpreted",
   text="Compound::parse's validation loop is summarised as the recurrence o0=0, o'=o+4*(BE16(o+2)+1) with the facts checked at every chain point; accept <=> non-empty and the chain ends exactly at len (both directions, from the outcome path conditions). Compound::next is a transition system over (offset, is_over) under an inferred inductive invariant: finished => None and unchanged; otherwise it yields exactly Packet::parse(tile), advances by the tile, finishes after the first error or when offset reaches len; progress bounds the number of items by the number of tiles.",
   note=TB, ref="§4 C11"),
 "C12": dict(cat="proof", tech="abstract interpretation of dispatch and conversions with typed parsers as uninterpreted functions; impl-table exhaustiveness",
   text="Packet::parse and all 7x4 TryFrom conversions (+ try_as, From) are interpreted with the typed parsers left uninterpreted, so every outcome shows which parser was applied to which bytes: each variant is selected exactly by its RFC packet type and holds the unchanged result (value or error) of its own type's parser on the unchanged input, unknown types go to Unknown::parse; conversions return the stored value, re-parse an unknown packet's exact bytes with the target parser, or give PacketTypeMismatch{actual: the packet's type byte, requested: the target's RFC type}.",
   note=TB + "equality of the typed parsers' own outcomes is by identity of the (uninterpreted) call and its argument view.", ref="§4 C12"),
 "C13": dict(cat="proof", tech="relational comparison of accessor summaries (padded vs unpadded packet) + footprint/non-interference analysis + refutation of reject paths",
   text="With C = len - padding: on padded accepting paths every byte a content accessor's result or decision depends on lies below C and every returned view ends at or below C (under 'the unpadded packet was accepted'); for SR, RR, APP, BYE and feedback (incl. the FCI view handed to FCI parsers) the accessor summaries of the padded packet (len := C+p) and of the unpadded packet (len := C, P bit cleared) are entailed equal pairwise under their joint path condition; no rejecting path is consistent with adding legal zero padding to an accepted packet. SDES (eager tokeniser with loops): footprint of every chunk/item view and the chunk walk ending exactly at C.",
   note=TB + "SDES: agreement with the unpadded tokenisation is by footprint + walk bound, not by pairwise comparison of loop outcomes.", ref="§4 C13"),
 "C18": dict(cat="proof", tech="entailment of error-payload truthfulness on every rejecting path of every parser and conversion",
   text="Every Err outcome of every parser (typed, generic, unknown, compound, report block, FCI, SDES sub-parsers) and of every conversion/FCI extraction is checked against its path condition: UnsupportedVersion carries the input's version and it is not 2; PacketTypeMismatch carries the input's type byte and the parser's RFC type, which differ; Truncated has expected > actual, TooLarge expected < actual; inputs shorter than the minimum give Truncated{MIN, len} (typed parsers, the generic parser per dispatched type, and compound parsing with the smallest packet's minimum); version-2 inputs of the right type with a wrong total length give Truncated/TooLarge{4*(length field+1), len}.",
   note=TB, ref="§4 C18"),
}
SETTERS = (" The configured values are those handed to the public setters: for the builders of this property every by-value builder method "
           "is shown to keep every other field, to store its argument unchanged, and to let every argument reach the configuration "
           "(frame / rebuild / collection-idiom / setter-effect rules shared with C20).")
EXTRA = {
 "C02": SETTERS, "C03": SETTERS + " With the chunk parser hooked, its result is appended exactly once per walk step to the list Sdes::chunks() traverses.",
 "C04": SETTERS,
 "C05": SETTERS + " The FCI trait contract assumed at packet level (announces S, writes exactly S) is discharged here for every FCI builder; the NACK word generator is also executed exactly on one- and two-element request sets (every distance 1..=16 and beyond), and after a flush the base must be the number that did not fit.",
 "C07": SETTERS + " The NACK encoder rules of C05 (step relation, post-state, exact small request sets) are evaluated here as well.",
 "C10": " The eight public SDES item-type constants equal RFC 3550's numbers; every chunk the walk parses is appended once to the list Sdes::chunks() traverses from its first element; the item list ends at the first null (a loop stepping over null bytes parses nothing else).",
 "C14": " add_packet appends exactly its argument (setter rules shared with C20).",
 "C16": " The setter rules shared with C20 are evaluated here for every builder (a configuration is what the public setters were given).",
 "C20": " Every argument of every by-value builder method reaches the configuration (a setter that does not set, an adder that does not add, is reported).",
 "C09": " Undischarged overflow/division obligations of the parser and of the accessors compared are reported here as well.",
 "C13": " Undischarged overflow/division obligations met while interpreting the parser are reported here as well.",
}
PENDING = "check under construction (see DESIGN.md); not yet registered"
def main():
    props = [json.loads(l)["id"] for l in open(os.path.join(V, "properties.jsonl"))]
    checks, na = [], []
    for p in props:
        c = CHECKS.get(p)
        if c is None:
            na.append({"property_id": p, "reason": PENDING})
            continue
        checks.append({
            "property_id": p,
            "quick_cmd": f"./check {p} --tier quick",
            "thorough_cmd": f"./check {p} --tier thorough",
            "evidence_file": f"/verif/evidence/{p}.json",
            "replay_cmd_template": f"./check {p} --replay {{path}}",
            "engine": "rtcpverif",
            "level_claimed": {"category": c["cat"], "text": c["text"] + EXTRA.get(p, ""), "design_ref": c["ref"]},
            "level_note": c["note"],
            "technique": c["tech"],
        })
    fixes = subprocess.run(["git", "-C", "/repo", "log", "--format=%h %s"], capture_output=True, text=True).stdout.splitlines()
    m = {
        "version": 1,
        "setup_cmd": "./setup.sh",
        "hooks": {"guard": "rtcp_types_verif", "enable": "none needed: the analysis reads the unmodified source through a rustc driver (cargo +nightly check with RUSTC_WORKSPACE_WRAPPER)",
                  "baseline_off_cmd": "cd /repo && cargo test --workspace --no-fail-fast --offline", "source_commits": [], "add_only": True},
        "engines": [{"name": "rtcpverif", "path": "/verif/rtcpverif", "serves_properties": sorted(CHECKS),
                     "kind_free_text": "repo-specific static analyser: rustc_private driver dumps THIR/MIR/item tables; Python path-sensitive abstract interpreter (linear integer domain with own Fourier-Motzkin entailment, bit provenance, abstract write log, loop summarisation) computes function summaries; per-property rules compare summaries with each other and with RFC tables. Nothing is executed."}],
        "checks": checks,
        "notes": "fix: commits in /repo (genuine defects reported by the checks, see known_findings.json): " + "; ".join(f for f in fixes if " fix:" in f),
        "not_applicable": na,
    }
    json.dump(m, open(os.path.join(V, "MANIFEST.json"), "w"), indent=1)
    print(len(checks), "checks,", len(na), "not applicable")
if __name__ == "__main__":
    main()
