#!/usr/bin/env python3
"""regenerates /verif/MANIFEST.json from the table below (run after adding a check)"""
import json, os, subprocess
V = os.path.dirname(os.path.dirname(os.path.abspath(__file__)))
TB = ("trusted: rustc's THIR/MIR and the driver's serialisation; the abstract interpreter's transfer functions and "
      "linear-integer entailment (unit-tested); the std contract table; ")
CHECKS = {
 "C01": dict(cat="proof", tech="abstract interpretation of THIR: panic-freedom obligations under type invariants, loop ranking, iterator typestate",
   text="Every partial operation (index, slice range, arithmetic overflow, unwrap/expect, explicit panic, std preconditions) reachable from the 16 parsing entry points on an arbitrary byte string, and from every public method/conversion/iterator on every value they can return, is an obligation discharged for all inputs under the facts of the constructing path (type invariant); every loop gets a ranking argument; every stateful iterator an inductive state invariant (Houdini) and a lexicographic progress measure bounded by the input length; Compound::next is justified by recurrence agreement with the validation loop of Compound::parse.",
   note=TB + "allocation failure/stack exhaustion out of scope; documented-panic exemption only for methods with a '# Panic' doc section called directly.", ref="§4 C01"),
}
PENDING = "check under construction (see DESIGN.md); not yet registered"
def main():
    props = [json.loads(l)["id"] for l in open(os.path.join(V, "properties.jsonl"))]
    checks, na = [], []
    for p in props:
        c = CHECKS.get(p)
        if c is None:
            na.append({"property_id": p, "reason": PENDING})
            continue
        checks.append({
            "property_id": p,
            "quick_cmd": f"./check {p} --tier quick",
            "thorough_cmd": f"./check {p} --tier thorough",
            "evidence_file": f"/verif/evidence/{p}.json",
            "replay_cmd_template": f"./check {p} --replay {{path}}",
            "engine": "rtcpverif",
            "level_claimed": {"category": c["cat"], "text": c["text"], "design_ref": c["ref"]},
            "level_note": c["note"],
            "technique": c["tech"],
        })
    fixes = subprocess.run(["git", "-C", "/repo", "log", "--format=%h %s"], capture_output=True, text=True).stdout.splitlines()
    m = {
        "version": 1,
        "setup_cmd": "./setup.sh",
        "hooks": {"guard": "rtcp_types_verif", "enable": "none needed: the analysis reads the unmodified source through a rustc driver (cargo +nightly check with RUSTC_WORKSPACE_WRAPPER)",
                  "baseline_off_cmd": "cd /repo && cargo test --workspace --no-fail-fast --offline", "source_commits": [], "add_only": True},
        "engines": [{"name": "rtcpverif", "path": "/verif/rtcpverif", "serves_properties": sorted(CHECKS),
                     "kind_free_text": "repo-specific static analyser: rustc_private driver dumps THIR/MIR/item tables; Python path-sensitive abstract interpreter (linear integer domain with own Fourier-Motzkin entailment, bit provenance, abstract write log, loop summarisation) computes function summaries; per-property rules compare summaries with each other and with RFC tables. Nothing is executed."}],
        "checks": checks,
        "notes": "fix: commits in /repo (genuine defects reported by the checks, see known_findings.json): " + "; ".join(f for f in fixes if " fix:" in f),
        "not_applicable": na,
    }
    json.dump(m, open(os.path.join(V, "MANIFEST.json"), "w"), indent=1)
    print(len(checks), "checks,", len(na), "not applicable")
if __name__ == "__main__":
    main()
