import sys, time
sys.path.insert(0, '/verif')
from rtcpverif import facts, solver
from rtcpverif.analysis import *
from rtcpverif.rules import c01
from rtcpverif.lin import show_formula, show_pc
F = facts.load()
D = Disc(F)
entries = D.parse_entries()
covered, bad = c01.construction_discipline(F, entries)
for d, adt, kind in entries:
    if sys.argv[1] not in d: continue
    I, X, outs, n_ok = c01.analyse_entry(F, d, adt, covered=covered)
    for p in X.visited: print('/'.join(p))
    for o in I.obligations:
        if not o.ok:
            print('BAD', o.kind, o.span, o.stack, show_formula(o.goal)[:200])
    print(I.unmodelled)
    print(I.notes[:20])
