import sys
sys.path.insert(0, '/verif')
from rtcpverif import solver
from rtcpverif.lin import *
o2=Lin.atom(('sym','o2','usize')); o=Lin.atom(('sym','o','usize'))
m = Lin.atom(('mod', o.key(), 4))
pc=[le(o2, o + 4 - m), ne(Lin.atom(('mod',o2.key(),4)),0), le(o+1,o2), lt(o2, Lin.atom(('len','D')))]
print('ind', solver.entails(pc, flit(le(m + o2, o + 3))))
print('ind_lit', solver.entails_lit(pc, le(m + o2, o + 3)))
