import sys
sys.path.insert(0, '/verif')
from rtcpverif import facts, solver, loops
from rtcpverif.analysis import *
from rtcpverif.interp import Interp, State
from rtcpverif.lin import show_formula, show_pc
F = facts.load()
D = Disc(F)
adt='sdes::SdesChunkBuilder'
cs=[i['def'] for i in D.inherent(adt) if i['name']=='calculate_size'][0]
wr=[i['def'] for i in D.inherent(adt) if i['name']=='write_into_unchecked'][0]
I = Interp(F)
b = I.symbolic(D.ty_index_of_adt(adt), ('b',))
outs = I.run(cs, [b])
for fid, f in I.loops.psfuns.items(): print(fid, f['seq'], [(show_pc(c), str(d)) for c,d in f['cases']])
s,k,v = [o for o in outs if o[2].variant=='Ok'][0]
print(show_pc(s.pc)[:1500])
st=s.clone(); buf = SliceV('B', 0, Lin.atom(('len','B'))); st.pc.append(eq(Lin.atom(('len','B')), v.fields['0'].l))
w = I.inline(wr, None, st, [b, buf])
for fid, f in I.loops.psfuns.items(): print(fid, f['seq'], [(show_pc(c), str(d)) for c,d in f['cases']])
