import sys, time
sys.path.insert(0, '/verif')
from rtcpverif import facts, solver
from rtcpverif.analysis import *
from rtcpverif.rules import c01
from rtcpverif.lin import show_formula, show_pc
F = facts.load()
D = Disc(F)
entries = D.parse_entries()
covered, bad = c01.construction_discipline(F, entries)
for d, adt, kind in entries:
    if not d.startswith(sys.argv[1]): continue
    I, X, outs, n_ok = c01.analyse_entry(F, d, adt, covered=covered)
    seen=set()
    for o in I.obligations:
        if not o.ok:
            k=(o.kind,o.span,tuple(o.stack))
            if k in seen: continue
            seen.add(k)
            print('BAD', o.kind, o.span, o.stack, show_formula(o.goal)[:200])
    for u in I.unmodelled[:30]: print(u)
    print(I.notes[:20])
    for r in I.loop_reports:
        if not r.ranked: print(r.fn, r.span, r.invariants, r.measure)
