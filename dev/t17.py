import sys
sys.path.insert(0, '/verif')
from rtcpverif import solver
from rtcpverif.lin import *
x = Lin.atom(('sym','b.subtype','u8'))
sl=Lin.atom(('sl', x.key(), 6, 7))
orig=solver._solve
def dbg(les,eqs,nes):
    print('LES'); [print('  ',l,'<=0') for l in les]
    print('EQS'); [print('  ',l,'==0') for l in eqs]
    print('NES'); [print('  ',l,'!=0') for l in nes]
    r=orig(les,eqs,nes); print('->',r); return r
solver._solve=dbg
print(solver.unsat([le(x,31), ge(sl,1)]))
