import sys
sys.path.insert(0, '/verif')
from rtcpverif import facts, wsumm, solver
from rtcpverif.lin import *
from rtcpverif.values import *
F = facts.load()
x = Lin.atom(('sym','b.subtype','u8'))
w = Lin.atom(('mod', x.key(), 32)) + Lin.atom(('sl', x.key(), 6, 7), 64) + 160
print('byte0', solver.entails([le(x,31)], flit(eq(w, x+160))))
B=[b for b in wsumm.discover(F) if b.name=='FirBuilder'][0]
S=wsumm.Summary(F,B, exact=False)
for wc in S.cases:
    for s2,r in wc.outs:
        print(s2.mem.get('B'))
        K = Lin.atom(('k','kk'))
        st = s2.clone(); st.pc += [le(0,K), lt(K, S.b.fields['ssrc_seq'].count())]
        S.I.notes=[]
        print(S.I.read_byte(st, 'B', K.scale(8)), S.I.notes)
