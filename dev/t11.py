import sys
sys.path.insert(0, '/verif')
from rtcpverif import facts, solver, loops
from rtcpverif.analysis import *
from rtcpverif.interp import Interp, State
from rtcpverif.lin import show_formula, show_pc
F = facts.load()
D = Disc(F)
adt='compound::CompoundBuilder'
cs = D.impl_item(WRITER_TRAIT, adt, 'calculate_size')
I = Interp(F)
b = I.symbolic(D.ty_index_of_adt(adt), ('b',))
outs = I.run(cs, [b])
for s,k,v in outs:
    print(repr(v)[:100])
    for l in s.pc: print('     ', l if l[0] in ('forall','b') else show_pc([l]))
