import sys
sys.path.insert(0, '/verif')
from rtcpverif import facts, solver, loops
from rtcpverif.analysis import *
from rtcpverif.interp import Interp, State
from rtcpverif.lin import show_formula, show_pc
F = facts.load()
D = Disc(F)
adt='sdes::SdesChunkBuilder'
cs=[i['def'] for i in D.inherent(adt) if i['name']=='calculate_size'][0]
I = Interp(F)
b = I.symbolic(D.ty_index_of_adt(adt), ('b',))
outs = I.run(cs, [b])
for s,k,v in outs: print(k, repr(v)[:200], '|', show_pc(s.pc)[:400])
print(I.notes[:10])
