#!/bin/bash
# run all 20 quick checks in parallel on /repo's working tree; print one line each
cd /verif
./check C01 >/dev/null 2>&1   # extract once
for i in $(seq -w 1 20); do ( ./check C$i > /tmp/all_C$i.log 2>&1; echo "C$i exit=$? $(tail -1 /tmp/all_C$i.log)" ) & 
  if (( 10#$i % 7 == 0 )); then wait; fi
done; wait
grep -l "^VIOLATION" /tmp/all_C*.log
