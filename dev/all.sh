#!/bin/bash
# dev/all.sh : all twenty quick checks on /repo as it is, in parallel; prints one line per check
cd /verif
./check C01 > /tmp/all_C01.log 2>&1; echo "C01 exit=$? $(tail -1 /tmp/all_C01.log)"
for i in 02 03 04 05 06 07 08 09 10 11 12 13 14 15 16 17 18 19 20; do ( ./check C$i > /tmp/all_C$i.log 2>&1; echo "C$i exit=$? $(tail -1 /tmp/all_C$i.log)" ) & done; wait
