import sys
sys.path.insert(0, '/verif')
from rtcpverif import solver
from rtcpverif.lin import *
o2=Lin.atom(('sym','o2','usize')); i=Lin.atom(('sym','init','usize'))
P = i + 3 - Lin.atom(('mod',(i+3).key(),4))
pc=[le(o2,P), ne(Lin.atom(('mod',o2.key(),4)),0), le(i,o2)]
print('ind', solver.entails(pc, flit(le(o2+1,P))))
