import sys, os
sys.path.insert(0, os.path.dirname(os.path.dirname(os.path.abspath(__file__))))
from rtcpverif import facts
from rtcpverif.analysis import *
from rtcpverif.interp import Interp
from rtcpverif.lin import *
from rtcpverif.rules.c01 import input_slice
F = facts.load(); D = Disc(F)
d = [x for x in F.bodies if x.endswith("Compound::<'a>::parse")][0]
I = Interp(F)
outs = I.run(d, [input_slice()])
for rep in I.loop_reports:
    print("LOOP", rep.fn, rep.kind, rep.span, "carried", rep.carried)
    print(" inv", [show_lit(l) for l in rep.inv_lits])
    for delta, new in rep.backs:
        print("  BACK", show_pc(delta)); print("      ", {a[1]: str(v) for a, v in new.items()})
    for k, v, delta in rep.exit_kinds:
        print("  EXIT", k, str(v)[:80], "|", show_pc(delta))
print(validated_recurrence(I, d))
