import sys, time
sys.path.insert(0, '/verif')
from rtcpverif import facts, solver
from rtcpverif.analysis import *
from rtcpverif.rules import c01
from rtcpverif.lin import show_formula
F = facts.load()
D = Disc(F)
entries = D.parse_entries()
covered, bad = c01.construction_discipline(F, entries)
print('covered', len(covered), 'bad', bad)
only = sys.argv[1:] 
for d, adt, kind in entries:
    if only and not any(o in d for o in only): continue
    t=time.time()
    I, X, outs, n_ok = c01.analyse_entry(F, d, adt, covered=covered)
    badob=[o for o in I.obligations if not o.ok]
    print(f'{d}: outs={len(outs)} ok={n_ok} obl={len(I.obligations)} bad={len(badob)} methods={X.method_runs} iters={len(X.iter_reports)} dedup={len(X.deduped)} {time.time()-t:.1f}s')
    for o in badob[:10]: print('   BAD', o.kind, o.span, o.fn, show_formula(o.goal)[:200])
    for u in I.unmodelled[:10]: print('   UNM', u)
    for s in X.skipped[:5]: print('   SKIP', s)
    for r in I.loop_reports:
        if not r.ranked: print('   LOOP', r)
    for r in X.iter_reports:
        print('   ITER', r.adt, r.path, 'progress', r.progress_ok, r.progress, 'chain', r.chain_ok)
        for i in r.invariant[:12]: print('       inv', i)
    sys.stdout.flush()
