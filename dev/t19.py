import sys
sys.path.insert(0, '/verif')
from rtcpverif import facts, solver
from rtcpverif.interp import Interp
from rtcpverif.rules.c01 import input_slice
from rtcpverif.lin import *
F = facts.load()
I = Interp(F)
d=[x for x in F.bodies if x.endswith("SdesChunk::<'a>::parse")][0]
outs=I.run(d,[input_slice()])
for r in I.loop_reports: print(r.span, r.invariants, [ (show_pc(dl), {str(k):str(v) for k,v in n.items()}) for dl,n in r.backs])
for s,k,v in outs:
    if v.variant=='Ok': print(v.fields['0'].items[1], '|', show_pc(s.pc)[:900]); print(s.tiles)
