#!/usr/bin/env python3
"""dev/refcheck.py <patch files...> — run all twenty checks on scratch copies of /repo with each behaviour-preserving patch applied"""
import os, sys, shutil, tempfile, subprocess, json, concurrent.futures as cf
sys.path.insert(0, os.path.dirname(os.path.dirname(os.path.abspath(__file__))))
from rtcpverif import controls
ALL = [f"C{i:02d}" for i in range(1, 21)]

def one(patch):
    tmp = tempfile.mkdtemp(prefix="rtcpref")
    try:
        controls._copy_tree(tmp)
        r = subprocess.run(["patch", "-p1", "-s", "-f", "-i", os.path.abspath(patch)], cwd=tmp, capture_output=True, text=True)
        if r.returncode != 0:
            return patch, "PATCH FAILED " + r.stdout[:200], {}
        out = {}
        controls._run(ALL[0], tmp)
        with cf.ThreadPoolExecutor(max_workers=4) as ex:
            for c, (rc, rules) in zip(ALL, ex.map(lambda c: controls._run(c, tmp), ALL)):
                if rc != 0:
                    out[c] = (rc, rules[:4])
        return patch, "", out
    finally:
        shutil.rmtree(tmp, ignore_errors=True)

with cf.ThreadPoolExecutor(max_workers=4) as ex:
    for patch, err, out in ex.map(one, sys.argv[1:]):
        print("==", patch, err)
        for c, (rc, rules) in out.items():
            print("   ", c, "exit", rc)
            for r in rules:
                print("       ", r[:300])
        if not out and not err:
            print("    silent on all 20")
        sys.stdout.flush()
