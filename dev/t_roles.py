import sys, os
sys.path.insert(0, os.path.dirname(os.path.dirname(os.path.abspath(__file__))))
from rtcpverif import facts, roles
F = facts.load()
for adt, m in roles.resolve(F).items():
    short = adt.split("::")[-1]
    missing = [r for r in roles.ROLES[short] if r not in m]
    print(short, m, "MISSING" if missing else "", missing)
