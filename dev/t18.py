import sys
sys.path.insert(0, '/verif')
from rtcpverif import facts, wsumm, solver
from rtcpverif.lin import *
from rtcpverif.values import *
F = facts.load()
B=[b for b in wsumm.discover(F) if b.name=='ByeBuilder'][0]
S=wsumm.Summary(F,B)
wc=S.cases[0]
s2,r = wc.outs[0]
n=wc.n
for w in s2.mem['B']: print(w)
S.I.notes=[]
print(S.I.read_byte(s2,'B',n-1), S.I.notes)
w=s2.mem['B'][-1]
print('start<=off', solver.entails(s2.pc, flit(le(w.start, n-1))), 'off<end', solver.entails(s2.pc, flit(lt(n-1, w.end))))
print(show_pc(s2.pc))
b2=S.I.read_byte(s2,'B',lin(2)); b3=S.I.read_byte(s2,'B',lin(3))
print(solver.entails(s2.pc, flit(eq((b2.l.scale(256)+b3.l+1).scale(4), n))))
LB=Lin.atom(('len','B'))
T=Lin.atom(('div', LB.key(), 4))
print('4*div==len', solver.entails(s2.pc, flit(eq(T.scale(4), LB))))
print('T<=65536', solver.entails(s2.pc, flit(le(T, 65536))))
