import sys
sys.path.insert(0, '/verif')
from rtcpverif import facts, solver
from rtcpverif.analysis import *
from rtcpverif.roundtrip import *
from rtcpverif.lin import *
F = facts.load(); D=Disc(F)
B=[b for b in discover(F) if b.name=='ByeBuilder'][0]
p=D.impl_item(PARSER_TRAIT,'bye::Bye','parse')
T=Trip(F,B,p)
for wc,s2,live,unm in T.cases:
    print('CASE n=',wc.n, '| write pc tail:', show_pc(s2.pc[-4:]))
    for s,v in live:
        print('   ', repr(v)[:150], 'feasible', solver.feasible(s.pc))
        if v.variant=='Err':
            print('      ', show_pc(s.pc[len(s2.pc):])[:900])
