#!/usr/bin/env python3
"""dev/sweep.py [--files a.rs,b.rs] [--max N] [--seed S] [--out FILE] — development aid, not a check.

Generates one-token mutations of the non-test code of /repo/src (comparison, arithmetic, logical and bit operators,
integer literals +-1, dropped `!`), runs all twenty checks on a scratch copy with each mutation applied and, for the
mutants every check is silent on, runs the repository's test suite: a silent mutant the tests kill is a miss of the
machinery for sure; a silent mutant the tests do not kill is either equivalent or a miss and is listed for reading.
Never touches /repo; scratch copies are removed as soon as a mutant is classified."""
import concurrent.futures as cf, json, os, random, re, shutil, subprocess, sys, tempfile
sys.path.insert(0, os.path.dirname(os.path.dirname(os.path.abspath(__file__))))
from rtcpverif import controls, facts

ALL = [f"C{i:02d}" for i in range(1, 21)]
SUBS = [
    (r"(?<=[\w)\]]) < (?=[\w(&*])", " <= "), (r"(?<=[\w)\]]) <= (?=[\w(&*])", " < "),
    (r"(?<=[\w)\]]) > (?=[\w(&*])", " >= "), (r"(?<=[\w)\]]) >= (?=[\w(&*])", " > "),
    (r"(?<=[\w)\]]) == (?=[\w(&*])", " != "), (r"(?<=[\w)\]]) != (?=[\w(&*])", " == "),
    (r"(?<=[\w)\]]) \+ (?=[\w(&*])", " - "), (r"(?<=[\w)\]]) - (?=[\w(&*])", " + "),
    (r"(?<=[\w)\]]) \* (?=[\w(])", " + "), (r"(?<=[\w)\]]) / (?=[\w(])", " * "), (r"(?<=[\w)\]]) % (?=[\w(])", " / "),
    (r" && ", " || "), (r" \|\| ", " && "),
    (r"(?<=[\w)\]]) & (?=[\w(!])", " | "), (r"(?<=[\w)\]]) \| (?=[\w(!])", " & "),
    (r" << ", " >> "), (r" >> ", " << "),
    (r" \+= ", " -= "), (r" -= ", " += "), (r" &= ", " |= "), (r" \|= ", " &= "),
    (r"(?<=[ (])!(?=[\w(])", ""),
]
LIT = re.compile(r"(?<![\w.#\"'])(0x[0-9a-fA-F]+|\d+)(?![\w.\"'])")


def code_region(src):
    """offset where the unit tests start (mutations stay above it)"""
    m = re.search(r"#\[cfg\(test\)\]\s*mod tests", src)
    return m.start() if m else len(src)


def strip_line(line):
    return re.sub(r"//.*", "", line)


def candidates(path, src):
    end = code_region(src)
    out = []
    pos = 0
    for line in src[:end].splitlines(keepends=True):
        code = strip_line(line)
        st = code.strip()
        if not st or st.startswith("#[") or st.startswith("use ") or st.startswith("///") or "const " in st and "PACKET_TYPE" in st:
            pos += len(line)
            continue
        for pat, rep in SUBS:
            for m in re.finditer(pat, code):
                out.append((path, pos + m.start(), pos + m.end(), rep, line.strip()))
        for m in LIT.finditer(code):
            tok = m.group(1)
            v = int(tok, 16) if tok.startswith("0x") else int(tok)
            if "<" in code[:m.start()].split(" ")[-1]:
                continue
            for nv in (v + 1, v - 1):
                if nv < 0:
                    continue
                rep = hex(nv) if tok.startswith("0x") else str(nv)
                out.append((path, pos + m.start(), pos + m.end(), rep, line.strip()))
        pos += len(line)
    return out


def stmt_candidates(path, src):
    """whole-statement deletions: single-line expression statements (assignments, calls, `x?;`), not declarations"""
    end = code_region(src)
    out = []
    pos = 0
    for line in src[:end].splitlines(keepends=True):
        st = strip_line(line).strip()
        if st.endswith(";") and not re.match(r"(let|use|const|pub|type|static|return|break|continue|mod|impl|fn|#|//|\}|\))", st) and st.count("(") == st.count(")"):
            out.append((path, pos, pos + len(line), "", st))
        pos += len(line)
    return out


def ident_candidates(path, src):
    """one local variable used in place of another: inside each fn body, an occurrence of a local (a `let` name or a
    parameter) is replaced by another local of the same function"""
    end = code_region(src)
    out = []
    for m in re.finditer(r"\bfn\s+\w+[^{;]*\{", src[:end]):
        a = m.end()
        depth, i = 1, a
        while i < end and depth:
            depth += {"{": 1, "}": -1}.get(src[i], 0)
            i += 1
        body = src[a:i]
        sig = src[m.start():a]
        names = set(re.findall(r"\blet\s+(?:mut\s+)?(\w+)", body)) | set(re.findall(r"[(,]\s*(?:mut\s+)?(\w+)\s*:", sig))
        names -= {"self", "_", "Self"}
        if len(names) < 2:
            continue
        for nm in sorted(names):
            for mm in re.finditer(r"(?<![\w.])" + re.escape(nm) + r"(?![\w(!:])", body):
                pre = body[max(0, mm.start() - 12):mm.start()]
                if re.search(r"let\s+(mut\s+)?$", pre) or body[mm.end():mm.end() + 2] in (" =", "=") and not body[mm.end():mm.end() + 3].startswith(" =="):
                    continue
                line_a = body.rfind("\n", 0, mm.start()) + 1
                line = body[line_a:body.find("\n", mm.start())].strip()
                if line.startswith("//"):
                    continue
                for other in sorted(names - {nm}):
                    out.append((path, a + mm.start(), a + mm.end(), other, line))
    return out


def classify(mut):
    path, a, b, rep, line = mut
    tmp = tempfile.mkdtemp(prefix="rtcpsweep")
    try:
        controls._copy_tree(tmp)
        fp = os.path.join(tmp, path)
        s = open(fp).read()
        open(fp, "w").write(s[:a] + rep + s[b:])
        rc0, rules0 = controls._run(ALL[0], tmp)
        if rc0 not in (0, 1):
            return mut, "no-compile", {}, None
        res = {ALL[0]: rc0}
        first = {ALL[0]: rules0[:1]}
        with cf.ThreadPoolExecutor(max_workers=4) as ex:
            for c, (rc, rules) in zip(ALL[1:], ex.map(lambda c: controls._run(c, tmp), ALL[1:])):
                res[c] = rc
                first[c] = rules[:1]
        caught = sorted(c for c, rc in res.items() if rc == 1)
        errs = sorted(c for c, rc in res.items() if rc not in (0, 1))
        if caught or errs:
            return mut, "caught", {"by": caught, "errors": errs, "first": {c: first[c] for c in caught[:3]}}, None
        r = subprocess.run("cargo test --offline 2>&1 | grep -E 'test result|FAILED|panicked' | head -8", shell=True, cwd=tmp, capture_output=True, text=True,
                           env=dict(os.environ, CARGO_NET_OFFLINE="true"), timeout=900)
        failed = "FAILED" in r.stdout or "failed" in "".join(l for l in r.stdout.splitlines() if "test result" in l and " 0 failed" not in l)
        return mut, "MISS-tests-kill" if failed else "silent-survivor", {}, r.stdout[-400:]
    except subprocess.TimeoutExpired:
        return mut, "MISS-tests-kill", {}, "test suite does not terminate"
    finally:
        shutil.rmtree(tmp, ignore_errors=True)


def main():
    args = sys.argv[1:]
    opt = lambda k, d=None: args[args.index(k) + 1] if k in args else d
    files = opt("--files")
    mx = int(opt("--max", "100000"))
    seed = int(opt("--seed", "1"))
    out = opt("--out", "/tmp/sweep.jsonl")
    src_root = os.path.join(facts.REPO, "src")
    cands = []
    for root, _, fs in os.walk(src_root):
        for f in sorted(fs):
            if not f.endswith(".rs"):
                continue
            rel = os.path.relpath(os.path.join(root, f), facts.REPO)
            if files and not any(rel.endswith(x) for x in files.split(",")):
                continue
            cands += (stmt_candidates if "--stmt" in args else ident_candidates if "--ident" in args else candidates)(rel, open(os.path.join(root, f)).read())
    random.Random(seed).shuffle(cands)
    cands = cands[int(opt("--skip", "0")):mx]
    print(len(cands), "mutants")
    tally = {}
    with open(out, "a") as fo, cf.ThreadPoolExecutor(max_workers=4) as ex:
        for mut, verdict, info, tests in ex.map(classify, cands):
            tally[verdict] = tally.get(verdict, 0) + 1
            path, a, b, rep, line = mut
            src = open(os.path.join(facts.REPO, path)).read()
            ln = src[:a].count("\n") + 1
            rec = {"file": path, "line": ln, "old": src[a:b], "new": rep, "text": line, "verdict": verdict, **info}
            if tests:
                rec["tests"] = tests
            fo.write(json.dumps(rec) + "\n")
            fo.flush()
            if verdict not in ("caught", "no-compile"):
                print(f"{verdict}: {path}:{ln}  `{src[a:b]}` -> `{rep}`   {line[:110]}")
                sys.stdout.flush()
    print(tally)


if __name__ == "__main__":
    main()
