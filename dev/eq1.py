#!/usr/bin/env python3
"""dev/eq1.py <equiv name> <checks...> — run checks on one rewrite of controls.EQUIV (scratch copy)"""
import os, sys, shutil, tempfile, subprocess
sys.path.insert(0, os.path.dirname(os.path.dirname(os.path.abspath(__file__))))
from rtcpverif import controls
name, checks = sys.argv[1], sys.argv[2:]
e = [x for x in controls.EQUIV if x[0] == name][0]
tmp = tempfile.mkdtemp(prefix="rtcpeq")
try:
    controls._copy_tree(tmp)
    fp = os.path.join(tmp, e[1]); s = open(fp).read(); assert s.count(e[2]) == 1
    open(fp, "w").write(s.replace(e[2], e[3]))
    env = dict(os.environ, RTCP_REPO=tmp, RTCP_EVIDENCE_DIR=os.path.join(tmp, "evidence"))
    for c in checks:
        r = subprocess.run([os.path.join(controls.VERIF, "check"), c], env=env, capture_output=True, text=True)
        print(f"== {c}: exit {r.returncode}  {r.stdout.splitlines()[-1] if r.stdout else ''}")
        for l in r.stdout.splitlines():
            if l.startswith("  ") and not l.startswith("  floor"):
                print("   ", l[:500])
        if r.returncode not in (0, 1) or os.environ.get("SHOWERR"):
            print(r.stderr[-int(os.environ.get("SHOWERR") or 1500):])
finally:
    shutil.rmtree(tmp, ignore_errors=True)
