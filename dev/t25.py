import sys
sys.path.insert(0, '/verif')
from rtcpverif import solver
from rtcpverif.lin import *
c=Lin.atom(('cnt','b.sources')); P=Lin.atom(('sym','b.padding','u8'))
m=Lin.atom(('mod',c.key(),32))
pc=[le(c,31), le(P,0)]
print(solver.feasible(pc, [lt(m.scale(4)+4, c.scale(4)+P+4)]))
print(solver.entails(pc, flit(eq(m,c))))
print(solver.STATS)
