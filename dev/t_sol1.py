import sys
sys.path.insert(0,'/verif')
from rtcpverif import solver
from rtcpverif.lin import *
o=Lin.atom(("sym","offset","usize"))
m=Lin.atom(("mod",o.key(),4))
D=Lin.atom(("div",(o+3).key(),4))
pc=[ne(m,0)]
print(solver.entails(pc, flit(le(o+1, D.scale(4)))))
pc=[ge(m,1)]
print(solver.entails(pc, flit(le(o+1, D.scale(4)))))
