import sys
sys.path.insert(0, '/verif')
from rtcpverif import facts, solver
from rtcpverif.analysis import *
from rtcpverif.interp import Interp, State
from rtcpverif.lin import *
F = facts.load(); D=Disc(F)
nxt = [d for d in F.bodies if "NackBuilderEntryIter" in d and d.endswith("::next")]
adt = [a for a in F.adts if a.endswith("NackBuilder")][0]
I = Interp(F)
ent = [it["def"] for it in D.inherent(adt) if it["name"] == "entries"][0]
recv = I.symbolic(D.ty_index_of_adt(adt), ("b",))
for s, k, it in I.inline(ent, None, State(), [recv]):
    X = Explorer(F, I)
    rep = IterProtocol(X, s, it, nxt[0], (it.adt,)).run()
    for lr in I.loop_reports:
        if lr.fn != nxt[0]: continue
        for delta, new in lr.backs:
            for a, nv in new.items():
                if 'bitmask' in a[1] and nv is not None and nv != Lin.atom(a):
                    print('NEW', nv)
                    print('DELTA', show_pc(delta))
