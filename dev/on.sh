#!/bin/bash
# dev/on.sh <patch-or-seed-id> <check>... : run checks on a scratch copy of /repo with the patch applied; prints exit codes and first violations
p=$1; shift
[ -f "$p" ] || p=/verif/seeded/$p/patch.diff
d=$(mktemp -d /tmp/on.XXXXXX)
/verif/dev/scratch.sh $d $p >/dev/null || { echo "patch failed"; rm -rf $d; exit 2; }
export RTCP_REPO=$d RTCP_EVIDENCE_DIR=$d/ev RTCP_NO_CONTROLS=1
cd /verif
./check ${1:-C01} > $d/first.log 2>&1
for c in "$@"; do ( ./check $c > $d/$c.log 2>&1; echo "$c exit=$? $(grep -A1 '^VIOLATION' $d/$c.log | grep -v '^VIOLATION' | grep -v '^--' | head -${NV:-2} | cut -c1-${W:-330})" ) & done; wait
rm -rf $d
