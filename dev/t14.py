import sys
sys.path.insert(0, '/verif')
from rtcpverif import facts, wsumm
from rtcpverif.lin import show_formula, show_pc
F = facts.load()
B=[b for b in wsumm.discover(F) if b.name=='CompoundBuilder'][0]
S=wsumm.Summary(F,B)
for s,v in S.size_outs:
    print(v.variant)
    for l in s.pc: print('    ', l if l[0] in ('b','forall') else show_pc([l]))
