#!/usr/bin/env python3
"""dev/keys_at.py <commit> <check>...: run checks on /repo as of <commit> (scratch export) and print violation keys"""
import json, os, shutil, subprocess, sys, tempfile, glob
commit, checks = sys.argv[1], sys.argv[2:]
tmp = tempfile.mkdtemp(prefix="atrepo")
try:
    subprocess.run(f"git -C /repo archive {commit} | tar -x -C {tmp}", shell=True, check=True)
    ev = os.path.join(tmp, "evidence")
    env = dict(os.environ, RTCP_REPO=tmp, RTCP_EVIDENCE_DIR=ev)
    for c in checks:
        r = subprocess.run(["/verif/check", c], env=env, capture_output=True, text=True)
        print("==", c, "exit", r.returncode)
        for f in sorted(glob.glob(os.path.join(ev, "replay", c, "*.json"))):
            v = json.load(open(f))
            print(json.dumps({"key": v["key"], "rule": v["rule"], "function": v["function"], "goal": v["goal"][:160]}))
finally:
    shutil.rmtree(tmp, ignore_errors=True)
