import sys, os
sys.path.insert(0, os.path.dirname(os.path.dirname(os.path.abspath(__file__))))
from rtcpverif import facts
from rtcpverif.analysis import *
from rtcpverif.interp import Interp, State
from rtcpverif.lin import *
from rtcpverif.rules.c15 import iterate, state_syms, FCI_PARSER
from rtcpverif.rules.c01 import input_slice
F = facts.load(); D = Disc(F)
fadt = [a for a in F.adts if a.endswith("nack::Nack")][0]
d = D.impl_item(FCI_PARSER, fadt, "parse")
I = Interp(F)
inp = input_slice()
outs = I.run(d, [inp])
oks = [(s, v.fields["0"]) for s, k, v in outs if k == "val" and isinstance(v, StructV) and v.variant == "Ok"]
for s, v in oks:
    I.loop_reports = []
    rep, nd = iterate(F, D, I, s, v, "entries")
    print("syms", state_syms(rep))
    for lr in I.loop_reports:
        if lr.fn != nd: continue
        print("LOOP", lr.span, lr.kind if hasattr(lr,'kind') else '', "carried", lr.carried)
        for delta, new in lr.backs:
            print("  BACK", show_pc(delta)[:400])
            for a, nv in new.items(): print("      ", a, "->", nv)
        for kind, val, delta in lr.exit_kinds:
            print("  EXIT", kind, show_pc(delta)[:300])
