// Facts extractor for the rtcp-types verification harness.
//
// Injected as RUSTC_WORKSPACE_WRAPPER under `cargo +nightly check --lib`; in `after_analysis`
// it serialises, for the crate being compiled, the type-checked THIR of every body, a census
// of MIR panic/call sites, and item tables (ADTs, impls, functions) as one JSON file in
// $RTCP_FACTS_OUT.  It performs no analysis of its own.
#![feature(rustc_private)]
extern crate rustc_abi;
extern crate rustc_driver;
extern crate rustc_hir;
extern crate rustc_interface;
extern crate rustc_middle;
extern crate rustc_session;
extern crate rustc_span;

use rustc_driver::Compilation;
use rustc_hir::def::DefKind;
use rustc_hir::def_id::DefId;
use rustc_middle::thir::{self, ExprId, ExprKind, PatKind, StmtKind, Thir};
use rustc_middle::ty::{self, TyCtxt};
use std::cell::RefCell;
use std::collections::HashMap;
use std::fmt::Write as _;

struct Cb;

fn esc(s: &str) -> String {
    let mut o = String::with_capacity(s.len() + 2);
    o.push('"');
    for c in s.chars() {
        match c {
            '"' => o.push_str("\\\""),
            '\\' => o.push_str("\\\\"),
            '\n' => o.push_str("\\n"),
            '\t' => o.push_str("\\t"),
            c if (c as u32) < 0x20 => {
                let _ = write!(o, "\\u{:04x}", c as u32);
            }
            c => o.push(c),
        }
    }
    o.push('"');
    o
}

#[derive(Default)]
struct Tables {
    tys: Vec<String>,
    ty_ix: HashMap<String, usize>,
    files: Vec<String>,
    file_ix: HashMap<String, usize>,
}

struct D<'a, 'tcx> {
    tcx: TyCtxt<'tcx>,
    thir: &'a Thir<'tcx>,
    owner: DefId,
    tb: &'a RefCell<Tables>,
}

fn opt(s: Option<String>) -> String {
    s.unwrap_or_else(|| "null".into())
}

impl<'a, 'tcx> D<'a, 'tcx> {
    fn span(&self, sp: rustc_span::Span) -> String {
        let sm = self.tcx.sess.source_map();
        let lo = sm.lookup_char_pos(sp.lo());
        let hi = sm.lookup_char_pos(sp.hi());
        let fname = format!("{}", lo.file.name.prefer_local_unconditionally());
        let mut tb = self.tb.borrow_mut();
        let fi = match tb.file_ix.get(&fname) {
            Some(i) => *i,
            None => {
                let i = tb.files.len();
                tb.files.push(fname.clone());
                tb.file_ix.insert(fname, i);
                i
            }
        };
        format!(
            "[{},{},{},{},{},{}]",
            fi,
            lo.line,
            lo.col.0,
            hi.line,
            hi.col.0,
            if sp.from_expansion() { 1 } else { 0 }
        )
    }

    fn def(&self, d: DefId) -> String {
        esc(&self.tcx.def_path_str(d))
    }

    // structured type, interned
    fn ty(&self, t: ty::Ty<'tcx>) -> String {
        let s = self.ty_json(t);
        let mut tb = self.tb.borrow_mut();
        let i = match tb.ty_ix.get(&s) {
            Some(i) => *i,
            None => {
                let i = tb.tys.len();
                tb.tys.push(s.clone());
                tb.ty_ix.insert(s, i);
                i
            }
        };
        format!("{i}")
    }

    fn gargs(&self, ga: ty::GenericArgsRef<'tcx>) -> String {
        let v: Vec<String> = ga
            .iter()
            .filter_map(|a| {
                if let Some(t) = a.as_type() {
                    Some(self.ty(t))
                } else if let Some(c) = a.as_const() {
                    Some(esc(&format!("{c}")))
                } else {
                    None
                }
            })
            .collect();
        format!("[{}]", v.join(","))
    }

    fn ty_json(&self, t: ty::Ty<'tcx>) -> String {
        let disp = esc(&format!("{t}"));
        match t.kind() {
            ty::Bool => format!("{{\"k\":\"bool\",\"s\":{disp}}}"),
            ty::Char => format!("{{\"k\":\"char\",\"s\":{disp}}}"),
            ty::Int(_) | ty::Uint(_) => format!("{{\"k\":\"int\",\"s\":{disp}}}"),
            ty::Str => format!("{{\"k\":\"str\",\"s\":{disp}}}"),
            ty::Never => format!("{{\"k\":\"never\",\"s\":{disp}}}"),
            ty::Adt(adt, ga) => format!(
                "{{\"k\":\"adt\",\"def\":{},\"args\":{},\"s\":{disp}}}",
                self.def(adt.did()),
                self.gargs(ga)
            ),
            ty::Ref(_, inner, m) => format!(
                "{{\"k\":\"ref\",\"mut\":{},\"inner\":{},\"s\":{disp}}}",
                m.is_mut(),
                self.ty(*inner)
            ),
            ty::RawPtr(inner, m) => format!(
                "{{\"k\":\"ptr\",\"mut\":{},\"inner\":{},\"s\":{disp}}}",
                m.is_mut(),
                self.ty(*inner)
            ),
            ty::Slice(inner) => format!("{{\"k\":\"slice\",\"elem\":{},\"s\":{disp}}}", self.ty(*inner)),
            ty::Array(inner, n) => {
                let len = n
                    .try_to_target_usize(self.tcx)
                    .map(|v| format!("{v}"))
                    .unwrap_or_else(|| {
                        // try evaluating in the owner's environment
                        "null".into()
                    });
                format!(
                    "{{\"k\":\"array\",\"elem\":{},\"len\":{},\"lens\":{},\"s\":{disp}}}",
                    self.ty(*inner),
                    len,
                    esc(&format!("{n}"))
                )
            }
            ty::Tuple(ts) => format!(
                "{{\"k\":\"tuple\",\"elems\":[{}],\"s\":{disp}}}",
                ts.iter().map(|t| self.ty(t)).collect::<Vec<_>>().join(",")
            ),
            ty::Param(p) => format!("{{\"k\":\"param\",\"name\":{},\"s\":{disp}}}", esc(p.name.as_str())),
            ty::FnDef(did, ga) => format!(
                "{{\"k\":\"fndef\",\"def\":{},\"args\":{},\"s\":{disp}}}",
                self.def(*did),
                self.gargs(ga)
            ),
            ty::Closure(did, _) => format!("{{\"k\":\"closure\",\"def\":{},\"s\":{disp}}}", self.def(*did)),
            ty::Dynamic(preds, _) => {
                let tr = preds.principal_def_id().map(|d| self.def(d));
                format!("{{\"k\":\"dyn\",\"trait\":{},\"s\":{disp}}}", opt(tr))
            }
            ty::Alias(..) => format!("{{\"k\":\"alias\",\"s\":{disp}}}"),
            ty::FnPtr(..) => format!("{{\"k\":\"fnptr\",\"s\":{disp}}}"),
            _ => format!("{{\"k\":\"other\",\"s\":{disp}}}"),
        }
    }

    fn pat(&self, p: &thir::Pat<'tcx>) -> String {
        let k = match &p.kind {
            PatKind::Wild => "\"k\":\"Wild\"".to_string(),
            PatKind::Binding { name, var, subpattern, mode, .. } => format!(
                "\"k\":\"Binding\",\"name\":{},\"var\":{},\"byref\":{},\"sub\":{}",
                esc(name.as_str()),
                esc(&format!("{:?}", var.0.local_id)),
                esc(&format!("{:?}", mode.0)),
                subpattern.as_ref().map(|s| self.pat(s)).unwrap_or("null".into())
            ),
            PatKind::Variant { adt_def, variant_index, subpatterns, .. } => format!(
                "\"k\":\"Variant\",\"adt\":{},\"variant\":{},\"vidx\":{},\"subs\":[{}]",
                self.def(adt_def.did()),
                esc(adt_def.variant(*variant_index).name.as_str()),
                variant_index.as_u32(),
                subpatterns
                    .iter()
                    .map(|f| format!("{{\"f\":{},\"p\":{}}}", f.field.as_u32(), self.pat(&f.pattern)))
                    .collect::<Vec<_>>()
                    .join(",")
            ),
            PatKind::Leaf { subpatterns } => format!(
                "\"k\":\"Leaf\",\"subs\":[{}]",
                subpatterns
                    .iter()
                    .map(|f| format!("{{\"f\":{},\"p\":{}}}", f.field.as_u32(), self.pat(&f.pattern)))
                    .collect::<Vec<_>>()
                    .join(",")
            ),
            PatKind::Deref { subpattern, .. } => format!("\"k\":\"Deref\",\"sub\":{}", self.pat(subpattern)),
            PatKind::Constant { value } => format!(
                "\"k\":\"Constant\",\"v\":{},\"bits\":{}",
                esc(&format!("{value}")),
                value
                    .try_to_leaf()
                    .map(|s| esc(&format!("{}", s.to_bits_unchecked())))
                    .unwrap_or("null".into())
            ),
            PatKind::Or { pats } => format!(
                "\"k\":\"Or\",\"pats\":[{}]",
                pats.iter().map(|p| self.pat(p)).collect::<Vec<_>>().join(",")
            ),
            PatKind::Range(r) => {
                let bound = |b: &thir::PatRangeBoundary<'tcx>| match b {
                    thir::PatRangeBoundary::Finite(v) => v
                        .try_to_leaf()
                        .map(|s| esc(&format!("{}", s.to_bits_unchecked())))
                        .unwrap_or("null".into()),
                    thir::PatRangeBoundary::NegInfinity => "\"-inf\"".to_string(),
                    thir::PatRangeBoundary::PosInfinity => "\"+inf\"".to_string(),
                };
                format!(
                    "\"k\":\"Range\",\"lo\":{},\"hi\":{},\"inclusive\":{}",
                    bound(&r.lo),
                    bound(&r.hi),
                    matches!(r.end, rustc_hir::RangeEnd::Included)
                )
            }
            PatKind::Slice { prefix, slice, suffix } | PatKind::Array { prefix, slice, suffix } => format!(
                "\"k\":\"Slice\",\"array\":{},\"prefix\":[{}],\"slice\":{},\"suffix\":[{}]",
                matches!(&p.kind, PatKind::Array { .. }),
                prefix.iter().map(|x| self.pat(x)).collect::<Vec<_>>().join(","),
                slice.as_ref().map(|x| self.pat(x)).unwrap_or("null".into()),
                suffix.iter().map(|x| self.pat(x)).collect::<Vec<_>>().join(",")
            ),
            other => format!(
                "\"k\":\"Other\",\"dbg\":{}",
                esc(&format!("{other:?}").chars().take(200).collect::<String>())
            ),
        };
        let exp = p
            .extra
            .as_ref()
            .and_then(|e| e.expanded_const)
            .map(|d| self.def(d))
            .unwrap_or("null".into());
        format!("{{\"t\":{},\"sp\":{},\"const_def\":{},{}}}", self.ty(p.ty), self.span(p.span), exp, k)
    }

    fn block(&self, b: thir::BlockId) -> String {
        let blk = &self.thir[b];
        let stmts: Vec<String> = blk
            .stmts
            .iter()
            .map(|s| match &self.thir[*s].kind {
                StmtKind::Expr { expr, .. } => format!("{{\"k\":\"Expr\",\"e\":{}}}", self.expr(*expr)),
                StmtKind::Let { pattern, initializer, else_block, span, .. } => format!(
                    "{{\"k\":\"Let\",\"pat\":{},\"init\":{},\"else\":{},\"sp\":{}}}",
                    self.pat(pattern),
                    initializer.map(|e| self.expr(e)).unwrap_or("null".into()),
                    else_block.map(|b| self.block(b)).unwrap_or("null".into()),
                    self.span(*span)
                ),
            })
            .collect();
        format!(
            "{{\"stmts\":[{}],\"expr\":{}}}",
            stmts.join(","),
            blk.expr.map(|e| self.expr(e)).unwrap_or("null".into())
        )
    }

    fn exprs(&self, es: &[ExprId]) -> String {
        format!("[{}]", es.iter().map(|e| self.expr(*e)).collect::<Vec<_>>().join(","))
    }

    fn callee_info(&self, did: DefId, ga: ty::GenericArgsRef<'tcx>) -> String {
        let tcx = self.tcx;
        let env = ty::TypingEnv::post_analysis(tcx, self.owner);
        let resolved = match ty::Instance::try_resolve(tcx, env, did, ga) {
            Ok(Some(inst)) => self.def(inst.def_id()),
            _ => "null".into(),
        };
        // trait / impl membership of the callee
        let (tr, in_impl) = match tcx.opt_associated_item(did) {
            Some(ai) => match ai.container {
                ty::AssocContainer::Trait => (Some(self.def(tcx.parent(did))), false),
                _ => (None, true),
            },
            None => (None, false),
        };
        let name = esc(tcx.item_name(did).as_str());
        format!(
            "\"fn\":{},\"name\":{},\"resolved\":{},\"gargs\":{},\"trait\":{},\"in_impl\":{},\"local\":{}",
            self.def(did),
            name,
            resolved,
            self.gargs(ga),
            opt(tr),
            in_impl,
            did.is_local()
        )
    }

    fn expr(&self, id: ExprId) -> String {
        let e = &self.thir[id];
        if let ExprKind::Scope { value, region_scope, .. } = &e.kind {
            if let ExprKind::Loop { .. } = &self.thir[*value].kind {
                let inner = self.expr(*value);
                // tag the loop with the scope that `break`/`continue` labels refer to
                return format!("{{\"label\":{},{}", esc(&format!("{region_scope:?}")), &inner[1..]);
            }
            return self.expr(*value);
        }
        let body = match &e.kind {
            ExprKind::Scope { .. } => unreachable!(),
            ExprKind::If { cond, then, else_opt, .. } => format!(
                "\"k\":\"If\",\"cond\":{},\"then\":{},\"else\":{}",
                self.expr(*cond),
                self.expr(*then),
                else_opt.map(|e| self.expr(e)).unwrap_or("null".into())
            ),
            ExprKind::Call { ty, fun, args, from_hir_call, .. } => {
                let info = match ty.kind() {
                    ty::FnDef(did, ga) => self.callee_info(*did, ga),
                    _ => "\"fn\":null".into(),
                };
                format!(
                    "\"k\":\"Call\",{},\"hir_call\":{},\"fun\":{},\"args\":{}",
                    info,
                    from_hir_call,
                    self.expr(*fun),
                    self.exprs(args)
                )
            }
            ExprKind::Deref { arg } => format!("\"k\":\"Deref\",\"arg\":{}", self.expr(*arg)),
            ExprKind::Binary { op, lhs, rhs } => format!(
                "\"k\":\"Binary\",\"op\":{},\"lhs\":{},\"rhs\":{}",
                esc(&format!("{op:?}")),
                self.expr(*lhs),
                self.expr(*rhs)
            ),
            ExprKind::LogicalOp { op, lhs, rhs } => format!(
                "\"k\":\"Logical\",\"op\":{},\"lhs\":{},\"rhs\":{}",
                esc(&format!("{op:?}")),
                self.expr(*lhs),
                self.expr(*rhs)
            ),
            ExprKind::Unary { op, arg } => {
                format!("\"k\":\"Unary\",\"op\":{},\"arg\":{}", esc(&format!("{op:?}")), self.expr(*arg))
            }
            ExprKind::Cast { source } => format!("\"k\":\"Cast\",\"src\":{}", self.expr(*source)),
            ExprKind::Use { source } => format!("\"k\":\"Use\",\"src\":{}", self.expr(*source)),
            ExprKind::NeverToAny { source } => format!("\"k\":\"NeverToAny\",\"src\":{}", self.expr(*source)),
            ExprKind::PointerCoercion { cast, source, .. } => format!(
                "\"k\":\"PtrCoerce\",\"cast\":{},\"src\":{}",
                esc(&format!("{cast:?}")),
                self.expr(*source)
            ),
            ExprKind::Loop { body } => format!("\"k\":\"Loop\",\"body\":{}", self.expr(*body)),
            ExprKind::Let { expr, pat } => {
                format!("\"k\":\"LetExpr\",\"e\":{},\"pat\":{}", self.expr(*expr), self.pat(pat))
            }
            ExprKind::Match { scrutinee, arms, match_source } => {
                let arms: Vec<String> = arms
                    .iter()
                    .map(|a| {
                        let a = &self.thir[*a];
                        format!(
                            "{{\"pat\":{},\"guard\":{},\"body\":{}}}",
                            self.pat(&a.pattern),
                            a.guard.map(|g| self.expr(g)).unwrap_or("null".into()),
                            self.expr(a.body)
                        )
                    })
                    .collect();
                format!(
                    "\"k\":\"Match\",\"src\":{},\"scrut\":{},\"arms\":[{}]",
                    esc(&format!("{match_source:?}")),
                    self.expr(*scrutinee),
                    arms.join(",")
                )
            }
            ExprKind::Block { block } => format!("\"k\":\"Block\",\"b\":{}", self.block(*block)),
            ExprKind::Assign { lhs, rhs } => {
                format!("\"k\":\"Assign\",\"lhs\":{},\"rhs\":{}", self.expr(*lhs), self.expr(*rhs))
            }
            ExprKind::AssignOp { op, lhs, rhs } => format!(
                "\"k\":\"AssignOp\",\"op\":{},\"lhs\":{},\"rhs\":{}",
                esc(&format!("{op:?}")),
                self.expr(*lhs),
                self.expr(*rhs)
            ),
            ExprKind::Field { lhs, variant_index, name } => {
                let lty = self.thir[*lhs].ty;
                let fname = match lty.kind() {
                    ty::Adt(adt, _) => adt.variant(*variant_index).fields[*name].name.to_string(),
                    _ => format!("{}", name.as_u32()),
                };
                format!(
                    "\"k\":\"Field\",\"lhs\":{},\"name\":{},\"idx\":{}",
                    self.expr(*lhs),
                    esc(&fname),
                    name.as_u32()
                )
            }
            ExprKind::Index { lhs, index } => {
                format!("\"k\":\"Index\",\"lhs\":{},\"index\":{}", self.expr(*lhs), self.expr(*index))
            }
            ExprKind::VarRef { id } => format!(
                "\"k\":\"Var\",\"var\":{},\"name\":{}",
                esc(&format!("{:?}", id.0.local_id)),
                esc(self.tcx.hir_name(id.0).as_str())
            ),
            ExprKind::UpvarRef { var_hir_id, .. } => format!(
                "\"k\":\"Upvar\",\"var\":{},\"name\":{}",
                esc(&format!("{:?}", var_hir_id.0.local_id)),
                esc(self.tcx.hir_name(var_hir_id.0).as_str())
            ),
            ExprKind::Borrow { borrow_kind, arg } => format!(
                "\"k\":\"Borrow\",\"mut\":{},\"arg\":{}",
                !matches!(borrow_kind, rustc_middle::mir::BorrowKind::Shared),
                self.expr(*arg)
            ),
            ExprKind::Break { value, label } => format!(
                "\"k\":\"Break\",\"label\":{},\"value\":{}",
                esc(&format!("{label:?}")),
                value.map(|v| self.expr(v)).unwrap_or("null".into())
            ),
            ExprKind::Continue { label } => {
                format!("\"k\":\"Continue\",\"label\":{}", esc(&format!("{label:?}")))
            }
            ExprKind::Return { value } => format!(
                "\"k\":\"Return\",\"value\":{}",
                value.map(|v| self.expr(v)).unwrap_or("null".into())
            ),
            ExprKind::Repeat { value, count } => format!(
                "\"k\":\"Repeat\",\"value\":{},\"count\":{}",
                self.expr(*value),
                count
                    .try_to_target_usize(self.tcx)
                    .map(|v| format!("{v}"))
                    .unwrap_or("null".into())
            ),
            ExprKind::Array { fields } => format!("\"k\":\"Array\",\"fields\":{}", self.exprs(fields)),
            ExprKind::Tuple { fields } => format!("\"k\":\"Tuple\",\"fields\":{}", self.exprs(fields)),
            ExprKind::Adt(adt) => {
                let v = adt.adt_def.variant(adt.variant_index);
                let fields: Vec<String> = adt
                    .fields
                    .iter()
                    .map(|f| {
                        format!(
                            "{{\"name\":{},\"idx\":{},\"e\":{}}}",
                            esc(v.fields[f.name].name.as_str()),
                            f.name.as_u32(),
                            self.expr(f.expr)
                        )
                    })
                    .collect();
                let base = match &adt.base {
                    thir::AdtExprBase::None => "null".to_string(),
                    thir::AdtExprBase::Base(fru) => self.expr(fru.base),
                    _ => "\"default\"".into(),
                };
                format!(
                    "\"k\":\"Adt\",\"adt\":{},\"variant\":{},\"vidx\":{},\"fields\":[{}],\"base\":{}",
                    self.def(adt.adt_def.did()),
                    esc(v.name.as_str()),
                    adt.variant_index.as_u32(),
                    fields.join(","),
                    base
                )
            }
            ExprKind::Closure(c) => format!(
                "\"k\":\"Closure\",\"def\":{},\"upvars\":{}",
                self.def(c.closure_id.to_def_id()),
                self.exprs(&c.upvars)
            ),
            ExprKind::Literal { lit, neg } => {
                use rustc_ast::ast::LitKind;
                match &lit.node {
                    LitKind::Int(v, _) => format!("\"k\":\"Lit\",\"kind\":\"int\",\"v\":\"{}\",\"neg\":{}", v.get(), neg),
                    LitKind::Bool(b) => format!("\"k\":\"Lit\",\"kind\":\"bool\",\"v\":{}", b),
                    LitKind::Str(s, _) => format!("\"k\":\"Lit\",\"kind\":\"str\",\"v\":{}", esc(s.as_str())),
                    LitKind::Byte(b) => format!("\"k\":\"Lit\",\"kind\":\"int\",\"v\":\"{}\",\"neg\":false", b),
                    LitKind::Char(c) => format!("\"k\":\"Lit\",\"kind\":\"int\",\"v\":\"{}\",\"neg\":false", *c as u32),
                    other => format!("\"k\":\"Lit\",\"kind\":\"other\",\"v\":{}", esc(&format!("{other:?}"))),
                }
            }
            ExprKind::NonHirLiteral { lit, .. } => {
                format!("\"k\":\"Lit\",\"kind\":\"int\",\"v\":\"{}\",\"neg\":false", lit.to_bits_unchecked())
            }
            ExprKind::ZstLiteral { .. } => match e.ty.kind() {
                ty::FnDef(did, ga) => format!("\"k\":\"FnRef\",{}", self.callee_info(*did, ga)),
                _ => "\"k\":\"Zst\"".to_string(),
            },
            ExprKind::NamedConst { def_id, args, .. } => {
                let env = ty::TypingEnv::post_analysis(self.tcx, self.owner);
                let val = match self.tcx.const_eval_resolve(
                    env,
                    rustc_middle::mir::UnevaluatedConst { def: *def_id, args, promoted: None },
                    e.span,
                ) {
                    Ok(v) => v
                        .try_to_scalar_int()
                        .map(|s| format!("\"{}\"", s.to_bits_unchecked()))
                        .unwrap_or("null".into()),
                    Err(_) => "null".into(),
                };
                let tr = match self.tcx.opt_associated_item(*def_id) {
                    Some(ai) => match ai.container {
                        ty::AssocContainer::Trait => Some(self.def(self.tcx.parent(*def_id))),
                        _ => None,
                    },
                    None => None,
                };
                format!(
                    "\"k\":\"NamedConst\",\"def\":{},\"name\":{},\"gargs\":{},\"trait\":{},\"value\":{}",
                    self.def(*def_id),
                    esc(self.tcx.item_name(*def_id).as_str()),
                    self.gargs(args),
                    opt(tr),
                    val
                )
            }
            other => format!(
                "\"k\":\"Other\",\"dbg\":{}",
                esc(&format!("{other:?}").chars().take(300).collect::<String>())
            ),
        };
        format!("{{\"t\":{},\"sp\":{},{}}}", self.ty(e.ty), self.span(e.span), body)
    }
}

extern crate rustc_ast;

impl rustc_driver::Callbacks for Cb {
    fn after_analysis<'tcx>(&mut self, _c: &rustc_interface::interface::Compiler, tcx: TyCtxt<'tcx>) -> Compilation {
        let out = match std::env::var("RTCP_FACTS_OUT") {
            Ok(p) => p,
            Err(_) => return Compilation::Continue,
        };
        let krate = tcx.crate_name(rustc_hir::def_id::LOCAL_CRATE).to_string();
        if let Ok(want) = std::env::var("RTCP_FACTS_CRATE") {
            if want != krate {
                return Compilation::Continue;
            }
        }
        let tb = RefCell::new(Tables::default());
        let dummy = Thir::new(thir::BodyTy::Const(tcx.types.unit));
        let mut items: Vec<String> = vec![];
        let mut n_owners = 0usize;
        for ldid in tcx.hir_body_owners() {
            let did = ldid.to_def_id();
            let kind = tcx.def_kind(did);
            if !matches!(
                kind,
                DefKind::Fn | DefKind::AssocFn | DefKind::Closure | DefKind::Const { .. } | DefKind::AssocConst { .. }
            ) {
                continue;
            }
            n_owners += 1;
            let Ok((steal, root)) = tcx.thir_body(ldid) else { continue };
            let thir = steal.borrow();
            let d = D { tcx, thir: &thir, owner: did, tb: &tb };
            let params: Vec<String> = thir
                .params
                .iter()
                .map(|p| {
                    format!(
                        "{{\"t\":{},\"pat\":{},\"self\":{}}}",
                        d.ty(p.ty),
                        p.pat.as_ref().map(|p| d.pat(p)).unwrap_or("null".into()),
                        p.self_kind.is_some()
                    )
                })
                .collect();
            let is_fn = matches!(kind, DefKind::Fn | DefKind::AssocFn);
            let vis = if is_fn { format!("{:?}", tcx.visibility(did)) } else { String::new() };
            let parent = d.def(tcx.parent(did));
            let generics: Vec<String> = if is_fn {
                let g = tcx.generics_of(did);
                (0..g.count())
                    .filter_map(|i| {
                        let p = g.param_at(i, tcx);
                        if matches!(p.kind, ty::GenericParamDefKind::Lifetime) {
                            None
                        } else {
                            Some(esc(p.name.as_str()))
                        }
                    })
                    .collect()
            } else {
                vec![]
            };
            let ret = if is_fn {
                d.ty(tcx.fn_sig(did).instantiate_identity().skip_norm_wip().output().skip_binder())
            } else {
                "null".into()
            };
            let name = esc(tcx.opt_item_name(did).map(|s| s.to_string()).unwrap_or_default().as_str());
            items.push(format!(
                "{{\"def\":{},\"name\":{},\"kind\":{},\"vis\":{},\"parent\":{},\"generics\":[{}],\"ret\":{},\"sp\":{},\"params\":[{}],\"body\":{}}}",
                d.def(did),
                name,
                esc(&format!("{kind:?}").split(' ').next().unwrap_or("").to_string()),
                esc(&vis),
                parent,
                generics.join(","),
                ret,
                d.span(tcx.def_span(did)),
                params.join(","),
                d.expr(root)
            ));
        }
        // MIR panic sites and call edges
        let mut mir_items: Vec<String> = vec![];
        for ldid in tcx.mir_keys(()) {
            let did = ldid.to_def_id();
            let kind = tcx.def_kind(did);
            if !matches!(kind, DefKind::Fn | DefKind::AssocFn | DefKind::Closure) {
                continue;
            }
            let body = tcx.optimized_mir(did);
            let d = D { tcx, thir: &dummy, owner: did, tb: &tb };
            let mut sites: Vec<String> = vec![];
            for bb in body.basic_blocks.iter() {
                let Some(term) = &bb.terminator else { continue };
                use rustc_middle::mir::TerminatorKind as TK;
                match &term.kind {
                    TK::Assert { msg, .. } => {
                        let m = format!("{:?}", msg);
                        let kind = m.split('(').next().unwrap_or("").to_string();
                        sites.push(format!(
                            "{{\"k\":\"Assert\",\"msg\":{},\"sp\":{}}}",
                            esc(&kind),
                            d.span(term.source_info.span)
                        ));
                    }
                    TK::Call { func, .. } => {
                        let fty = func.ty(&body.local_decls, tcx);
                        if let ty::FnDef(cd, ga) = fty.kind() {
                            let env = ty::TypingEnv::post_analysis(tcx, did);
                            let resolved = match ty::Instance::try_resolve(tcx, env, *cd, ga) {
                                Ok(Some(i)) => tcx.def_path_str(i.def_id()),
                                _ => String::new(),
                            };
                            sites.push(format!(
                                "{{\"k\":\"Call\",\"fn\":{},\"resolved\":{},\"local\":{},\"sp\":{}}}",
                                d.def(*cd),
                                esc(&resolved),
                                cd.is_local(),
                                d.span(term.source_info.span)
                            ));
                        } else {
                            sites.push(format!(
                                "{{\"k\":\"CallIndirect\",\"ty\":{},\"sp\":{}}}",
                                esc(&format!("{fty}")),
                                d.span(term.source_info.span)
                            ));
                        }
                    }
                    _ => {}
                }
            }
            mir_items.push(format!("{{\"def\":{},\"sites\":[{}]}}", d.def(did), sites.join(",")));
        }
        // item tables
        let ev = tcx.effective_visibilities(());
        let d = D { tcx, thir: &dummy, owner: rustc_hir::def_id::CRATE_DEF_ID.to_def_id(), tb: &tb };
        let mut adts: Vec<String> = vec![];
        let mut fns: Vec<String> = vec![];
        let mut impls: Vec<String> = vec![];
        let mut traits: Vec<String> = vec![];
        for id in tcx.hir_crate_items(()).definitions() {
            let did = id.to_def_id();
            match tcx.def_kind(did) {
                DefKind::Struct | DefKind::Enum => {
                    let adt = tcx.adt_def(did);
                    let mut vs: Vec<String> = vec![];
                    for v in adt.variants() {
                        let fs: Vec<String> = v
                            .fields
                            .iter()
                            .map(|f| {
                                format!(
                                    "{{\"name\":{},\"t\":{},\"vis\":{}}}",
                                    esc(f.name.as_str()),
                                    d.ty(tcx.type_of(f.did).instantiate_identity().skip_norm_wip()),
                                    esc(&format!("{:?}", f.vis))
                                )
                            })
                            .collect();
                        vs.push(format!("{{\"name\":{},\"fields\":[{}]}}", esc(v.name.as_str()), fs.join(",")));
                    }
                    adts.push(format!(
                        "{{\"def\":{},\"exported\":{},\"is_enum\":{},\"sp\":{},\"variants\":[{}]}}",
                        d.def(did),
                        ev.is_exported(id),
                        adt.is_enum(),
                        d.span(tcx.def_span(did)),
                        vs.join(",")
                    ));
                }
                DefKind::Fn | DefKind::AssocFn => {
                    let docs: Vec<String> = tcx
                        .get_all_attrs(did)
                        .iter()
                        .filter_map(|a| a.doc_str())
                        .map(|s| s.to_string())
                        .collect();
                    let sig = tcx.fn_sig(did).instantiate_identity().skip_norm_wip().skip_binder();
                    let ins: Vec<String> = sig.inputs().iter().map(|t| d.ty(*t)).collect();
                    let has_body = tcx.hir_maybe_body_owned_by(id).is_some();
                    fns.push(format!(
                        "{{\"def\":{},\"name\":{},\"parent\":{},\"exported\":{},\"reachable\":{},\"vis\":{},\"has_body\":{},\"inputs\":[{}],\"output\":{},\"doc\":{}}}",
                        d.def(did),
                        esc(tcx.item_name(did).as_str()),
                        d.def(tcx.parent(did)),
                        ev.is_exported(id),
                        ev.is_reachable(id),
                        esc(&format!("{:?}", tcx.visibility(did))),
                        has_body,
                        ins.join(","),
                        d.ty(sig.output()),
                        esc(&docs.join("\n"))
                    ));
                }
                DefKind::Impl { of_trait } => {
                    let selfty = d.ty(tcx.type_of(did).instantiate_identity().skip_norm_wip());
                    let (tr, trargs) = if of_trait {
                        match tcx.impl_opt_trait_ref(did) {
                            Some(t) => {
                                let t = t.skip_binder();
                                (Some(d.def(t.def_id)), d.gargs(t.args))
                            }
                            None => (None, "[]".into()),
                        }
                    } else {
                        (None, "[]".into())
                    };
                    let its: Vec<String> = tcx
                        .associated_item_def_ids(did)
                        .iter()
                        .map(|i| {
                            format!(
                                "{{\"name\":{},\"def\":{},\"kind\":{}}}",
                                esc(tcx.item_name(*i).as_str()),
                                d.def(*i),
                                esc(&format!("{:?}", tcx.def_kind(*i)).split(' ').next().unwrap_or("").to_string())
                            )
                        })
                        .collect();
                    impls.push(format!(
                        "{{\"def\":{},\"self\":{},\"trait\":{},\"trait_args\":{},\"sp\":{},\"items\":[{}]}}",
                        d.def(did),
                        selfty,
                        opt(tr),
                        trargs,
                        d.span(tcx.def_span(did)),
                        its.join(",")
                    ));
                }
                DefKind::Trait => {
                    let its: Vec<String> = tcx
                        .associated_item_def_ids(did)
                        .iter()
                        .map(|i| {
                            format!(
                                "{{\"name\":{},\"def\":{},\"kind\":{},\"has_default\":{}}}",
                                esc(tcx.item_name(*i).as_str()),
                                d.def(*i),
                                esc(&format!("{:?}", tcx.def_kind(*i)).split(' ').next().unwrap_or("").to_string()),
                                tcx.defaultness(*i).has_value()
                            )
                        })
                        .collect();
                    traits.push(format!(
                        "{{\"def\":{},\"exported\":{},\"items\":[{}]}}",
                        d.def(did),
                        ev.is_exported(id),
                        its.join(",")
                    ));
                }
                _ => {}
            }
        }
        let nonce = std::env::var("RTCP_FACTS_NONCE").unwrap_or_default();
        let tbb = tb.borrow();
        let s = format!(
            "{{\"crate\":{},\"nonce\":{},\"n_body_owners\":{},\"files\":[{}],\"types\":[\n{}\n],\"bodies\":[\n{}\n],\"mir\":[\n{}\n],\"adts\":[\n{}\n],\"fns\":[\n{}\n],\"impls\":[\n{}\n],\"traits\":[\n{}\n]}}\n",
            esc(&krate),
            esc(&nonce),
            n_owners,
            tbb.files.iter().map(|f| esc(f)).collect::<Vec<_>>().join(","),
            tbb.tys.join(",\n"),
            items.join(",\n"),
            mir_items.join(",\n"),
            adts.join(",\n"),
            fns.join(",\n"),
            impls.join(",\n"),
            traits.join(",\n")
        );
        std::fs::write(format!("{out}/{krate}.facts.json"), s).unwrap();
        Compilation::Continue
    }
}

fn main() {
    let mut args: Vec<String> = std::env::args().collect();
    // RUSTC_WORKSPACE_WRAPPER: argv[1] is the real rustc path
    if args.len() > 1 && (args[1].ends_with("rustc") || args[1].contains("/rustc")) {
        args.remove(1);
    }
    args.push("-Zno-steal-thir".into());
    rustc_driver::run_compiler(&args, &mut Cb);
}
