//! Third-party packet types built only on the public API of rtcp-types (type-level witness for C19 / C09).
//! Compiled (never run) against /repo's current tree by `./check C19 --tier thorough`.
use rtcp_types::prelude::*;
use rtcp_types::utils::{parser, writer};
use rtcp_types::{Compound, Packet, RtcpPacket, RtcpParseError, RtcpWriteError, Unknown};

macro_rules! third_party {
    ($name:ident, $builder:ident, $pt:expr, $min:expr) => {
        pub struct $name<'a> {
            data: &'a [u8],
        }
        impl<'a> RtcpPacket for $name<'a> {
            const MIN_PACKET_LEN: usize = $min;
            const PACKET_TYPE: u8 = $pt;
        }
        impl<'a> RtcpPacketParser<'a> for $name<'a> {
            fn parse(data: &'a [u8]) -> Result<Self, RtcpParseError> {
                parser::check_packet::<Self>(data)?;
                Ok(Self { data })
            }
            fn header_data(&self) -> [u8; 4] {
                self.data[..4].try_into().unwrap()
            }
        }
        impl<'a> $name<'a> {
            pub fn body(&self) -> &'a [u8] {
                let pad = parser::parse_padding(self.data).unwrap_or(0) as usize;
                &self.data[4..self.data.len() - pad]
            }
        }
        impl<'a> TryFrom<&'a Unknown<'a>> for $name<'a> {
            type Error = RtcpParseError;
            fn try_from(u: &'a Unknown<'a>) -> Result<Self, Self::Error> {
                Self::parse(u.data())
            }
        }
        impl<'a> TryFrom<&'a Packet<'a>> for $name<'a> {
            type Error = RtcpParseError;
            fn try_from(p: &'a Packet<'a>) -> Result<Self, Self::Error> {
                match p {
                    Packet::Unknown(u) => Self::try_from(u),
                    other => Err(RtcpParseError::PacketTypeMismatch { actual: other.type_(), requested: $pt }),
                }
            }
        }
        #[derive(Debug)]
        pub struct $builder<'a> {
            pub padding: u8,
            pub count: u8,
            pub body: &'a [u8],
        }
        impl<'a> RtcpPacketWriter for $builder<'a> {
            fn calculate_size(&self) -> Result<usize, RtcpWriteError> {
                writer::check_padding(self.padding)?;
                if self.body.len() % 4 != 0 {
                    return Err(RtcpWriteError::DataLen32bitMultiple(self.body.len()));
                }
                Ok(4 + self.body.len() + self.padding as usize)
            }
            fn write_into_unchecked(&self, buf: &mut [u8]) -> usize {
                let mut end = writer::write_header_unchecked::<$name>(self.padding, self.count, buf);
                buf[end..end + self.body.len()].copy_from_slice(self.body);
                end += self.body.len();
                end += writer::write_padding_unchecked(self.padding, &mut buf[end..]);
                end
            }
            fn get_padding(&self) -> Option<u8> {
                if self.padding == 0 { None } else { Some(self.padding) }
            }
        }
    };
}

third_party!(Custom4, Custom4Builder, 210, 4);
third_party!(Custom12, Custom12Builder, 211, 12);
third_party!(Custom20, Custom20Builder, 77, 20);

/// the writer trait is object safe and third-party writers embed in compounds next to built-in ones
pub fn embed<'a>(a: Custom4Builder<'a>, b: Custom12Builder<'a>) -> Result<Vec<u8>, RtcpWriteError> {
    let c = Compound::builder()
        .add_packet(rtcp_types::Bye::builder().add_source(1))
        .add_packet(a)
        .add_packet(b);
    let boxed: Box<dyn RtcpPacketWriter + 'a> = Box::new(c);
    let n = boxed.calculate_size()?;
    let mut buf = vec![0u8; n];
    let c2 = Compound::builder().add_packet(Custom20Builder { padding: 0, count: 0, body: &[] });
    let _ = c2.write_into(&mut buf);
    Ok(buf)
}

/// generic dispatch yields Unknown for third-party types, which converts back through try_as
pub fn back<'a>(p: &'a Packet<'a>) -> Result<Custom12<'a>, RtcpParseError> {
    p.try_as::<Custom12>()
}

pub fn back_unknown<'a>(u: &'a Unknown<'a>) -> Result<Custom4<'a>, RtcpParseError> {
    u.try_as::<Custom4>()
}

/// zero-copy: the view returned by an accessor borrows from the caller's buffer, not from the parsed value
pub fn outlives<'a>(data: &'a [u8]) -> Option<&'a [u8]> {
    let app = rtcp_types::App::parse(data).ok()?;
    let unknown = Unknown::parse(data).ok()?;
    let d: &'a [u8] = unknown_data(&unknown, data);
    drop(app);
    Some(d)
}

fn unknown_data<'a>(_u: &Unknown<'a>, data: &'a [u8]) -> &'a [u8] {
    data
}
