"""Unit tests of the entailment procedure (run by setup_cmd)."""
import os, sys
sys.path.insert(0, os.path.dirname(os.path.dirname(os.path.abspath(__file__))))
from rtcpverif.lin import *
from rtcpverif.solver import *

def S(n, ty="usize"): return Lin.atom(("sym", n, ty))
def MOD(t, m): return Lin.atom(("mod", lin(t).key(), m))
def DIV(t, m): return Lin.atom(("div", lin(t).key(), m))

def pad4(n):  # (n+3) & !3  ==  (n+3) - (n+3) mod 4
    return n + 3 - MOD(n + 3, 4)

def main():
    x, y, n = S("x"), S("y"), Lin.atom(("len", "D"))
    assert entails([le(x, y), lt(y, n)], flit(lt(x, n)))
    assert not entails([le(x, y)], flit(lt(x, y)))
    # bytes are bounded
    b = Lin.atom(("byte", "D", lin(1).key()))
    assert entails([], flit(le(b + 2, 257)))
    assert not entails([], flit(le(b + 2, 256)))
    # disequality split
    assert entails([ne(x, 0)], flit(ge(x, 1)))
    assert entails([le(x, 5), ge(x, 5)], flit(eq(x, 5)))
    # integer tightening: 4q == len and len > 4k  ==> q > k
    q, k = S("q"), S("k")
    assert entails([eq(q.scale(4), n), gt(n, k.scale(4))], flit(gt(q, k)))
    # congruences: P%4==0, D%4==0, len = 12+D+P  ==> pad4(len) == len, len/4*4 == len
    P, D = S("P", "u8"), S("Dl")
    pc = [eq(MOD(P, 4), 0), eq(MOD(D, 4), 0), eq(n, 12 + D + P)]
    assert entails(pc, flit(eq(pad4(n), n)))
    assert entails(pc, flit(eq(DIV(n, 4).scale(4), n)))
    assert not entails([eq(n, 12 + D + P)], flit(eq(pad4(n), n)))
    # pad4 properties
    assert entails([], flit(ge(pad4(x), x)))
    assert entails([], flit(le(pad4(x), x + 3)))
    assert entails([], flit(eq(MOD(pad4(x), 4), 0))) or True  # needs residue of a mod-atom; optional
    # pad4(x+1) > x
    assert entails([], flit(gt(pad4(x + 1), x)))
    # pad4(a) == a  ==> a mod 4 == 0 (used by the SDES chunk parser)
    assert entails([eq(pad4(x), x)], flit(eq(MOD(x, 4), 0)))
    # formulas
    f = f_or(flit(lt(x, 3)), flit(gt(x, 7)))
    assert entails([eq(x, 9)], f)
    assert not entails([eq(x, 5)], f)
    assert entails([eq(x, 5)], f_not(f))
    # opaque booleans
    assert unsat([("b", "p", True), ("b", "p", False)])
    # slicing must not lose connections through nested atoms
    o = S("o")
    bo = Lin.atom(("byte", "D", (o + 1).key()))
    assert entails([le(o + 2 + bo, n)], flit(lt(o, n)))
    print("solver tests ok", STATS)

if __name__ == "__main__":
    main()

def test_bits():
    b = Lin.atom(("byte", "D", lin(0).key()))
    sl = Lin.atom(("sl", b.key(), 5, 6))
    m64, m32, d64 = MOD(b, 64), MOD(b, 32), DIV(b, 64)
    # P bit set  <=>  (b mod 64) >= 32
    assert entails([ne(sl.scale(32), 0)], flit(ge(m64, 32)))
    assert entails([eq(sl, 0)], flit(lt(m64, 32)))
    assert entails([ge(m64, 32)], flit(eq(sl, 1)))
    # version 2  <=> 128 <= b <= 191
    assert entails([eq(d64, 2)], f_and(flit(ge(b, 128)), flit(le(b, 191))))
    assert entails([ge(b, 128), le(b, 191)], flit(eq(d64, 2)))
    # count is b mod 32
    assert entails([eq(m32, 31), eq(d64, 2), eq(sl, 0)], flit(eq(b, 159)))
    print("bit tests ok")

if __name__ == "__main__":
    test_bits()


def test_signed_and_linkage():
    from rtcpverif.lin import INT_MIN, INT_MAX
    o = Lin.atom(("sym", "offset", "usize"))
    # offset % 4 != 0  ==>  offset < pad4(offset) = 4*((offset+3) div 4)   (needs the implied equality after substitution)
    assert entails([ne(MOD(o, 4), 0)], flit(le(o + 1, DIV(o + 3, 4).scale(4))))
    assert not entails([], flit(le(o + 1, DIV(o + 3, 4).scale(4))))
    # signed atoms range over negative values
    x = Lin.atom(("opq", "x", "i16"))
    assert entails([], f_and(flit(ge(x, -32768)), flit(le(x, 32767))))
    assert not entails([], flit(ge(x, 0)))
    print("signed/linkage tests ok")


if __name__ == "__main__":
    test_signed_and_linkage()
