"""Pretty-printer of dumped THIR bodies (debugging aid): python3 -m rtcpverif.show <substring>..."""
import json
import sys

from . import facts as F


def show(e, ind=0):
    if e is None:
        return "null"
    k = e.get("k")
    if k == "Var":
        return e["name"]
    if k == "Upvar":
        return "^" + e["name"]
    if k == "Lit":
        return str(e["v"])
    if k == "NamedConst":
        return f"const {e['def']}={e['value']}"
    if k == "Field":
        return show(e["lhs"]) + "." + e["name"]
    if k == "Deref":
        return "*" + show(e["arg"])
    if k == "Borrow":
        return ("&mut " if e["mut"] else "&") + show(e["arg"])
    if k == "Binary":
        return "(" + show(e["lhs"]) + " " + e["op"] + " " + show(e["rhs"]) + ")"
    if k == "Logical":
        return "(" + show(e["lhs"]) + " " + e["op"] + " " + show(e["rhs"]) + ")"
    if k == "Unary":
        return e["op"] + "(" + show(e["arg"]) + ")"
    if k == "Cast":
        return "(" + show(e["src"]) + " as t" + str(e["t"]) + ")"
    if k in ("Use", "NeverToAny"):
        return k + "(" + show(e["src"], ind) + ")"
    if k == "PtrCoerce":
        return "coerce[" + e["cast"] + "](" + show(e["src"]) + ")"
    if k == "Index":
        return show(e["lhs"]) + "[" + show(e["index"]) + "]"
    if k == "Call":
        return (e.get("resolved") or e.get("fn") or show(e["fun"])) + "(" + ", ".join(show(a, ind) for a in e["args"]) + ")"
    if k == "FnRef":
        return "fn:" + e["fn"]
    if k == "Adt":
        return e["adt"] + "::" + e["variant"] + "{" + ", ".join(f["name"] + ": " + show(f["e"], ind) for f in e["fields"]) + (" .." + show(e["base"]) if isinstance(e["base"], dict) else "") + "}"
    if k == "Tuple":
        return "(" + ", ".join(show(a) for a in e["fields"]) + ")"
    if k == "Array":
        return "[" + ", ".join(show(a) for a in e["fields"]) + "]"
    if k == "Repeat":
        return "[" + show(e["value"]) + "; " + str(e["count"]) + "]"
    if k == "Assign":
        return show(e["lhs"]) + " = " + show(e["rhs"], ind)
    if k == "AssignOp":
        return show(e["lhs"]) + " " + e["op"] + " " + show(e["rhs"], ind)
    if k == "Return":
        return "return " + show(e["value"], ind)
    if k == "Break":
        return "break " + e["label"]
    if k == "Continue":
        return "continue " + e["label"]
    if k == "If":
        return "if " + show(e["cond"]) + " " + show(e["then"], ind) + (" else " + show(e["else"], ind) if e["else"] else "")
    if k == "Loop":
        return "loop<" + str(e.get("label")) + "> " + show(e["body"], ind)
    if k == "LetExpr":
        return "let " + pat(e["pat"]) + " = " + show(e["e"])
    if k == "Match":
        return "match[" + e["src"][:14] + "] " + show(e["scrut"], ind) + " {" + "".join(
            "\n" + " " * (ind + 2) + pat(a["pat"]) + (" if " + show(a["guard"]) if a["guard"] else "") + " => " + show(a["body"], ind + 2) for a in e["arms"]) + "\n" + " " * ind + "}"
    if k == "Closure":
        return "closure " + e["def"] + " upvars " + str([show(u) for u in e["upvars"]])
    if k == "Block":
        b = e["b"]
        out = "{"
        for s in b["stmts"]:
            if s["k"] == "Expr":
                out += "\n" + " " * (ind + 2) + show(s["e"], ind + 2) + ";"
            else:
                out += "\n" + " " * (ind + 2) + "let " + pat(s["pat"]) + " = " + show(s["init"], ind + 2) + ";"
        if b["expr"]:
            out += "\n" + " " * (ind + 2) + show(b["expr"], ind + 2)
        return out + "\n" + " " * ind + "}"
    return str(k) + ":" + json.dumps(e)[:160]


def pat(p):
    k = p["k"]
    if k == "Binding":
        return p["name"] + ("@" + pat(p["sub"]) if p["sub"] else "")
    if k == "Wild":
        return "_"
    if k == "Variant":
        return p["adt"] + "::" + p["variant"] + "(" + ", ".join(pat(s["p"]) for s in p["subs"]) + ")"
    if k == "Leaf":
        return "(" + ", ".join(pat(s["p"]) for s in p["subs"]) + ")"
    if k == "Deref":
        return "&" + pat(p["sub"])
    if k == "Constant":
        return "const " + p["v"] + "/" + str(p["const_def"])
    if k == "Or":
        return " | ".join(pat(x) for x in p["pats"])
    return k


if __name__ == "__main__":
    f = F.load()
    for name in sys.argv[1:]:
        for n, b in f.bodies.items():
            if name in n:
                print("==", n, b["vis"], [f.ty_str(p["t"]) for p in b["params"]])
                print(show(b["body"]))
