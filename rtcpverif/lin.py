"""Linear integer expressions over opaque atoms, and quantifier-free formulas over them.

Atoms are tuples (hashable, structurally compared):
  ('sym', name, ty)            free symbol of an unsigned integer type
  ('len', base)                length of a named byte buffer
  ('cnt', coll)                number of elements of an abstract sequence
  ('byte', base, offkey)       byte of an (unwritten) buffer at offset `offkey` (a Lin key)
  ('mod', tkey, m)             t mod m   (mathematical, 0 <= . < m)
  ('div', tkey, m)             floor(t / m)
  ('sl', tkey, lo, hi)         bits [lo,hi) of t
  ('k', name)                  loop index (>= 0)
  ('elem', seq, kkey, path, ty)  integer field `path` of element k of sequence `seq`
  ('ps', seq, fid, kkey)       prefix sum of F_fid over elements [0,k) of seq
  ('opq', id, ty)              an unknown value of type ty
Literals:  ('le', Lin)  Lin <= 0 ;  ('eq', Lin) ; ('ne', Lin) ; ('b', key, polarity) opaque boolean
Formulas:  ('lit', l) | ('and', [f..]) | ('or', [f..]) | ('true',) | ('false',)
"""

INT_MAX = {
    "u8": 2**8 - 1, "u16": 2**16 - 1, "u32": 2**32 - 1, "u64": 2**64 - 1, "u128": 2**128 - 1,
    "usize": 2**64 - 1, "bool": 1,
}
INT_BITS = {"u8": 8, "u16": 16, "u32": 32, "u64": 64, "u128": 128, "usize": 64, "bool": 1}
INT_MIN = {k: 0 for k in INT_MAX}
for _w, _n in (("i8", 8), ("i16", 16), ("i32", 32), ("i64", 64), ("i128", 128), ("isize", 64)):
    INT_MAX[_w] = 2 ** (_n - 1) - 1
    INT_MIN[_w] = -(2 ** (_n - 1))
    INT_BITS[_w] = _n
SIGNED = frozenset(k for k, v in INT_MIN.items() if v < 0)


def atom_signed(a):
    """may this atom be negative?"""
    k = a[0]
    if k in ("sym", "opq"):
        return a[2] in SIGNED
    if k == "elem":
        return a[4] in SIGNED
    if k == "div":
        return key_signed(a[1])
    return False


def key_signed(tkey):
    """may the term (a Lin key) be negative, syntactically?"""
    L = Lin.from_key(tkey)
    return L.c < 0 or any(c < 0 or atom_signed(a) for a, c in L.t.items())
LEN_MAX = 2**63 - 1
# collection name -> upper bound on its element count (isize::MAX bytes / lower bound of the element size)
CNT_BOUNDS = {}
# symbolic field atom -> upper bound established by the type's construction discipline (builder invariants)
SYM_BOUNDS = {}


class Lin:
    __slots__ = ("t", "c", "_k", "_h")

    def __init__(self, t=None, c=0):
        if t:
            self.t = {k: v for k, v in t.items() if v != 0}
        else:
            self.t = {}
        self.c = c
        self._k = None
        self._h = None

    @staticmethod
    def const(n):
        return Lin(None, n)

    @staticmethod
    def atom(a, coeff=1):
        return Lin({a: coeff}, 0)

    @staticmethod
    def from_key(key):
        return Lin(dict(key[0]), key[1])

    def is_const(self):
        return not self.t

    def single_atom(self):
        """(atom, coeff) if the expression is coeff*atom + 0"""
        if self.c == 0 and len(self.t) == 1:
            (a, c), = self.t.items()
            return a, c
        return None

    def __add__(self, o):
        o = lin(o)
        if not o.t:
            if o.c == 0:
                return self
            r = Lin(None, self.c + o.c)
            r.t = self.t
            return r
        t = dict(self.t)
        for k, v in o.t.items():
            nv = t.get(k, 0) + v
            if nv:
                t[k] = nv
            else:
                t.pop(k, None)
        r = Lin(None, self.c + o.c)
        r.t = t
        return r

    __radd__ = __add__

    def __neg__(self):
        r = Lin(None, -self.c)
        r.t = {k: -v for k, v in self.t.items()}
        return r

    def __sub__(self, o):
        return self + (-lin(o))

    def __rsub__(self, o):
        return lin(o) - self

    def scale(self, n):
        if n == 0:
            return Lin()
        r = Lin(None, self.c * n)
        r.t = {k: v * n for k, v in self.t.items()}
        return r

    def key(self):
        if self._k is None:
            self._k = (tuple(sorted(self.t.items(), key=_akey)), self.c)
        return self._k

    def __eq__(self, o):
        return isinstance(o, Lin) and self.c == o.c and self.t == o.t

    def __hash__(self):
        if self._h is None:
            self._h = hash(self.key())
        return self._h

    def atoms(self):
        return self.t.keys()

    def subst(self, mapping):
        """mapping: atom -> Lin (top-level atoms only)"""
        out = Lin(None, self.c)
        hit = False
        for a, c in self.t.items():
            if a in mapping:
                hit = True
                out = out + lin(mapping[a]).scale(c)
            else:
                out = out + Lin({a: c})
        return out if hit else self

    def __repr__(self):
        parts = []
        for k, v in sorted(self.t.items(), key=_akey):
            parts.append(("" if v == 1 else ("-" if v == -1 else f"{v}*")) + show_atom(k))
        if self.c or not parts:
            parts.append(str(self.c))
        return " + ".join(parts).replace("+ -", "- ")


def _akey(kv):
    return repr(kv[0])


def lin(x):
    if isinstance(x, Lin):
        return x
    return Lin(None, x)


def show_atom(a):
    k = a[0]
    if k == "len":
        return f"len({a[1]})"
    if k == "cnt":
        return f"cnt({show_seq(a[1])})"
    if k == "byte":
        return f"{a[1]}[{Lin.from_key(a[2])}]"
    if k == "sym":
        return a[1]
    if k == "mod":
        return f"(({Lin.from_key(a[1])}) mod {a[2]})"
    if k == "div":
        return f"(({Lin.from_key(a[1])}) div {a[2]})"
    if k == "sl":
        return f"bits[{a[2]}..{a[3]})({Lin.from_key(a[1])})"
    if k == "k":
        return a[1]
    if k == "elem":
        return f"{show_seq(a[1])}[{Lin.from_key(a[2])}]" + "".join("." + str(p) for p in a[3])
    if k == "ps":
        return f"PS({show_seq(a[1])},{a[2]},{Lin.from_key(a[3])})"
    if k == "opq":
        return f"?{a[1]}"
    return repr(a)


def show_seq(s):
    if isinstance(s, tuple):
        if s and isinstance(s[0], str):
            return s[0] + "(" + ",".join(show_seq(x) if isinstance(x, tuple) else str(x) for x in s[1:]) + ")"
        if len(s) == 2 and isinstance(s[1], int) and isinstance(s[0], tuple):
            try:
                return str(Lin.from_key(s))
            except Exception:
                pass
        return "(" + ",".join(show_seq(x) if isinstance(x, tuple) else str(x) for x in s) + ")"
    return str(s)


# ---------------------------------------------------------------- atoms nested inside atoms
def sub_lins(a):
    """Lin keys nested in an atom"""
    k = a[0]
    if k == "byte":
        if isinstance(a[1], tuple):
            return (a[2],) + tuple(_seq_lins(a[1]))
        return (a[2],)
    if k == "len" and isinstance(a[1], tuple):
        return tuple(_seq_lins(a[1]))
    if k in ("mod", "div", "sl"):
        return (a[1],)
    if k == "elem":
        out = [a[2]]
        out.extend(_seq_lins(a[1]))
        return tuple(out)
    if k == "ps":
        out = [a[3]]
        out.extend(_seq_lins(a[1]))
        return tuple(out)
    if k == "cnt":
        return tuple(_seq_lins(a[1]))
    if k == "opq" and isinstance(a[1], tuple):
        return tuple(_seq_lins(a[1]))
    return ()


def _is_lin_key(x):
    return (isinstance(x, tuple) and len(x) == 2 and isinstance(x[1], int) and not isinstance(x[1], bool)
            and isinstance(x[0], tuple)
            and all(isinstance(t, tuple) and len(t) == 2 and isinstance(t[0], tuple) and isinstance(t[1], int) for t in x[0]))


def _seq_lins(s):
    """Lin keys nested anywhere inside a (nested) tuple name"""
    out = []
    if isinstance(s, tuple):
        for x in s:
            if _is_lin_key(x):
                out.append(x)
            elif isinstance(x, tuple):
                out.extend(_seq_lins(x))
    return out


def atoms_deep(l, acc=None):
    """all atoms of a Lin including those nested in atom arguments"""
    if acc is None:
        acc = set()
    for a in l.t:
        if a not in acc:
            acc.add(a)
            for sk in sub_lins(a):
                atoms_deep(Lin.from_key(sk), acc)
    return acc


def subst_deep(l, mapping):
    """substitute atoms (also inside nested atom arguments)"""
    out = Lin(None, l.c)
    for a, c in l.t.items():
        if a in mapping:
            out = out + lin(mapping[a]).scale(c)
        else:
            a2 = subst_atom(a, mapping)
            out = out + Lin({a2: c})
    return out


def _subst_key(key, mapping):
    return subst_deep(Lin.from_key(key), mapping).key()


def _subst_seq(s, mapping):
    if isinstance(s, tuple):
        out = []
        for x in s:
            if _is_lin_key(x):
                out.append(_subst_key(x, mapping))
            elif isinstance(x, tuple):
                out.append(_subst_seq(x, mapping))
            else:
                out.append(x)
        return tuple(out)
    return s


def subst_atom(a, mapping):
    k = a[0]
    if k == "byte":
        return ("byte", _subst_seq(a[1], mapping) if isinstance(a[1], tuple) else a[1], _subst_key(a[2], mapping))
    if k == "len" and isinstance(a[1], tuple):
        return ("len", _subst_seq(a[1], mapping))
    if k == "mod":
        # canonical representative: (t + j*m) mod m == t mod m
        t = subst_deep(Lin.from_key(a[1]), mapping)
        m = a[2]
        r = Lin({x: c % m for x, c in t.t.items() if c % m}, t.c % m)
        return ("mod", r.key(), m)
    if k == "div":
        return (k, _subst_key(a[1], mapping), a[2])
    if k == "sl":
        return (k, _subst_key(a[1], mapping), a[2], a[3])
    if k == "elem":
        return ("elem", _subst_seq(a[1], mapping), _subst_key(a[2], mapping), a[3], a[4])
    if k == "ps":
        return ("ps", _subst_seq(a[1], mapping), a[2], _subst_key(a[3], mapping))
    if k == "cnt":
        return ("cnt", _subst_seq(a[1], mapping))
    if k == "opq" and isinstance(a[1], tuple):
        return ("opq", _subst_seq(a[1], mapping), a[2])
    return a


# ---------------------------------------------------------------- literals and formulas
TRUE = ("true",)
FALSE = ("false",)


def le(a, b):
    """a <= b"""
    return ("le", lin(a) - lin(b))


def lt(a, b):
    return ("le", lin(a) - lin(b) + 1)


def ge(a, b):
    return le(b, a)


def gt(a, b):
    return lt(b, a)


def eq(a, b):
    return ("eq", lin(a) - lin(b))


def ne(a, b):
    return ("ne", lin(a) - lin(b))


def flit(l):
    """literal -> formula, folding constants"""
    k = l[0]
    if k in ("le", "eq", "ne") and l[1].is_const():
        c = l[1].c
        v = (c <= 0) if k == "le" else (c == 0) if k == "eq" else (c != 0)
        return TRUE if v else FALSE
    return ("lit", l)


def neg_lit(l):
    k = l[0]
    if k == "le":
        return ("le", -l[1] + 1)
    if k == "eq":
        return ("ne", l[1])
    if k == "ne":
        return ("eq", l[1])
    if k == "b":
        return ("b", l[1], not l[2])
    raise ValueError(l)


def f_and(*fs):
    out = []
    for f in fs:
        if f == FALSE:
            return FALSE
        if f == TRUE:
            continue
        if f[0] == "and":
            out.extend(f[1])
        else:
            out.append(f)
    if not out:
        return TRUE
    if len(out) == 1:
        return out[0]
    return ("and", out)


def f_or(*fs):
    out = []
    for f in fs:
        if f == TRUE:
            return TRUE
        if f == FALSE:
            continue
        if f[0] == "or":
            out.extend(f[1])
        else:
            out.append(f)
    if not out:
        return FALSE
    if len(out) == 1:
        return out[0]
    return ("or", out)


def f_not(f):
    k = f[0]
    if k == "true":
        return FALSE
    if k == "false":
        return TRUE
    if k == "lit":
        return flit(neg_lit(f[1]))
    if k == "and":
        return f_or(*[f_not(x) for x in f[1]])
    if k == "or":
        return f_and(*[f_not(x) for x in f[1]])
    raise ValueError(f)


def dnf(f):
    """list of conjunctions (lists of literals)"""
    k = f[0]
    if k == "true":
        return [[]]
    if k == "false":
        return []
    if k == "lit":
        return [[f[1]]]
    if k == "or":
        out = []
        for x in f[1]:
            out.extend(dnf(x))
        return out
    if k == "and":
        acc = [[]]
        for x in f[1]:
            d = dnf(x)
            acc = [a + b for a in acc for b in d]
            if len(acc) > 4096:
                raise OverflowError("dnf explosion")
        return acc
    raise ValueError(f)


def lit_atoms(l, deep=True):
    if l[0] in ("le", "eq", "ne"):
        return atoms_deep(l[1]) if deep else set(l[1].t)
    if l[0] == "b":
        return {("bool", l[1])}
    if l[0] == "forall":
        return set()
    return set()


def show_lit(l):
    k = l[0]
    if k == "le":
        return _show_cmp(l[1], "<=")
    if k == "eq":
        return _show_cmp(l[1], "==")
    if k == "ne":
        return _show_cmp(l[1], "!=")
    if k == "b":
        return ("" if l[2] else "!") + str(l[1])
    if k == "forall":
        return f"forall {l[2]} in {show_seq(l[1])}: " + " | ".join(" & ".join(show_lit(x) for x in c) for c in l[3])
    return repr(l)


def _show_cmp(L, op):
    pos = Lin({a: c for a, c in L.t.items() if c > 0}, L.c if L.c > 0 else 0)
    negp = Lin({a: -c for a, c in L.t.items() if c < 0}, -L.c if L.c < 0 else 0)
    return f"{pos} {op} {negp}"


def show_pc(pc):
    return " ∧ ".join(show_lit(l) for l in pc)


def show_formula(f):
    k = f[0]
    if k == "lit":
        return show_lit(f[1])
    if k in ("true", "false"):
        return k
    j = " ∧ " if k == "and" else " ∨ "
    return "(" + j.join(show_formula(x) for x in f[1]) + ")"
