"""Symbolic regions of an abstract write log and the frontier (tiling) argument over them."""
from . import solver
from .lin import Lin, eq, f_and, flit, ge, le, lin, lt, show_pc, subst_deep


class Region:
    def __init__(self, lo, hi, what, empty_ok=False):
        self.lo, self.hi, self.what, self.empty_ok = lo, hi, what, empty_ok

    def __repr__(self):
        return f"[{self.lo}..{self.hi}) {self.what}"


def group_writes(writes):
    """consecutive writes quantified by the same loop index form one group"""
    out = []
    for w in writes:
        if w.kind != "loop" and w.q is not None and out and isinstance(out[-1], list) and out[-1][0].q == w.q:
            out[-1].append(w)
        elif w.kind != "loop" and w.q is not None:
            out.append([w])
        else:
            out.append(w)
    return out


def regions_of(pc, writes, problems):
    regs = []
    for g in group_writes(writes):
        if isinstance(g, list):
            katom, N = g[0].q
            pck = pc + [le(0, Lin.atom(katom)), lt(Lin.atom(katom), N)]
            inner = [Region(w.start, w.end, f"{w.kind} {w.span}") for w in g]
            r = element_region(pck, inner, katom, N, problems, f"loop over {katom[1]}")
            if r:
                regs.append(r)
        elif g.kind == "loop":
            katom, N = g.q
            los = []
            ok = True
            for cond, ws, pcfull in g.payload:
                # pcfull: the back-edge state's path condition (includes 0 <= k < N, element facts, prefix-sum steps)
                inner = regions_of(pcfull, ws, problems)
                r = element_region(pcfull, inner, katom, N, problems, f"loop over {katom[1]} (path {show_pc(cond)[:80]})")
                if r is None:
                    ok = False
                    continue
                los.append(r)
            if ok and los:
                first = los[0]
                same = all(solver.entails(pc, flit(eq(r.lo, first.lo))) and solver.entails(pc, flit(eq(r.hi, first.hi))) for r in los[1:])
                if not same:
                    problems.append(f"paths of the loop over {katom[1]} do not cover the same element ranges")
                else:
                    regs.append(first)
        else:
            regs.append(Region(g.start, g.end, f"{g.kind} {g.span}"))
    return regs


def element_region(pck, inner, katom, N, problems, what):
    """per-element regions tile [lo(k), hi(k)) with hi(k) == lo(k+1): the loop covers [lo(0), lo(N))"""
    if not inner:
        return None
    # lowest start
    lo = None
    for r in inner:
        if all(solver.entails(pck, flit(le(r.lo, o.lo))) for o in inner):
            lo = r.lo
            break
    if lo is None:
        problems.append(f"{what}: no region is provably the first of the element")
        return None
    hi, why = frontier(pck, inner, lo)
    if hi is None:
        problems.append(f"{what}: element regions do not tile: {why}")
        return None
    K = Lin.atom(katom)
    lo_next = subst_deep(lo, {katom: K + 1})
    if not solver.entails(pck, flit(eq(hi, lo_next))):
        problems.append(f"{what}: element k ends at {hi} but element k+1 starts at {lo_next}")
        return None
    return Region(subst_deep(lo, {katom: lin(0)}), subst_deep(lo, {katom: N}), what, empty_ok=True)


def frontier(pc, regs, start):
    """advance a frontier from `start` over regions whose start is at or below it; returns (frontier, why-stuck)"""
    f = start
    rest = list(regs)
    progress = True
    while rest and progress:
        progress = False
        for r in list(rest):
            if solver.entails(pc, flit(le(r.lo, f))):
                if solver.entails(pc, flit(ge(r.hi, f))):
                    f = r.hi
                elif solver.entails(pc, flit(le(r.hi, f))):
                    pass
                else:
                    return None, f"cannot order the end of {r} against the frontier {f}"
                rest.remove(r)
                progress = True
    if rest:
        # regions that start beyond the frontier: a gap (or an unordered start)
        return None, f"frontier stops at {f}; not reached: {rest[:3]}"
    return f, ""


