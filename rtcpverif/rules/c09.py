"""C09 — decoded fields are exactly the bytes on the wire (zero-copy views).

Accessor summaries (computed under each accepting path of the parser) are compared with the RFC
layout table in spec.py: scalars are the big-endian word at the table's offset/width, slices are
views *of the caller's buffer* with the table's bounds; well-formed packets (well-formedness written
from the RFC, not from the parser) are never rejected."""
from .. import solver
from ..analysis import Disc, PARSER_TRAIT
from ..interp import Interp, Unmodelled
from ..lin import Lin, dnf, eq, f_and, f_not, f_or, flit, ge, gt, le, lin, lt, ne, show_formula
from ..spec import PACKET_TYPES, REPORT_BLOCK_SIZE, SCALARS, UNKNOWN_MIN, VERSION
from ..values import *
from ..wire import Header, be, view_be, view_byte
from .c01 import input_slice
from .c08 import short, data_view
from .c12 import same_view


def method(D, adt, name):
    for it in D.inherent(adt):
        if it["name"] == name:
            return it["def"]
    return None


def padding_expr(H):
    """(cases) [(condition formula, padding Lin)] from the RFC: P bit clear -> 0, set -> final byte"""
    return [(f_not(H.pbit_set()), lin(0))] + [(H.pbit_set(), b) for b in H.last_byte_forms()[:1]]


def wellformed(H, name):
    """RFC well-formedness of a packet of this type: list of formulas (conjunction)"""
    row = PACKET_TYPES[name]
    fs = [flit(ge(H.len, row["min"])), H.version_is(VERSION), flit(eq(H.ptype(), row["pt"])),
          flit(eq(H.length_field_bytes(), H.len))]
    return fs


def wf_cases(H, name):
    """well-formedness split on the padding bit: [(list of formulas, padding Lin)]"""
    row = PACKET_TYPES[name]
    base = wellformed(H, name)
    out = []
    for pset in (False, True):
        if pset:
            p = H.last_byte_forms()[0]
            extra = [H.pbit_set(), flit(ge(p, 1)), flit(eq(Lin.atom(("mod", p.key(), 4)), 0))]
        else:
            p = lin(0)
            extra = [f_not(H.pbit_set())]
        C = H.len - p
        body = [flit(ge(C, row["count_base"] + H.count().scale(row["per_count"]))), flit(ge(C, row["min"]))]
        if name == "Bye":
            off = H.count().scale(4) + 4
            R = view_byte(H.v, off)
            body.append(f_or(flit(eq(C, off)), flit(le(off + 1 + R, C))))
        out.append((base + extra + body, p))
    return out


def zero_padding_instances(pc, inp, C, LEN):
    """for every byte of the buffer mentioned in pc: it lies below C, or is the final count byte, or is zero"""
    from ..lin import atoms_deep
    seen = set()
    for l in pc:
        if l[0] in ("le", "eq", "ne"):
            for a in atoms_deep(l[1]):
                if a[0] == "byte" and a[1] == inp.base:
                    seen.add(a)
    out = []
    for a in seen:
        o = Lin.from_key(a[2])
        out.append(f_or(flit(lt(o, inp.start + C)), flit(ge(o, inp.start + LEN - 1)), flit(eq(Lin.atom(a), 0))))
    return out


def run_method(I, d, s, v, gen=None):
    return I.inline(d, gen, s.clone(), [v])


def check_scalar(res, I, D, s, v, name, view, entry, n):
    rows = SCALARS.get(name, {})
    for acc, (off, width, mask) in rows.items():
        d = method(D, v.adt, acc)
        if d is None:
            res.ob(False, "anchor", f"{name}::{acc}", "public accessor named in the RFC layout table exists")
            continue
        want = view_be(view, off, width)
        for s2, k, r in run_method(I, d, s, v):
            ok = k == "val" and isinstance(r, IntV) and solver.entails(s2.pc, flit(eq(r.l, want)))
            res.ob(ok, "read-row", d, f"{name}::{acc}() == BE{8 * width} at byte {off}: {want}", detail=f"returned {r!r}"[:200], pc=s2.pc, entry=entry)
            n[0] += 1


def elements(I, s, it):
    """(state, k, element) for a generic element of an iterator value"""
    if isinstance(it, StructV):
        return None
    N = I.loops.count_of(s, it.seq)
    if N is not None:
        N = N - it.pos          # the elements still to come (an iterator built with skip(..) starts further in)
    K = Lin.atom(("k", I.fresh("k")))
    s1 = s.clone()
    s1.pc.append(le(0, K))
    s1.pc.append(lt(K, N))
    return N, K, [(s2, x) for s2, x in I.loops.elem_of(s1, it.seq, it.pos + K, None)]


def unknown_must_accept(F, res, dd):
    """every rejecting path of the unknown-packet parser is infeasible on a well-framed packet (>= 4 bytes, version 2, length
    field = length), whatever its type, count and padding bit — shared with C19 (raw third-party packets must be accepted)"""
    I = Interp(F)
    inp = input_slice()
    H = Header(inp)
    n_wf = 0
    for s, k, v in I.run(dd, [inp]):
        if k == "val" and isinstance(v, StructV) and v.variant == "Err":
            n_wf += 1
            wf = [flit(ge(H.len, UNKNOWN_MIN)), H.version_is(VERSION), flit(eq(H.length_field_bytes(), H.len))]
            feas = any(solver.feasible(s.pc, conj) for conj in dnf(f_and(*wf)))
            res.ob(not feas, "must-accept", dd, "a well-framed packet of unknown type is never rejected", pc=s.pc)
    for sp, fn, what in I.unmodelled:
        res.unmodelled(fn, what, sp)
    return n_wf


def run(ctx, res):
    F = ctx.F
    D = Disc(F)
    n = [0]
    n_wf = 0
    typed = 0
    for adt in D.impls_of(PARSER_TRAIT):
        name = short(adt)
        if name not in PACKET_TYPES or name == "Sdes":
            continue
        typed += 1
        row = PACKET_TYPES[name]
        d = D.impl_item(PARSER_TRAIT, adt, "parse")
        I = Interp(F)
        inp = input_slice()
        H = Header(inp)
        outs = I.run(d, [inp])
        # ---- must accept
        for fs, p in wf_cases(H, name):
            for s, k, v in outs:
                if k == "val" and isinstance(v, StructV) and v.variant == "Err":
                    n_wf += 1
                    feas = False
                    # padding octets are zero (RFC 3550 §6.4.1 / C07): instantiated for the bytes this path looks at
                    zs = zero_padding_instances(s.pc, inp, H.len - p, H.len)
                    for conj in dnf(f_and(*(fs + zs))):
                        if solver.feasible(s.pc, conj):
                            feas = True
                    res.ob(not feas, "must-accept", d, f"a well-formed {name} packet is never rejected with {v.fields['0']!r}"[:300], pc=s.pc)
        # ---- accessors on every accepting path
        for s, k, v in outs:
            if not (k == "val" and isinstance(v, StructV) and v.variant == "Ok"):
                continue
            pv = v.fields["0"]
            view = data_view(pv)
            res.ob(same_view(s.pc, view, inp), "provenance", d, f"{name} keeps a view of the caller's buffer (no copy)", pc=s.pc)
            check_scalar(res, I, D, s, pv, name, view, d, n)
            # padding value used by the range rows
            pcases = [(c, p) for c, p in padding_expr(H) if solver.feasible(s.pc, dnf(c)[0] if dnf(c) else [])]
            if name in ("SenderReport", "ReceiverReport"):
                m = method(D, adt, "report_blocks")
                res.ob(m is not None, "anchor", f"{name}::report_blocks", "public accessor named in the RFC layout table exists")
                for s2, k2, it in run_method(I, m, s, pv) if m else []:
                    el = elements(I, s2, it) if isinstance(it, IterV) else None
                    if el is None:
                        res.ob(False, "read-row", m, "report_blocks() is an iterator over 24-byte blocks", detail=repr(it)[:200])
                        continue
                    N, K, els = el
                    res.ob(solver.entails(s2.pc, flit(eq(N, H.count()))), "read-row", m, f"{name}: number of report blocks == count field", pc=s2.pc, entry=d)
                    for s3, rb in els:
                        bview = data_view(rb)
                        want = SliceV(inp.base, row["count_base"] + K.scale(REPORT_BLOCK_SIZE), row["count_base"] + K.scale(REPORT_BLOCK_SIZE) + REPORT_BLOCK_SIZE)
                        res.ob(bview is not None and same_view(s3.pc, bview, want), "read-row", m,
                               f"{name}: block k is the view [{row['count_base']}+24k, +24) of the buffer", detail=repr(bview), pc=s3.pc, entry=d)
                        if bview is not None:
                            check_scalar(res, I, D, s3, rb, "ReportBlock", bview, d, n)
                        n[0] += 1
            if name == "Bye":
                m = method(D, adt, "ssrcs")
                res.ob(m is not None, "anchor", "Bye::ssrcs", "public accessor named in the RFC layout table exists")
                for s2, k2, it in run_method(I, m, s, pv) if m else []:
                    el = elements(I, s2, it) if isinstance(it, IterV) else None
                    if el is None:
                        res.ob(False, "read-row", m, "ssrcs() is an iterator", detail=repr(it)[:200])
                        continue
                    N, K, els = el
                    res.ob(solver.entails(s2.pc, flit(eq(N, H.count()))), "read-row", m, "Bye: number of sources == count field", pc=s2.pc, entry=d)
                    for s3, x in els:
                        want = be(inp.base, K.scale(4) + 4, 4)
                        res.ob(isinstance(x, IntV) and solver.entails(s3.pc, flit(eq(x.l, want))), "read-row", m, "Bye: source k == BE32 at 4+4k", detail=repr(x)[:200], pc=s3.pc, entry=d)
                        n[0] += 1
                m = method(D, adt, "reason")
                res.ob(m is not None, "anchor", "Bye::reason", "public accessor named in the RFC layout table exists")
                off = H.count().scale(4) + 4
                R = view_byte(inp, off)
                for s2, k2, r in run_method(I, m, s, pv) if m else []:
                    for cnd, p in pcases:
                        for conj in dnf(cnd):
                            if not solver.feasible(s2.pc, conj):
                                continue
                            pc = s2.pc + conj
                            C = H.len - p
                            n[0] += 1
                            if isinstance(r, StructV) and r.variant == "None":
                                # (one remaining byte can only be an empty reason; the RFC leaves non-word padding undefined)
                                res.ob(solver.entails(pc, flit(le(C, off + 1))), "read-row", m, "Bye::reason() is None only when no reason text can follow the sources (padding excluded)", pc=pc, entry=d)
                            elif isinstance(r, StructV) and r.variant == "Some":
                                want = SliceV(inp.base, off + 1, off + 1 + R)
                                res.ob(solver.entails(pc, flit(gt(C, off))) and same_view(pc, r.fields["0"], want), "read-row", m,
                                       "Bye::reason() is the view [5+4N, 5+4N+R) of the buffer, R = byte at 4+4N", detail=repr(r)[:200], pc=pc, entry=d)
                            else:
                                res.ob(False, "read-row", m, "Bye::reason() returns an Option of a byte view", detail=repr(r)[:200])
            if name == "App":
                m = method(D, adt, "name")
                res.ob(m is not None, "anchor", "App::name", "public accessor named in the RFC layout table exists")
                for s2, k2, r in run_method(I, m, s, pv) if m else []:
                    n[0] += 1
                    res.ob(same_view(s2.pc, r, SliceV(inp.base, 8, 12)), "read-row", m, "App::name() is bytes [8,12)", detail=repr(r)[:200], pc=s2.pc, entry=d)
                m = method(D, adt, "data")
                res.ob(m is not None, "anchor", "App::data", "public accessor named in the RFC layout table exists")
                for s2, k2, r in run_method(I, m, s, pv) if m else []:
                    for cnd, p in pcases:
                        for conj in dnf(cnd):
                            if not solver.feasible(s2.pc, conj):
                                continue
                            n[0] += 1
                            pc = s2.pc + conj
                            res.ob(same_view(pc, r, SliceV(inp.base, 12, H.len - p)), "read-row", m, "App::data() is the view [12, len - padding) of the buffer", detail=repr(r)[:200], pc=pc, entry=d)
        # the parser's and the accessors' own arithmetic (they were run in the state that constructed the value)
        from ..core import arithmetic
        arithmetic(res, I, d, all_kinds=True)
        for sp, fn, what in I.unmodelled:
            res.unmodelled(fn, what, sp)
    # ---- report block on its own, unknown packet
    for dd, adt, kind in D.parse_entries():
        name = short(adt)
        if name == "ReportBlock":
            I = Interp(F)
            inp = input_slice()
            for s, k, v in I.run(dd, [inp]):
                if k == "val" and isinstance(v, StructV) and v.variant == "Ok":
                    rb = v.fields["0"]
                    res.ob(same_view(s.pc, data_view(rb), inp), "provenance", dd, "ReportBlock keeps a view of the caller's buffer", pc=s.pc)
                    check_scalar(res, I, D, s, rb, "ReportBlock", data_view(rb), dd, n)
                elif k == "val" and isinstance(v, StructV) and v.variant == "Err":
                    n_wf += 1
                    res.ob(not solver.feasible(s.pc, [eq(inp.length(), REPORT_BLOCK_SIZE)]), "must-accept", dd, "a 24-byte report block is never rejected", pc=s.pc)
        if name == "Unknown":
            n_wf += unknown_must_accept(F, res, dd)
    res.floor("fixed-layout packet parsers compared with the RFC table", typed, 6)
    res.floor("accessor results compared", n[0], 70)
    res.floor("reject paths refuted for well-formed input", n_wf, 40)
    res.programs = typed + 2
    res.analysed = {"accessor_results": n[0], "reject_paths_refuted": n_wf}
