"""C15 — FCI decoding follows RFC 4585/5104 for arbitrary control information.

Gating: parse_fci::<F>() reaches F::parse only when the packet's kind and FMT are those the RFC
assigns to F, and hands it exactly the FCI bytes [12, len - padding).  Decoders: each FCI iterator's
next() is reduced to its transition table over the iterator state (inductive invariant by Houdini)
and compared with the RFC: FIR (SSRC BE32, seq) per 8 bytes; SLI 13/13/6 per 32-bit word; RPSI 7-bit
payload type and bit string minus PB; PLI empty; NACK: PID first, then PID + j (mod 2^16) only for a
bit j-1 of BLP that is tested and set, j in 1..=16, moving to the next word after bit 16.
Not decided: that the NACK scan never skips a set bit (a quantified loop invariant over the bit index)
— the step relation above is decided, the induction over bit positions is on paper (DESIGN.md)."""
from .. import bits as BL
from .. import solver
from ..analysis import Disc, Explorer, IterProtocol, FCI_PARSER, PARSER_TRAIT, PARSED, ERROR_OF, opaque_parse_hook
from ..interp import Interp, State, Unmodelled
from ..lin import INT_BITS, Lin, atoms_deep, eq, f_and, f_not, f_or, flit, ge, gt, le, lin, lt, ne, show_formula, show_pc
from ..spec import FCI, FCI_KIND_OF_PACKET, FIR_ENTRY, NACK_WINDOW, SLI_FIELDS
from ..values import *
from ..wire import Header, view_be, view_byte
from .c01 import input_slice
from .c08 import short, data_view
from .c12 import same_view, by


def state_syms(rep):
    cur, _ = rep.pre
    out = {}

    def rec(v, prefix):
        if isinstance(v, IntV):
            for a in v.l.t:
                if a[0] == "sym" and "@it" in a[1]:
                    out[".".join(prefix)] = a
        elif isinstance(v, StructV):
            for k, x in v.fields.items():
                rec(x, prefix + (k,))

    rec(cur, ())
    return out


def iterate(F, D, I, s, view_val, method):
    """run view.method() and the protocol of the iterator it returns: IterReport"""
    m = [it["def"] for it in D.inherent(view_val.adt) if it["name"] == method]
    if not m:
        return None
    for s2, k, it in I.inline(m[0], None, s.clone(), [view_val]):
        if isinstance(it, IterV) and it.seq[0] == "custom":
            it = it.seq[1]
        if isinstance(it, StructV):
            nd = D.impl_item("std::iter::Iterator", it.adt, "next")
            X = Explorer(F, I)
            return IterProtocol(X, s2, it, nd, (view_val.adt, method)).run(), nd
    return None


def run(ctx, res):
    F = ctx.F
    D = Disc(F)
    fcis = {short(a): a for a in D.impls_of(FCI_PARSER)}
    res.floor("FCI parsers", len(fcis), 5)
    for nm in fcis:
        if nm not in FCI:
            res.extra_type(nm, "FCI parser has a row in the RFC FCI table", FCI.keys(), fcis.keys())
    # ------------------------------------------------------------------ gating
    n_gate = 0
    entry_of = {D.impl_item(FCI_PARSER, a, "parse"): a for a in fcis.values()}
    for padt in D.impls_of(PARSER_TRAIT):
        pname = short(padt)
        if pname not in FCI_KIND_OF_PACKET:
            continue
        kind = FCI_KIND_OF_PACKET[pname]
        d = D.impl_item(PARSER_TRAIT, padt, "parse")
        pf = [it["def"] for it in D.inherent(padt) if it["name"] == "parse_fci"]
        res.ob(bool(pf), "anchor", f"{pname}::parse_fci", "FCI extraction method exists")
        if not pf:
            continue
        I = Interp(F)
        inp = input_slice()
        H = Header(inp)
        outs = I.run(d, [inp])
        I.call_hook = opaque_parse_hook(F, entry_of)
        gens = [g for g in F.bodies[pf[0]]["generics"] if g != "Self"]
        for s, k, v in outs:
            if not (k == "val" and isinstance(v, StructV) and v.variant == "Ok"):
                continue
            pv = v.fields["0"]
            P = H.last_byte_forms()[0] if solver.entails(s.pc, H.pbit_set()) else lin(0)
            for fname, fadt in fcis.items():
                if fname not in FCI:
                    continue      # a type the RFC FCI table has no row for (recorded by extra_type above)
                want_kind, want_fmt = FCI[fname]
                fake = {"gargs": [D.ty_index_of_adt(fadt) if g == gens[0] else None for g in F.bodies[pf[0]]["generics"]]}
                for s2, k2, r in I.inline(pf[0], fake, s.clone(), [pv]):
                    n_gate += 1
                    inner = r.fields.get("0") if isinstance(r, StructV) else None
                    reached = isinstance(inner, StructV) and inner.variant in (PARSED, ERROR_OF)
                    if reached:
                        okg = want_kind == kind and solver.entails(s2.pc, flit(eq(H.count(), want_fmt))) and by(inner) == D.impl_item(FCI_PARSER, fadt, "parse")
                        res.ob(okg, "fci-gating", pf[0], f"{pname}::parse_fci::<{fname}> decodes only {want_kind} feedback with FMT {want_fmt}", pc=s2.pc)
                        view = inner.fields.get("data") or inner.fields.get("view")
                        want = SliceV(inp.base, inp.start + 12, inp.start + inp.length() - P)
                        res.ob(same_view(s2.pc, view, want), "fci-gating", pf[0], f"{pname}::parse_fci::<{fname}> hands the FCI parser exactly [12, len - padding)",
                               detail=repr(view), pc=s2.pc)
                    else:
                        e = inner
                        okg = isinstance(r, StructV) and r.variant == "Err" and isinstance(e, StructV) and e.variant == "WrongImplementation" and \
                            (want_kind != kind or solver.entails(s2.pc, flit(ne(H.count(), want_fmt))))
                        res.ob(okg, "fci-gating", pf[0], f"{pname}::parse_fci::<{fname}> refuses (WrongImplementation) only a different kind or FMT", detail=repr(r)[:200], pc=s2.pc)
        from ..core import arithmetic
        arithmetic(res, I, d)
    res.floor("gating outcomes", n_gate, 30)
    # ------------------------------------------------------------------ decoders
    n_dec = decoders(F, D, res, fcis)
    res.floor("decoder transitions / accessor results compared", n_dec, 14)
    res.analysed = {"gating_outcomes": n_gate, "decoder_checks": n_dec}
    res.assumptions.append("NACK: completeness of the bit scan (no set bit is skipped) is decided per scan step (rule nack-transition: +1, same word, the bit left was tested clear); the induction over the steps between two yields is the usual one, stated in DESIGN.md")


def decoders(F, D, res, fcis, only=None):
    """the decoding rules of every FCI parser (or of those named in `only`); returns the number of comparisons"""
    n_dec = 0
    for fname, fadt in fcis.items():
        if only is not None and fname not in only:
            continue
        if fname not in FCI:
            continue      # no row in the RFC FCI table (recorded by extra_type in run())
        d = D.impl_item(FCI_PARSER, fadt, "parse")
        I = Interp(F)
        inp = input_slice()
        LEN = inp.length()
        outs = I.run(d, [inp])
        from ..core import arithmetic
        arithmetic(res, I, d)
        oks = [(s, v.fields["0"]) for s, k, v in outs if k == "val" and isinstance(v, StructV) and v.variant == "Ok"]
        errs = [(s, v.fields["0"]) for s, k, v in outs if k == "val" and isinstance(v, StructV) and v.variant == "Err"]
        if fname == "Pli":
            for s, v in oks:
                n_dec += 1
                res.ob(solver.entails(s.pc, flit(eq(LEN, 0))), "fci-row", d, "PLI accepts only an empty FCI", pc=s.pc)
            for s, e in errs:
                n_dec += 1
                res.ob(solver.entails(s.pc, flit(gt(LEN, 0))), "fci-row", d, "PLI rejects only a non-empty FCI", pc=s.pc)
            continue
        if fname == "Rpsi":
            for s, v in oks:
                acc = {it["name"]: it["def"] for it in D.inherent(fadt)}
                for s2, k2, r in I.inline(acc["payload_type"], None, s.clone(), [v]):
                    n_dec += 1
                    want = Lin.atom(("mod", view_byte(inp, 1).key(), 128))
                    res.ob(isinstance(r, IntV) and solver.entails(s2.pc, flit(eq(r.l, want))), "fci-row", acc["payload_type"], "RPSI payload type is the low 7 bits of byte 1", detail=repr(r), pc=s2.pc)
                for s2, k2, r in I.inline(acc["bit_string"], None, s.clone(), [v]):
                    n_dec += 1
                    pb = view_byte(inp, 0)
                    fillb = Lin.atom(("div", pb.key(), 8))
                    okr = isinstance(r, TupV) and same_view(s2.pc, r.items[0], SliceV(inp.base, inp.start + 2, inp.start + LEN - fillb)) and \
                        isinstance(r.items[1], IntV) and solver.entails(s2.pc, flit(eq(r.items[1].l, Lin.atom(("mod", pb.key(), 8)))))
                    res.ob(bool(okr), "fci-row", acc["bit_string"], "RPSI bit string is [2, len - PB/8) with PB mod 8 ignored trailing bits", detail=repr(r)[:200], pc=s2.pc)
                    # the padding bits are removed *from the string*: they cannot outnumber its bits (PB <= 8 * (len - 2)),
                    # in particular bits to ignore in "the last byte" need a last byte
                    n_dec += 1
                    res.ob(solver.entails(s2.pc, flit(le(pb, (LEN - 2).scale(8)))), "fci-row", d,
                           "RPSI: an accepted FCI has at most as many padding bits as bit-string bits (PB <= 8 * (len - 2))", pc=s2.pc)
            continue
        method = {"Fir": "entries", "Sli": "lost_macroblocks", "Nack": "entries"}[fname]
        for s, v in oks:
            got = iterate(F, D, I, s, v, method)
            if got is None:
                res.ob(False, "anchor", f"{fname}::{method}", "decoder iterator exists")
                continue
            rep, nd = got
            syms = state_syms(rep)
            ikey = "i" if "i" in syms else (sorted(syms)[0] if len(syms) == 1 else None)
            i_sym = Lin.atom(syms[ikey]) if ikey else None
            if fname in ("Fir", "Sli"):
                stride = FIR_ENTRY if fname == "Fir" else 4
                scale = stride if fname == "Fir" else 1     # FIR counts entries, SLI counts bytes
                step = 1 if fname == "Fir" else 4
                for tr in rep.transitions:
                    delta, outcome, ints, bools, s2, r = tr[:6]
                    n_dec += 1
                    off = i_sym.scale(scale)
                    if outcome == "None":
                        res.ob(solver.entails(s2.pc, flit(gt(off + stride, LEN))), "fci-row", nd, f"{fname}: iteration ends only when fewer than {stride} bytes remain", pc=s2.pc)
                        continue
                    item = r.fields["0"]
                    res.ob(solver.entails(s2.pc, f_and(flit(le(off + stride, LEN)), flit(eq(ints[ikey], i_sym + step)))), "fci-row", nd,
                           f"{fname}: each step decodes one whole {stride}-byte entry at the current offset and advances by it", pc=s2.pc)
                    if fname == "Fir":
                        okf = isinstance(item, StructV) and isinstance(item.fields.get("ssrc"), IntV) and \
                            solver.entails(s2.pc, f_and(flit(eq(item.fields["ssrc"].l, view_be(inp, off, 4))), flit(eq(item.fields["sequence"].l, view_byte(inp, off + 4)))))
                        res.ob(bool(okf), "fci-row", nd, "FIR entry = (BE32 SSRC at 8i, sequence at 8i+4)", detail=repr(item)[:200], pc=s2.pc)
                    else:
                        word = []
                        for b_ in range(4):
                            word = BL.to_bits(view_byte(inp, off + 3 - b_), 8) + word if False else word
                        # 32-bit big-endian word, least significant bit first
                        bits = []
                        for b_ in (3, 2, 1, 0):
                            bits += BL.to_bits(view_byte(inp, off + b_), 8)
                        okf = isinstance(item, StructV)
                        for fld, lo, w in SLI_FIELDS:
                            want = BL.from_bits(bits[lo:lo + w])
                            x = item.fields.get(fld) if okf else None
                            okf = okf and isinstance(x, IntV) and want is not None and solver.entails(s2.pc, flit(eq(x.l, want)))
                        res.ob(bool(okf), "fci-row", nd, "SLI entry = (First 13 bits, Number 13 bits, PictureID 6 bits) of the big-endian word", detail=repr(item)[:300], pc=s2.pc)
                res.ob(rep.progress_ok, "iter-progress", nd, f"{fname}: iteration makes progress bounded by the FCI length")
            else:
                # NACK: two integer state fields, a word index and a bit index — told apart by what the code does with
                # them (the assignment under which the transition table holds), not by their names
                import itertools

                class Rec:
                    def __init__(self):
                        self.items = []

                    def ob(self, ok, *a, **kw):
                        self.items.append((bool(ok), a, kw))
                        return ok

                    def floor(self, *a):
                        self.items.append(("floor", a, {}))

                names = sorted(syms)
                perms = [p for p in itertools.permutations(names, 2)] if len(names) >= 2 else []
                if ("i", "mask_i") in perms:
                    perms.remove(("i", "mask_i"))
                    perms.insert(0, ("i", "mask_i"))
                best = None
                for wk, bk in perms:
                    rec = Rec()
                    cnt = nack_table(rec, I, rep, nd, inp, LEN, syms, wk, bk)
                    good = all(it[0] is True for it in rec.items if it[0] != "floor")
                    if best is None or good:
                        best = (rec, cnt)
                    if good:
                        break
                if best is None:
                    res.ob(False, "anchor", nd, "the NACK iterator keeps a word index and a bit index")
                else:
                    for okv, a, kw in best[0].items:
                        if okv == "floor":
                            res.floor(*a)
                        else:
                            res.ob(okv, *a, **kw)
                    n_dec += best[1]
    return n_dec


def nack_table(res, I, rep, nd, inp, LEN, syms, wk, bk):
    """the transition table of the NACK iterator with `wk` as the word index field and `bk` as the bit index field"""
    n_dec = 0
    i_sym = Lin.atom(syms[wk])
    m_sym = Lin.atom(syms[bk])
    for tr in rep.transitions:
        delta, outcome, ints, bools, s2, r = tr[:6]
        n_dec += 1
        # the word examined on this step: i, or i + 1 after a wrap (bit index > 16)
        wrapped = solver.entails(s2.pc, flit(gt(m_sym, NACK_WINDOW)))
        iw = i_sym + 1 if wrapped else i_sym
        m0 = lin(0) if wrapped else m_sym
        pid = view_be(inp, iw.scale(4), 2)
        blp = view_be(inp, iw.scale(4) + 2, 2)
        if outcome == "None":
            res.ob(solver.entails(s2.pc, flit(gt(iw.scale(4) + 4, LEN))), "nack-transition", nd, "NACK: iteration ends only when no whole (PID, BLP) word remains", pc=s2.pc)
        elif outcome == "Back":
            res.ob(solver.entails(s2.pc, f_and(flit(gt(ints[bk], NACK_WINDOW)), flit(eq(ints[wk], iw)))), "nack-transition", nd,
                   "NACK: the scan leaves a word only after bit 16 (then moves to the next word)", pc=s2.pc)
        elif outcome == "Some":
            y = r.fields["0"]
            if solver.entails(s2.pc, flit(eq(m0, 0))):
                okn = isinstance(y, IntV) and solver.entails(s2.pc, f_and(flit(eq(y.l, pid)), flit(eq(ints[bk], 1)), flit(eq(ints[wk], iw))))
                res.ob(bool(okn), "nack-transition", nd, "NACK: a word first yields its PID (BE16 at 4i), then scans the bitmask from bit 1", detail=repr(y), pc=s2.pc)
            else:
                j = ints[bk] - 1
                okn = isinstance(y, IntV) and solver.entails(s2.pc, f_and(flit(ge(j, 1)), flit(le(j, NACK_WINDOW)), flit(ge(j, m0)), flit(eq(ints[wk], iw)))) and \
                    solver.entails(s2.pc, flit(eq(y.l, Lin.atom(("mod", (pid + j).key(), 65536))))) and bit_tested(s2.pc, blp, j - 1)
                res.ob(bool(okn), "nack-transition", nd,
                       "NACK: a bitmask step yields PID + j (mod 2^16) for a tested set bit j-1 of BLP (BE16 at 4i+2), j in 1..=16 at or after the current position, and continues at j+1",
                       detail=repr(y)[:200], pc=s2.pc)
    res.ob(rep.progress_ok, "iter-progress", nd, "NACK: (word, bit) advances lexicographically, bounded by the FCI length")
    n_dec += scan_complete(res, I, nd, inp, syms, wk, bk)
    return n_dec


def _module(d):
    """module path of a def path such as `<feedback::nack::X<'a> as Trait>::next` or `feedback::nack::helper`"""
    import re
    m = re.search(r"([a-z_][a-z0-9_]*(?:::[a-z_][a-z0-9_]*)*)::[A-Za-z]", d.lstrip("<"))
    return m.group(1) if m else d


def scan_complete(res, I, nd, inp, syms, wk="i", bk="mask_i"):
    """No set bit is skipped: every step of the bit scan that does not yield leaves the word index alone, advances the
    bit index by exactly one and has tested the bit it leaves (index mask_i - 1) as clear — on the steps that repeat the
    scan loop and on the step (if any) taken on the way out of it.  With the yield rule above this is the induction step
    of "between two yields of one word every bit was tested clear"."""
    n = 0
    for lr in I.loop_reports:
        # the scan loop may live in next() itself or in a private helper of the same module that next() calls
        if lr.kind != "loop" or not (lr.fn == nd or _module(lr.fn) == _module(nd)):
            continue
        mk = [a for a, init in lr.carried if init == Lin.atom(syms[bk])]
        ik = [a for a, init in lr.carried if init == Lin.atom(syms[wk])]
        if not mk or not lr.backs:
            continue
        m = Lin.atom(mk[0])
        steps = [new.get(mk[0]) - m if new.get(mk[0]) is not None else None for _, new in lr.backs]
        # the inner scan: every repetition moves the bit index forward by a constant (the whole-body loop of next(),
        # which can also reload the word or restart at bit 0, is covered by the transition table)
        if not all(d is not None and d.is_const() and d.c >= 1 for d in steps):
            continue
        iw = Lin.atom(ik[0]) if ik else None
        blp = view_be(inp, Lin.atom(syms[wk]).scale(4) + 2, 2)
        for (delta, new), d in zip(lr.backs, steps):
            n += 1
            same_word = iw is None or new.get(ik[0]) == iw
            res.ob(d.c == 1 and same_word and bit_tested(delta, blp, m - 1, want_set=False), "nack-transition", nd,
                   "NACK: a scan step that yields nothing stays in the word, moves to the next bit and has tested the bit it leaves as clear (no set bit is skipped)",
                   pc=delta)
        for (kind, val, delta), vals in zip(lr.exit_kinds, getattr(lr, "exit_vals", [])):
            if kind != "brk":
                continue
            n += 1
            mv = vals.get(mk[0])
            stay = mv is not None and mv == m
            one = mv is not None and mv == m + 1 and bit_tested(delta, blp, m - 1, want_set=False)
            res.ob(stay or one, "nack-transition", nd,
                   "NACK: the scan of a word is left without a yield either at its current bit or one bit further after testing that bit as clear", pc=delta)
    res.floor("NACK bit-scan steps checked", n, 2)
    return n


def bit_tested(pc, blp, bitidx, want_set=True):
    """the path condition contains the test ((BLP >> bitidx) & 1) > 0 (as the interpreter's opaque shift/and terms)"""
    for l in pc:
        if l[0] not in ("le", "ne", "eq"):
            continue
        for a in atoms_deep(l[1]):
            if a[0] == "mod" and a[2] == 2:
                # (value >> amount) & 1 in the bit view: ((value >> amount) mod 2)
                sa = Lin.from_key(a[1]).single_atom()
                if sa and sa[1] == 1 and sa[0][0] == "opq" and isinstance(sa[0][1], tuple) and sa[0][1][0] == "shr":
                    val, amt = Lin.from_key(sa[0][1][1]), Lin.from_key(sa[0][1][2])
                    if solver.entails(pc, f_and(flit(eq(val, blp)), flit(eq(amt, bitidx)))) and solver.entails(pc, flit(ge(Lin.atom(a), 1)) if want_set else flit(le(Lin.atom(a), 0))):
                        return True
            if a[0] == "opq" and isinstance(a[1], tuple) and a[1][0] == "bitop" and a[1][1] == "BitAnd":
                x, y = Lin.from_key(a[1][2]), Lin.from_key(a[1][3])
                if not (y.is_const() and y.c == 1):
                    continue
                sa = x.single_atom()
                if sa and sa[0][0] == "opq" and isinstance(sa[0][1], tuple) and sa[0][1][0] == "shr":
                    val, amt = Lin.from_key(sa[0][1][1]), Lin.from_key(sa[0][1][2])
                    if solver.entails(pc, f_and(flit(eq(val, blp)), flit(eq(amt, bitidx)))) and solver.entails(pc, flit(ge(Lin.atom(a), 1)) if want_set else flit(le(Lin.atom(a), 0))):
                        return True
    return False
