"""C14 — a compound is the concatenation of its members and parses back to them.

SIZE(CompoundBuilder) = prefix sum of the members' announced sizes, accepted iff every member is
valid and no member but the last requests padding; WRITE hands member k exactly the view
[PS(k), PS(k)+s_k) (so its header length field describes itself) and the regions are the members'
images in order; the PacketBuilder enum forwards each of its three methods to the same method of the
wrapped builder; a (nested) compound reports its last member's padding.  Parse-back follows from
C07 (every member image is a well-framed packet of its own size) and C11 (tiling, per-tile parse)."""
from .. import solver
from ..analysis import Disc, WRITER_TRAIT
from ..interp import Interp, State, Unmodelled
from ..lin import Lin, eq, f_and, f_not, f_or, flit, ge, gt, le, lin, lt, ne, show_formula, show_pc
from ..regions import regions_of, frontier
from ..values import *
from ..wsumm import BUF, Summary, discover
from .c16 import compound_ok, compound_padding_err, compound_get_padding

METHODS = ("calculate_size", "write_into_unchecked", "get_padding")


def packet_builder_forwarding(F, D, res, bs):
    """every method of the PacketBuilder enum, on every variant, is exactly the same method of the wrapped builder on the
    same buffer (so wrapping a builder changes nothing); returns the number of arms checked"""
    # ---- PacketBuilder forwarding
    PB = bs.get("PacketBuilder")
    n_fw = 0
    if PB:
        adt = PB.adt
        variants = {vd["name"]: F.types[vd["fields"][0]["t"]].get("def") for vd in F.adts[adt]["variants"]}
        impl_of = {}
        for a2 in D.impls_of(WRITER_TRAIT):
            for m in METHODS:
                impl_of[D.impl_item(WRITER_TRAIT, a2, m)] = (a2, m)
        for m in METHODS:
            d = D.impl_item(WRITER_TRAIT, adt, m)
            I = Interp(F)
            seen = {}

            def hook(tgt, e, st, args, seen=seen, d=d):
                if tgt in impl_of and tgt != d:
                    rv = StructV("<forwarded>", "Call", {"to": FnV(tgt), "recv": args[0], "args": TupV(args[1:])})
                    return [(st, "val", rv)]
                return None

            I.call_hook = hook
            pb = I.symbolic(D.ty_index_of_adt(adt), ("pb",))
            args = [pb] + ([SliceV(BUF, 0, Lin.atom(("len", BUF)))] if m == "write_into_unchecked" else [])
            try:
                outs = I.inline(d, None, State(), args)
            except Unmodelled as ex:
                res.unmodelled(d, str(ex))
                continue
            got = set()
            for s, k, r in outs:
                var = [l[1][3] for l in s.pc if l[0] == "b" and isinstance(l[1], tuple) and l[1][0] == "variant" and l[2] is True]
                vname = var[0] if var else None
                okf = isinstance(r, StructV) and r.adt == "<forwarded>" and vname in variants
                if okf:
                    to = r.fields["to"].fn
                    tadt, tm = impl_of.get(to, (None, None))
                    recv = r.fields["recv"]
                    okf = tadt == variants[vname] and tm == m and isinstance(recv, StructV) and recv.adt == tadt
                    if okf and m == "write_into_unchecked":
                        a1 = r.fields["args"].items
                        okf = len(a1) == 1 and isinstance(a1[0], SliceV) and a1[0].base == BUF and a1[0].start == lin(0) and a1[0].end == Lin.atom(("len", BUF))
                res.ob(bool(okf), "forwarding", d, f"PacketBuilder::{m} on variant {vname} is exactly {m} of the wrapped builder (same buffer)", detail=repr(r)[:200], pc=s.pc)
                got.add(vname)
                n_fw += 1
            res.ob(got == set(variants), "forwarding", d, f"PacketBuilder::{m} handles every variant", detail=str(sorted(set(variants) - got)))
    return n_fw


def run(ctx, res):
    F = ctx.F
    D = Disc(F)
    bs = {B.name: B for B in discover(F)}
    res.floor("compound and packet-enum builders", int("CompoundBuilder" in bs) + int("PacketBuilder" in bs), 2)
    B = bs.get("CompoundBuilder")
    # "its members" are what add_packet was given, in that order: the setter rules of C20 for the compound builder
    from .c20 import setter_rules
    _ns, _nc, _ = setter_rules(F, D, res, sorted(b.adt for b in bs.values() if b.name == "CompoundBuilder"))
    res.floor("compound member adders checked", _nc + _ns, 1)
    n = 0
    if B:
        S = Summary(F, B)
        coll = S.b.fields["packets"]
        N = coll.count()
        for s, v in S.size_outs:
            if v.variant == "Ok":
                x = v.fields["0"]
                # sum of the members' sizes: a prefix sum whose step is exactly member k's announced size
                good = False
                if isinstance(x, IntV):
                    if x.l == lin(0):
                        good = solver.entails(s.pc, flit(eq(N, 0)))
                    else:
                        a = x.l.single_atom()
                        f = S.I.loops.psfuns.get(a[0][2]) if a and a[0][0] == "ps" and a[1] == 1 else None
                        good = bool(f) and all(isinstance(dl, Lin) and dl.single_atom() and dl.single_atom()[0][0] == "elem" and
                                               dl.single_atom()[0][3][-1] == "#size" for _, dl in f["cases"]) and \
                            Lin.from_key(a[0][3]) == N
                res.ob(good, "compound-sum", B.cs, "CompoundBuilder: announced size is the sum of the members' announced sizes", detail=repr(x)[:200], pc=s.pc)
                res.ob(compound_ok(S, s), "compound-accept", B.cs, "CompoundBuilder: accepted only if every member is valid and no member but the last requests padding", pc=s.pc)
                n += 2
            else:
                e = v.fields["0"]
                if isinstance(e, StructV) and e.variant == "<error-of>":
                    res.ob(True, "compound-accept", B.cs, "CompoundBuilder: a member's error is passed through")
                elif isinstance(e, StructV) and e.variant == "NonLastCompoundPacketPadding":
                    res.ob(compound_padding_err(S, s), "compound-accept", B.cs, "CompoundBuilder: NonLastCompoundPacketPadding only for padding on a member other than the last", pc=s.pc)
                else:
                    res.ob(False, "compound-accept", B.cs, "CompoundBuilder: rejects only for a member's error or non-last padding", detail=repr(e)[:200], pc=s.pc)
                n += 1
        for wc in S.cases:
            for o in wc.obligations:
                if o.kind == "dyn-contract":
                    res.ob(o.ok, "member-view", o.fn, "CompoundBuilder: each member is handed a view of exactly its announced size: " + show_formula(o.goal)[:200], o.span, pc=o.pc)
                    n += 1
            for s2, r in wc.outs:
                writes = list(s2.mem.get(BUF, ()))
                probs = []
                regs = regions_of(s2.pc, writes, probs)
                hi, why = (None, "")
                if not probs:
                    hi, why = frontier(s2.pc, regs, lin(0))
                good = hi is not None and solver.entails(s2.pc, flit(eq(hi, wc.n)))
                kinds = set()
                for w in writes:
                    if w.kind == "loop":
                        for cond, ws, pcf in w.payload:
                            kinds |= {x.kind for x in ws}
                    else:
                        kinds.add(w.kind)
                res.ob(good and kinds <= {"member"}, "member-view", B.wr, "CompoundBuilder: the output is exactly the members' images, in order, end to end",
                       detail=("; ".join(probs) or why or str(kinds))[:300], pc=s2.pc)
                n += 1
        # get_padding: the last member's
        n += compound_get_padding(F, B, res)
    n_fw = packet_builder_forwarding(F, D, res, bs)
    res.floor("compound checks", n, 8)
    res.floor("PacketBuilder forwarding arms", n_fw, 24)
    # "parsing those bytes as a compound yields one packet per member": the built bytes are the members' images, each
    # announcing its own size in its length field (C07), so they are accepted exactly if the compound parser's accept
    # condition is "non-empty and the chain of length fields ends at len" — the validation-loop rules of C11, shared
    from . import c11
    c11.run(ctx, res, accept_only=True)
    res.analysed = {"compound_checks": n, "forwarding_arms": n_fw}
    res.assumptions.append("parse-back (one packet per member, each equal to the member parsed alone) is the composition of C07 (member header describes its own size), C11 (tiling and per-tile parse) and C12; it is not re-derived here")
