"""C08 — a packet is accepted only if it is exactly and consistently framed.

On every Ok outcome of every typed parser (and of the generic parser, per dispatched variant; and
of the unknown parser) the path condition must entail the RFC framing facts, with all constants
taken from spec.py; the header accessors must return exactly those header values."""
from .. import solver
from ..analysis import Disc, PARSER_TRAIT, PARSER_EXT
from ..interp import Interp, Unmodelled
from ..lin import Lin, eq, f_and, f_not, f_or, flit, ge, gt, le, lin, lt, ne, show_formula
from ..spec import PACKET_TYPES, UNKNOWN_MIN, VERSION
from ..values import *
from ..wire import Header
from .c01 import input_slice

FLOOR_TYPED = 7


def short(adt):
    return adt.split("::")[-1]


def framing_goals(H, name):
    """[(label, formula)] that must hold of an accepted packet of public type `name`"""
    goals = []
    if name in PACKET_TYPES:
        row = PACKET_TYPES[name]
        goals.append(("minimum size", flit(ge(H.len, row["min"]))))
        goals.append(("version 2", H.version_is(VERSION)))
        goals.append(("packet type", flit(eq(H.ptype(), row["pt"]))))
        goals.append(("length field * 4 + 4 == len", flit(eq(H.length_field_bytes(), H.len))))
        goals.append(("padding bit => non-zero final byte",
                      f_or(f_not(H.pbit_set()), *[flit(ne(b, 0)) for b in H.last_byte_forms()])))
        if row["per_count"]:
            goals.append(("body holds what the count announces",
                          flit(ge(H.len, H.count().scale(row["per_count"]) + row["count_base"]))))
    else:
        goals.append(("minimum size", flit(ge(H.len, UNKNOWN_MIN))))
        goals.append(("version 2", H.version_is(VERSION)))
        goals.append(("length field * 4 + 4 == len", flit(eq(H.length_field_bytes(), H.len))))
    return goals


def check_ok_state(res, s, view, name, fn, entry):
    H = Header(view)
    for label, goal in framing_goals(H, name):
        ok = solver.entails(s.pc, goal)
        res.ob(ok, "framing-entailed", fn, f"{name}: {label}: {show_formula(goal)}", pc=s.pc, entry=entry)
    return H


def data_view(v):
    return field_of(v, SliceV, "data")


def header_accessors(res, F, D, I, s, v, name, entry):
    """version/type_/count/subtype/length and padding() equal the header values"""
    view = data_view(v)
    H = Header(view)
    adt = v.adt
    want = {"version": H.version_value(), "type_": H.ptype(), "count": H.count(), "subtype": H.count(),
            "length": H.length_field_bytes()}
    tyi = D.ty_index_of_adt(adt)
    n = 0
    for it in F.traits[PARSER_EXT]["items"]:
        if it["kind"] != "AssocFn" or not it["has_default"]:
            continue
        nm = it["name"]
        if nm not in want:
            res.unmodelled(it["def"], f"header accessor {nm} has no row in the RFC header table")
            continue
        outs = I.inline(it["def"], {"gargs": [tyi]}, s.clone(), [v])
        for s2, kind, r in outs:
            ok = kind == "val" and isinstance(r, IntV) and solver.entails(s2.pc, flit(eq(r.l, want[nm])))
            res.ob(ok, "header-accessor", it["def"], f"{name}::{nm}() == {want[nm]}", pc=s2.pc, entry=entry)
            n += 1
    # padding(): Some(last byte) iff the padding bit is set
    pad = None
    for it in D.inherent(adt):
        if it["name"] == "padding":
            pad = it["def"]
    if pad:
        for s2, kind, r in I.inline(pad, None, s.clone(), [v]):
            if kind != "val" or not isinstance(r, StructV):
                res.ob(False, "header-accessor", pad, f"{name}::padding() returns an Option", entry=entry)
                continue
            if r.variant == "Some":
                x = r.fields["0"]
                goal = f_and(H.pbit_set(), f_or(*[flit(eq(x.l, b)) for b in H.last_byte_forms()])) if isinstance(x, IntV) else None
                ok = goal is not None and solver.entails(s2.pc, goal)
                res.ob(ok, "header-accessor", pad, f"{name}::padding() == Some(final byte) only when the padding bit is set", pc=s2.pc, entry=entry)
            else:
                ok = solver.entails(s2.pc, f_not(H.pbit_set()))
                res.ob(ok, "header-accessor", pad, f"{name}::padding() == None only when the padding bit is clear", pc=s2.pc, entry=entry)
            n += 1
    return n


def run(ctx, res):
    F = ctx.F
    D = Disc(F)
    typed = 0
    n_ok_states = 0
    n_acc = 0
    analysed = {}
    for adt in D.impls_of(PARSER_TRAIT):
        d = D.impl_item(PARSER_TRAIT, adt, "parse")
        name = short(adt)
        I = Interp(F)
        try:
            outs = I.run(d, [input_slice()])
        except Unmodelled as ex:
            res.unmodelled(d, str(ex))
            continue
        from ..core import arithmetic
        arithmetic(res, I, d)
        oks = [(s, v.fields["0"]) for s, k, v in outs if k == "val" and isinstance(v, StructV) and v.variant == "Ok"]
        analysed[d] = {"outcomes": len(outs), "ok": len(oks)}
        if not oks:
            res.ob(False, "anchor", d, f"{name}::parse has an Ok outcome")
        is_enum = F.adts[adt]["is_enum"]
        if name in PACKET_TYPES:
            typed += 1
        elif not is_enum and name != "Unknown":
            res.unmodelled(d, f"parser of public type {name} has no row in spec.PACKET_TYPES")
            continue
        for s, v in oks:
            n_ok_states += 1
            if is_enum:
                # generic parser: guarantees of the dispatched variant's own type
                payload = v.fields.get("0")
                view = data_view(payload)
                if view is None:
                    res.unmodelled(d, f"variant {v.variant} payload without a data view")
                    continue
                check_ok_state(res, s, view, short(payload.adt), d, d)
                n_acc += header_accessors(res, F, D, I, s, v, name + "::" + v.variant, d) if False else 0
                # header accessors of the enum forward to the payload's header
                n_acc += header_accessors_enum(res, F, D, I, s, v, payload, d)
            else:
                view = data_view(v)
                if view is None:
                    res.unmodelled(d, "parsed view without a data field")
                    continue
                check_ok_state(res, s, view, name, d, d)
                n_acc += header_accessors(res, F, D, I, s, v, name, d)
        for sp, fn, what in I.unmodelled:
            res.unmodelled(fn, what, sp)
    res.floor("typed packet parsers with an RFC row", typed, FLOOR_TYPED)
    res.floor("accepted-outcome states checked", n_ok_states, 30)
    res.floor("header accessor results compared", n_acc, 150)
    res.analysed = {"parsers": analysed, "header_accessor_results": n_acc}


def header_accessors_enum(res, F, D, I, s, v, payload, entry):
    """Packet::{version,type_,...}() go through Packet::header_data, which must forward to the payload"""
    view = data_view(payload)
    H = Header(view)
    want = {"version": H.version_value(), "type_": H.ptype(), "count": H.count(), "subtype": H.count(),
            "length": H.length_field_bytes()}
    tyi = D.ty_index_of_adt(v.adt)
    n = 0
    for it in F.traits[PARSER_EXT]["items"]:
        if it["kind"] != "AssocFn" or not it["has_default"] or it["name"] not in want:
            continue
        nm = it["name"]
        for s2, kind, r in I.inline(it["def"], {"gargs": [tyi]}, s.clone(), [v]):
            ok = kind == "val" and isinstance(r, IntV) and solver.entails(s2.pc, flit(eq(r.l, want[nm])))
            res.ob(ok, "header-accessor", it["def"], f"Packet::{v.variant}.{nm}() == {want[nm]}", pc=s2.pc, entry=entry)
            n += 1
    return n
