"""C11 — compound parsing tiles the datagram and iterates it faithfully.

Compound::parse: the validation loop is summarised as a recurrence (o0 = 0, o' = o + L(o)) with the
facts checked at every chain point; accept <=> non-empty and the chain ends exactly at len.
Compound::next: transition system over (offset, is_over) under an inferred inductive invariant, with
Packet::parse left uninterpreted so that each yielded item is seen to be Packet::parse(tile)."""
from .. import solver
from ..analysis import (Disc, Explorer, IterProtocol, PARSER_TRAIT, PARSED, ERROR_OF, opaque_parse_hook,
                        validated_recurrence)
from ..interp import Interp, Unmodelled
from ..lin import Lin, eq, f_and, f_not, f_or, flit, ge, gt, le, lin, lt, ne, show_formula, subst_deep, show_pc
from ..values import *
from ..wire import Header
from .c01 import input_slice
from .c08 import short
from .c12 import same_view, by


def run(ctx, res, accept_only=False):
    """accept_only: just the validation loop's rules (the chain of length fields and the exact accept condition) — shared
    with C14, whose statement ends with parsing the built bytes as a compound"""
    F = ctx.F
    D = Disc(F)
    comp = [(d, adt) for d, adt, kind in D.parse_entries() if kind == "inherent" and D.impl_item("std::iter::Iterator", adt, "next")]
    res.floor("compound parser (a parse entry point whose value is an iterator)", len(comp), 1)
    if not comp:
        return
    d, adt = comp[0]
    nxt = D.impl_item("std::iter::Iterator", adt, "next")
    generic = [a for a in D.impls_of(PARSER_TRAIT) if F.adts[a]["is_enum"]]
    gparse = D.impl_item(PARSER_TRAIT, generic[0], "parse")
    I = Interp(F)
    inp = input_slice()
    LEN = inp.length()
    outs = I.run(d, [inp])
    from ..core import arithmetic
    arithmetic(res, I, d)
    vr = validated_recurrence(I, d)
    res.ob(vr is not None, "recurrence", d, "the validation loop is a recurrence over one offset with early error returns only")
    if vr is None:
        return
    o = Lin.atom(vr["atom"])
    tile = SliceV(inp.base, inp.start + o, inp.end)
    Lo = Header(tile).length_field_bytes()
    res.ob(vr["init"] == lin(0), "recurrence", d, "the chain starts at offset 0")
    res.ob(solver.entails(vr["facts"], flit(eq(vr["step"], o + Lo))), "recurrence", d,
           f"each step advances by the packet's own length field: o' = o + 4*(BE16(o+2)+1)", detail=f"step = {vr['step']}")
    res.ob(solver.entails(vr["facts"], f_and(flit(lt(o, LEN)), flit(le(o + 4, LEN)), flit(le(o + Lo, LEN)))), "recurrence", d,
           "at every chain point below len: a whole header and the whole announced packet fit", detail=show_pc(vr["facts"]))
    n_ok = n_err = 0
    ren = vr.get("renamed")

    def PC(st_):
        """the outcome's path condition in the recurrence's own variable (offset reached)"""
        if not ren:
            return st_.pc
        return [(l[0], subst_deep(l[1], ren)) if l[0] in ("le", "eq", "ne") else l for l in st_.pc] + list(vr.get("renamed_facts", []))

    for s, k, v in outs:
        if k != "val" or not isinstance(v, StructV):
            continue
        if v.variant == "Ok":
            n_ok += 1
            c = v.fields["0"]
            res.ob(solver.entails(PC(s), f_and(flit(ge(LEN, 1)), flit(eq(vr["final"], LEN)))), "tiling", d,
                   "accepted => non-empty and the chain of length fields ends exactly at len", pc=s.pc)
            c_off, c_over = field_of(c, IntV, "offset"), field_of(c, BoolV, "is_over")
            good = isinstance(c, StructV) and same_view(s.pc, field_of(c, SliceV, "data"), inp) and \
                isinstance(c_off, IntV) and c_off.l == lin(0) and isinstance(c_over, BoolV) and c_over.f == ("false",)
            res.ob(good, "tiling", d, "the iterator starts at offset 0, not finished, over the unchanged input", detail=repr(c)[:200])
            cv, cs = c, s
        else:
            n_err += 1
            goal = f_or(flit(eq(LEN, 0)), f_and(flit(lt(o, LEN)), f_or(flit(lt(LEN, o + 4)), flit(lt(LEN, o + Lo)))))
            res.ob(solver.entails(PC(s), goal), "tiling", d,
                   "rejected => empty, or some chain point has no room for its header or for its announced length", detail=repr(v)[:200], pc=s.pc)
    res.floor("accepting outcomes", n_ok, 1)
    res.floor("rejecting outcomes", n_err, 3)
    if not n_ok or accept_only:
        return
    # ---- iterator
    X = Explorer(F, I)
    X.validated[adt] = vr
    I.call_hook = opaque_parse_hook(F, {gparse: generic[0]})
    rep = IterProtocol(X, cs, cv, nxt, (short(adt),)).run()
    res.ob(bool(rep.chain_ok), "recurrence-agreement", nxt, "the iterator advances exactly as the validation loop did, or stops", detail=str(rep.chain))
    res.ob(rep.progress_ok, "iter-progress", nxt, "each yielded item strictly advances the offset, which is bounded by len",
           detail=f"{rep.progress}; invariant {rep.invariant}")
    n_tr = 0
    for tr in rep.transitions:
        delta, outcome, ints, bools, s2, r = tr[:6]
        n_tr += 1
        # pre-state symbols
        pre_off = None
        for p, (a, init) in []:
            pass
        # the iterator's state: one integer (the offset) and one flag (finished), whatever they are called
        ss_, bk_ = _state_syms(rep), _bool_keys(rep)
        off_sym = ([a for a in ss_ if a[1].startswith("offset@")] or ss_)[0]
        over_key = ([k for k in bk_ if k.startswith("is_over@")] or bk_)[0]
        OFF = Lin.atom(off_sym)
        over_pre = flit(("b", over_key, True))
        new_off = ints["offset"] if "offset" in ints else list(ints.values())[0]
        new_over = bools["is_over"] if "is_over" in bools else list(bools.values())[0]
        t = SliceV(inp.base, inp.start + OFF, inp.end)
        L = Header(t).length_field_bytes()
        if solver.entails(s2.pc, over_pre):
            good = outcome == "None" and solver.entails(s2.pc, flit(eq(new_off, OFF))) and solver.entails(s2.pc, new_over)
            res.ob(good, "fused", nxt, "once finished, next() returns None and stays finished", detail=f"outcome {outcome}", pc=s2.pc)
            continue
        if not solver.entails(s2.pc, f_not(over_pre)):
            res.ob(False, "transition", nxt, "every transition is analysed with a definite is_over", pc=s2.pc)
            continue
        item = r.fields.get("0") if isinstance(r, StructV) and r.variant == "Some" else None
        inner = item.fields.get("0") if isinstance(item, StructV) else None
        goodv = isinstance(inner, StructV) and inner.variant in (PARSED, ERROR_OF) and by(inner) == gparse and \
            ((item.variant == "Ok") == (inner.variant == PARSED))
        res.ob(bool(goodv), "transition", nxt, "an unfinished iterator yields exactly what the generic parser returns", detail=repr(r)[:200], pc=s2.pc)
        if goodv:
            view = inner.fields.get("data") or inner.fields.get("view")
            want = SliceV(inp.base, inp.start + OFF, inp.start + OFF + L)
            res.ob(same_view(s2.pc, view, want), "transition", nxt, "the generic parser is given exactly the current tile [offset, offset + 4*(BE16+1))",
                   detail=f"{view!r} vs {want!r}", pc=s2.pc)
            res.ob(solver.entails(s2.pc, flit(eq(new_off, OFF + L))), "transition", nxt, "offset advances by the tile's length", pc=s2.pc)
            if item.variant == "Err":
                res.ob(solver.entails(s2.pc, new_over), "transition", nxt, "iteration finishes after the first tile that fails to parse", pc=s2.pc)
            else:
                a = solver.entails(s2.pc + [ge(new_off, LEN)], new_over)
                b = solver.entails(s2.pc + [lt(new_off, LEN)], f_not(new_over))
                res.ob(a and b, "transition", nxt, "after a tile that parsed, iteration finishes exactly when the offset reached len", pc=s2.pc)
    res.floor("iterator transitions analysed", n_tr, 3)
    for sp, fn, what in I.unmodelled:
        res.unmodelled(fn, what, sp)
    res.analysed = {"recurrence": {"init": str(vr["init"]), "step": str(vr["step"]), "facts": show_pc(vr["facts"])},
                    "iterator_invariant": rep.invariant, "transitions": n_tr}


def _state_syms(rep):
    cur, cands = rep.pre
    out = []

    def rec(v):
        if isinstance(v, IntV):
            for a in v.l.t:
                if a[0] == "sym":
                    out.append(a)
        elif isinstance(v, StructV):
            for x in v.fields.values():
                rec(x)

    rec(cur)
    return out


def _bool_keys(rep):
    cur, cands = rep.pre
    out = []

    def rec(v):
        if isinstance(v, BoolV) and v.f[0] == "lit" and v.f[1][0] == "b":
            out.append(v.f[1][1])
        elif isinstance(v, StructV):
            for x in v.fields.values():
                rec(x)

    rec(cur)
    return out
