"""C05 — feedback packets and their FCI survive a build-then-parse round trip.

(a) packet level, for Transport/PayloadFeedbackBuilder with an arbitrary FCI member obeying the trait
    contract: the parser accepts the written bytes; sender/media SSRC, FMT and padding are recovered; the
    bytes handed to the FCI parser are exactly the member's image [12, 12 + S);
(b) FCI level, each FCI parser interpreted over its builder's write log: FIR entry i read == map entry i
    written (same iteration order in both loops, so the SSRC->sequence map is recovered), SLI entry i
    decoded == entry i encoded for fields within their 13/13/6-bit ranges, RPSI payload type and the
    bit string's whole bytes and bit count, PLI empty;
(c) NACK: the encoder's step relation (bit d-1 for d = seq - base in 1..=16, new word when d > 16) is
    extracted from the word generator and matches the decoder's (C15) and RFC 4585's window.
Not decided: that the greedy word generator and the bit scan compose to exactly the requested set for
every set, and the partially used last RPSI byte (both need inductive loop invariants beyond the
templates; see DESIGN.md §5)."""
from .. import solver
from ..analysis import Disc, Explorer, IterProtocol, PARSER_TRAIT, FCI_PARSER, FCI_BUILDER, PARSED, ERROR_OF, opaque_parse_hook
from ..interp import Interp, State, Unmodelled
from ..lin import Lin, atoms_deep, eq, f_and, f_not, f_or, flit, ge, gt, le, lin, lt, ne, show_formula, show_pc
from ..roundtrip import Trip, acceptance, elements
from ..spec import FCI, FIR_ENTRY, NACK_WINDOW, SLI_FIELDS
from ..values import *
from ..wsumm import BUF, discover
from .c02 import check_padding
from .c12 import same_view, by
from .c15 import iterate, state_syms


def run(ctx, res):
    F = ctx.F
    D = Disc(F)
    bs = {B.name: B for B in discover(F)}
    parsers = {a.split("::")[-1]: D.impl_item(PARSER_TRAIT, a, "parse") for a in D.impls_of(PARSER_TRAIT)}
    fparsers = {a.split("::")[-1]: a for a in D.impls_of(FCI_PARSER)}
    # "the configured value" is what the public setter was given: the setter rules (frame / rebuild / collection idioms,
    # C20) for the builders this property speaks about
    from .c20 import setter_rules
    _adts = sorted(B.adt for B in bs.values() if B.name in ('TransportFeedbackBuilder', 'PayloadFeedbackBuilder', 'FirBuilder', 'NackBuilder', 'SliBuilder', 'RpsiBuilder', 'PliBuilder'))
    _ns, _nc, _ = setter_rules(F, D, res, _adts)
    res.floor("(setter, field) pairs of this property's builders checked", _ns, 10)
    n = [0]
    # ------------------------------------------------------------------ (0) the FCI contract (a) relies on
    # (a) treats the FCI member as "announces S, writes exactly [0, S), returns S": that is an assumption of the packet-
    # level round trip, so it is discharged here for every FCI builder of the crate (the size/write rules of C06)
    from ..wsumm import Summary
    from .c06 import check_builder
    n_fc = 0
    for B in bs.values():
        if B.kind == "fci":
            n_fc += check_builder(res, F, B, Summary(F, B, exact=False))
    res.floor("FCI builders' size/write cases checked against the trait contract", n_fc, 5)
    # ------------------------------------------------------------------ (a) packet level
    for bname, pname in (("TransportFeedbackBuilder", "TransportFeedback"), ("PayloadFeedbackBuilder", "PayloadFeedback")):
        B = bs.get(bname)
        res.ob(B is not None and pname in parsers, "anchor", bname, "builder and parser exist")
        if not B or pname not in parsers:
            continue
        T = Trip(F, B, parsers[pname])
        res.programs += 1
        n[0] += acceptance(res, T, pname)
        b = T.S.b
        for wc, s2, live, unm in T.cases:
            member = [w for w in s2.mem.get(BUF, ()) if w.kind == "member"]
            for s, v in live:
                if v.variant != "Ok":
                    continue
                pv = v.fields["0"]
                check_padding(res, T, s, pv, b.fields["padding"].l, pname, n)
                for acc in ("sender_ssrc", "media_ssrc"):
                    for s3, r in T.call(s, pv, acc) or []:
                        n[0] += 1
                        res.compare(isinstance(r, IntV) and solver.entails(s3.pc, flit(eq(r.l, b.fields[acc].l))), "field-recovery", T.method(pv.adt, acc),
                                    f"{pname}::{acc}() returns the configured value", detail=repr(r), pc=s3.pc)
                if not member:
                    res.compare(False, "field-recovery", B.wr, f"{bname}: an FCI member is written")
                    continue
                d = member[0].payload
                fmt = T.I.std._dattr(d, "format", "u8")
                S = T.I.std._dattr(d, "size", "usize")
                cnt = [it["def"] for it in F.traits["RtcpPacketParserExt"]["items"] if it["name"] == "count"]
                for s3, k3, r in T.I.inline(cnt[0], {"gargs": [D.ty_index_of_adt(pv.adt)]}, s.clone(), [pv]):
                    n[0] += 1
                    res.compare(isinstance(r, IntV) and solver.entails(s3.pc, flit(eq(r.l, fmt))), "field-recovery", cnt[0], f"{pname}: the FMT read is the FCI builder's format()", detail=repr(r), pc=s3.pc)
                # the view handed to an FCI parser: exactly the member's image
                pf = T.method(pv.adt, "parse_fci")
                gens = [g for g in F.bodies[pf]["generics"] if g != "Self"]
                entry_of = {D.impl_item(FCI_PARSER, a, "parse"): a for a in fparsers.values()}
                T.I.call_hook = opaque_parse_hook(F, entry_of)
                seen = 0
                for fname, fadt in fparsers.items():
                    fake = {"gargs": [D.ty_index_of_adt(fadt) if g == gens[0] else None for g in F.bodies[pf]["generics"]]}
                    for s3, k3, r in T.I.inline(pf, fake, s.clone(), [pv]):
                        inner = r.fields.get("0") if isinstance(r, StructV) else None
                        if isinstance(inner, StructV) and inner.variant in (PARSED, ERROR_OF) and solver.feasible(s3.pc):
                            seen += 1
                            n[0] += 1
                            view = inner.fields.get("data") or inner.fields.get("view")
                            res.compare(same_view(s3.pc, view, SliceV(BUF, 12, lin(12) + S)), "field-recovery", pf,
                                        f"{pname}::parse_fci hands the FCI parser exactly the bytes the FCI builder wrote: [12, 12 + size)", detail=repr(view), pc=s3.pc)
                T.I.call_hook = None
                res.compare(seen >= 1, "field-recovery", pf, f"{pname}::parse_fci reaches an FCI parser for a matching kind and FMT")
    # ------------------------------------------------------------------ (b) FCI level
    for fname, fadt in fparsers.items():
        B = bs.get(fname + "Builder")
        res.ob(B is not None, "anchor", fname + "Builder", "FCI builder exists for the FCI parser")
        if not B:
            continue
        T = Trip(F, B, D.impl_item(FCI_PARSER, fadt, "parse"))
        res.programs += 1
        b = T.S.b
        if fname not in ("Fir", "Sli", "Rpsi", "Nack"):
            n[0] += acceptance(res, T, fname)
        for wc, s2, live, unm in T.cases:
            for sp, fn, what in unm:
                res.unmodelled(fn, what, sp)
            for s, v in live:
                if v.variant == "Err":
                    # FIR / SLI / RPSI parsers demand a minimum size that an empty list does not have: note, not a mismatch of content
                    empty = (fname == "Fir" and solver.entails(s.pc, flit(eq(b.fields["ssrc_seq"].count(), 0)))) or \
                            (fname == "Sli" and solver.entails(s.pc, flit(eq(b.fields["lost_mbs"].count(), 0))))
                    n[0] += 1
                    res.compare(bool(empty), "acceptance", T.parse_def, f"{fname}: the parser rejects the builder's output only for an empty entry list", detail=repr(v)[:200], pc=s.pc)
                    continue
                pv = v.fields["0"]
                if fname == "Fir":
                    m = b.fields["ssrc_seq"]
                    got = iterate(F, D, T.I, s, pv, "entries")
                    rep, nd = got
                    ss_ = state_syms(rep)
                    i_sym = Lin.atom(ss_["i"] if "i" in ss_ else ss_[sorted(ss_)[0]])
                    for tr in rep.transitions:
                        delta, outcome, ints, bools, s3, r = tr[:6]
                        n[0] += 1
                        if outcome == "Some":
                            it = r.fields["0"]
                            e = T.I.seq_elem(m, i_sym)
                            okf = solver.entails(s3.pc, flit(lt(i_sym, m.count()))) and isinstance(it, StructV) and \
                                solver.entails(s3.pc, f_and(flit(eq(it.fields["ssrc"].l, e.items[0].l)), flit(eq(it.fields["sequence"].l, e.items[1].l))))
                            res.compare(bool(okf), "element-match", nd, "FIR: entry i read == (SSRC, sequence) of map entry i written", detail=repr(it)[:200], pc=s3.pc)
                        elif outcome == "None":
                            res.compare(solver.entails(s3.pc, flit(ge(i_sym, m.count()))), "element-match", nd, "FIR: iteration ends exactly after the last written entry", pc=s3.pc)
                elif fname == "Sli":
                    vcoll = b.fields["lost_mbs"]
                    got = iterate(F, D, T.I, s, pv, "lost_macroblocks")
                    rep, nd = got
                    ss_ = state_syms(rep)
                    i_sym = Lin.atom(ss_["i"] if "i" in ss_ else ss_[sorted(ss_)[0]])
                    for tr in rep.transitions:
                        delta, outcome, ints, bools, s3, r = tr[:6]
                        n[0] += 1
                        if outcome == "Some":
                            # i counts bytes: entry index i/4; the invariant i ≡ 0 (mod 4) is needed to name the element
                            K = Lin.atom(("k", T.I.fresh("k")))
                            s4 = s3.clone()
                            s4.pc.append(eq(i_sym, K.scale(4)))
                            it = r.fields["0"]
                            e = T.I.seq_elem(vcoll, K)
                            rng = [le(e.fields[f].l, (1 << w) - 1) for f, lo, w in SLI_FIELDS]
                            if not solver.feasible(s4.pc):
                                res.compare(False, "element-match", nd, "SLI: the read offset is a multiple of 4", pc=s3.pc)
                                continue
                            # re-read the yielded fields at offset 4K through the write log
                            mb = T.I.loops  # noqa
                            from ..analysis import BACK
                            okf = isinstance(it, StructV)
                            s5 = s4.clone()
                            s5.pc.extend(rng)
                            s5.pc.append(lt(K, vcoll.count()))
                            dec = D.by_signature(["[u8; 4]"], "MacroBlockEntry", "feedback::sli::")
                            vals = None
                            if dec:
                                bytes4 = ArrV([T.I.read_byte(s5, BUF, K.scale(4) + j) for j in range(4)])
                                outs = T.I.inline(dec[0], None, s5.clone(), [bytes4])
                                vals = [(s6, r6) for s6, k6, r6 in outs if k6 == "val"]
                            okf = bool(vals)
                            for s6, r6 in vals or []:
                                for f_, lo, w in SLI_FIELDS:
                                    x = r6.fields.get(f_)
                                    okf = okf and isinstance(x, IntV) and solver.entails(s6.pc, flit(eq(x.l, e.fields[f_].l)))
                            res.compare(bool(okf), "element-match", nd, "SLI: entry k decoded == entry k encoded (fields within 13/13/6 bits)", detail=repr(it)[:200], pc=s5.pc)
                        elif outcome == "None":
                            res.compare(solver.entails(s3.pc, flit(ge(i_sym, vcoll.count().scale(4)))), "element-match", nd, "SLI: iteration ends exactly after the last written entry", pc=s3.pc)
                elif fname == "Rpsi":
                    bs_ = b.fields["native_bit_string"]
                    Lb = bs_.length()
                    ov = b.fields["native_bit_overrun"].l
                    for s3, r in T.call(s, pv, "payload_type") or []:
                        n[0] += 1
                        res.compare(isinstance(r, IntV) and solver.entails(s3.pc, flit(eq(r.l, b.fields["payload_type"].l))), "field-recovery", T.method(pv.adt, "payload_type"),
                                    "RPSI payload type recovered", detail=repr(r), pc=s3.pc)
                    for s3, r in T.call(s, pv, "bit_string") or []:
                        n[0] += 1
                        okr = isinstance(r, TupV) and isinstance(r.items[0], SliceV) and isinstance(r.items[1], IntV)
                        if okr:
                            view, bits = r.items[0], r.items[1].l
                            okr = solver.entails(s3.pc, flit(eq(view.length().scale(8) - bits, Lb.scale(8) - ov)))
                            J = Lin.atom(("k", T.I.fresh("j")))
                            s4 = s3.clone()
                            s4.pc.append(le(0, J))
                            s4.pc.append(lt(J, Lb - 1))
                            s4.pc.append(lt(J, view.length()))
                            if okr and solver.feasible(s4.pc):
                                gotb = T.I.read_byte(s4, view.base, view.start + J)
                                okr = isinstance(gotb, IntV) and solver.entails(s4.pc, flit(eq(gotb.l, Lin.atom(("byte", bs_.base, (bs_.start + J).key())))))
                        res.compare(bool(okr), "field-recovery", T.method(pv.adt, "bit_string"),
                                    "RPSI: the recovered string has the configured number of bits (8*len - ignored) and its whole bytes are the configured bytes", detail=repr(r)[:200], pc=s3.pc)
                        # the partially used last byte: its leading 8 - ignored bits are the configured ones
                        if okr:
                            from .. import bits as BL
                            s5 = s3.clone()
                            s5.pc.append(ge(Lb, 1))
                            if solver.feasible(s5.pc):
                                n[0] += 1
                                c = next((c for c in range(9) if solver.entails(s5.pc, flit(eq(ov, c)))), None)
                                okl, gotl = False, None
                                if c == 8:
                                    okl = True
                                elif c is not None and solver.entails(s5.pc, flit(ge(view.length(), Lb))):
                                    gotl = T.I.read_byte(s5, view.base, view.start + Lb - 1)
                                    want = Lin.atom(("byte", bs_.base, (bs_.start + Lb - 1).key()))
                                    gb, wb = (BL.to_bits(gotl.l, 8) if isinstance(gotl, IntV) else None), BL.to_bits(want, 8)
                                    if gb is not None and wb is not None:
                                        g2, w2 = BL.from_bits([0] * c + list(gb[c:])), BL.from_bits([0] * c + list(wb[c:]))
                                        okl = g2 is not None and w2 is not None and solver.entails(s5.pc, flit(eq(g2, w2)))
                                res.compare(okl, "field-recovery", T.method(pv.adt, "bit_string"),
                                            "RPSI: the leading 8 - ignored bits of the last string byte are the configured ones (bit-for-bit, for each ignored-bit count 0..8)",
                                            detail=f"ignored = {c}; read back {gotl!r}"[:200], pc=s5.pc)
    nack_encoder(F, D, res)
    # the other half of the NACK round trip: the decoder's transition table (PID first, then PID+j only for a tested set
    # bit j-1, j in 1..=16, nothing skipped) — the same rules C15 applies, reported here because the round trip needs them
    from .c15 import decoders
    fcis_ = {a.split("::")[-1].split("<")[0]: a for a in D.impls_of(FCI_PARSER)}
    from ..interp import Unmodelled
    try:
        n_nd = decoders(F, D, res, {k: v for k, v in fcis_.items() if k == "Nack"})
    except Unmodelled as ex:
        res.unmodelled("NACK decoder", f"{ex}")
        n_nd = 0
    res.floor("NACK decoder transitions compared", n_nd, 3)
    res.floor("round-trip comparisons", n[0], 30)
    res.analysed = {"comparisons": n[0]}
    res.assumptions.append("not decided: NACK decoded set == requested set for every set (composition of two run-length state machines)")


def nack_encoder(F, D, res):
    """(c) the NACK word generator's step relation: bit d-1 for 1 <= d <= 16, a new word iff d > 16, nothing dropped"""
    # the word generator: the iterator behind the private method of the NACK builder that yields [u8; 4] words
    adt0 = [a for a in F.adts if a.endswith("NackBuilder")]
    ents = [it["def"] for it in (D.inherent(adt0[0]) if adt0 else []) if F.bodies.get(it["def"]) and F.bodies[it["def"]].get("ret") is not None and
            "Iterator<Item = [u8; 4]>" in F.types[F.bodies[it["def"]]["ret"]]["s"]]
    nxt = []
    if ents:
        I0 = Interp(F)
        for s0, k0, it0 in I0.inline(ents[0], None, State(), [I0.symbolic(D.ty_index_of_adt(adt0[0]), ("b",))]):
            if isinstance(it0, IterV) and it0.seq[0] == "custom":
                it0 = it0.seq[1]
            if isinstance(it0, StructV):
                d0 = D.impl_item("std::iter::Iterator", it0.adt, "next")
                if d0 and d0 not in nxt:
                    nxt.append(d0)
    res.ob(bool(nxt), "anchor", "NackBuilderEntryIter::next", "NACK word generator exists")
    if nxt:
        adt = [a for a in F.adts if a.endswith("NackBuilder")][0]
        I = Interp(F)
        ent = ents[0]
        recv = I.symbolic(D.ty_index_of_adt(adt), ("b",))
        steps = flush = 0
        for s, k, it in I.inline(ent, None, State(), [recv]):
            if isinstance(it, StructV):
                X = Explorer(F, I)
                rep = IterProtocol(X, s, it, nxt[0], (it.adt,)).run()
                for lr in I.loop_reports:
                    from .c15 import _module
                    if not (lr.fn == nxt[0] or _module(lr.fn) == _module(nxt[0])) or lr.kind != "for":
                        continue
                    # the word in progress: the carried variable into which some step ORs a `1 << amount` term
                    # (identified by what is done to it, not by its name)
                    mask_atoms = set()
                    for delta, new in lr.backs:
                        for a, nv in new.items():
                            if nv is not None and nv != Lin.atom(a) and any(
                                    x[0] == "opq" and isinstance(x[1], tuple) and x[1][0] == "shl" for x in atoms_deep(nv)):
                                mask_atoms.add(a)
                    for delta, new in lr.backs:
                        for a, nv in new.items():
                            if a in mask_atoms and nv is not None and nv != Lin.atom(a):
                                # bitmask' = bitmask | (1 << amt)
                                okb = False
                                for x in atoms_deep(nv):
                                    if x[0] == "opq" and isinstance(x[1], tuple) and x[1][0] == "shl":
                                        amt = Lin.from_key(x[1][2])
                                        one = Lin.from_key(x[1][1])
                                        diffs = [y for y in atoms_deep(amt) if y[0] == "mod" and y[2] == 65536]
                                        # ... and it is OR-ed into the word in progress: the new value is exactly `word | (1 << amt)`
                                        ored = any(y[0] == "opq" and isinstance(y[1], tuple) and y[1][:2] == ("bitop", "BitOr") and nv == Lin.atom(y) and
                                                   {y[1][2], y[1][3]} == {Lin.atom(a).key(), Lin.atom(x).key()} for y in nv.t)
                                        if one == lin(1) and diffs and ored:
                                            dd = Lin.atom(diffs[0])
                                            okb = solver.entails(delta, f_and(flit(eq(amt, dd - 1)), flit(ge(dd, 1)), flit(le(dd, NACK_WINDOW))))
                                steps += 1
                                res.compare(okb, "nack-transition", nxt[0],
                                            "NACK encoder: a sequence number at distance d = (seq - base) mod 2^16 in 1..=16 sets bit d-1 of the current word", detail=f"{nv}"[:200], pc=delta)
                            elif a in mask_atoms and nv is not None:
                                # the word in progress is left as it is: only legitimate for a repeated base (d = 0)
                                diffs = [y for l in delta if l[0] in ("le", "eq", "ne") for y in atoms_deep(l[1]) if y[0] == "mod" and y[2] == 65536]
                                if diffs:
                                    res.compare(solver.entails(delta, flit(eq(Lin.atom(diffs[0]), 0))), "nack-transition", nxt[0],
                                                "NACK encoder: a sequence number that neither sets a bit nor starts a new word is the base itself (d = 0) — no requested number is dropped", pc=delta)
                    for kind, val, delta in lr.exit_kinds:
                        diffs = [y for l in delta if l[0] in ("le", "eq", "ne") for y in atoms_deep(l[1]) if y[0] == "mod" and y[2] == 65536]
                        if kind != "ret" and diffs:
                            res.compare(False, "nack-transition", nxt[0],
                                        "NACK encoder: the scan of the requested numbers is only left by returning a finished word", detail=kind, pc=delta)
                        if kind == "ret":
                            if diffs:
                                flush += 1
                                res.compare(solver.entails(delta, flit(gt(Lin.atom(diffs[0]), NACK_WINDOW))), "nack-transition", nxt[0],
                                            "NACK encoder: a new word is started only when the distance from the base exceeds 16", pc=delta)
                # what a finished word leaves behind: the number that did not fit becomes the base of the next word (it is the
                # element just taken from the sequence), and no base is left only when the sequence is exhausted
                n_post = 0
                for tr, nv in zip(rep.transitions, getattr(rep, "post_values", [])):
                    if tr[1] != "Some" or not isinstance(nv, StructV):
                        continue
                    s2 = tr[4]
                    its = [x for x in nv.fields.values() if isinstance(x, IterV)]
                    opts = [x for x in nv.fields.values() if isinstance(x, StructV) and x.adt == "std::option::Option"]
                    if len(its) != 1 or len(opts) != 1:
                        res.compare(False, "nack-transition", nxt[0], "NACK encoder state: one sequence iterator and one optional base", detail=repr(nv)[:200])
                        continue
                    pos = lin(its[0].pos)
                    sq = its[0].seq
                    while isinstance(sq, tuple) and sq[0] != "coll" and len(sq) > 1:
                        sq = sq[1]
                    coll = sq[1] if isinstance(sq, tuple) and sq[0] == "coll" else None
                    n_post += 1
                    if opts[0].variant == "Some":
                        x = opts[0].fields.get("0")
                        good = isinstance(x, IntV) and len(x.l.t) == 1 and x.l.c == 0 and list(x.l.t.values()) == [1] and \
                            next(iter(x.l.t))[0] == "elem" and solver.entails(s2.pc, flit(eq(Lin.from_key(next(iter(x.l.t))[2]), pos - 1)))
                        res.compare(bool(good), "nack-transition", nxt[0],
                                    "NACK encoder: after a word is flushed, the number that did not fit is the base of the next word", detail=repr(opts[0])[:200], pc=s2.pc)
                    else:
                        good = coll is not None and solver.entails(s2.pc, flit(eq(pos, coll.count())))
                        res.compare(bool(good), "nack-transition", nxt[0],
                                    "NACK encoder: no base is left only when every requested number has been consumed", detail=f"position {pos}", pc=s2.pc)
                res.floor("NACK encoder post-states checked", n_post, 2)
        n_small = nack_small_sets(F, D, res, adt, ent, nxt[0])
        res.floor("NACK encoder: one- and two-element request sets executed exactly", n_small, 18)
        res.floor("NACK encoder bit-setting steps found", steps, 1)
        res.floor("NACK encoder flush paths found", flush, 1)


def nack_small_sets(F, D, res, adt, ent, nd):
    """the start and the end of the run-length encoding, which the per-step relation does not pin down: with exactly one
    requested number e0 the generator yields the word (e0, 0) and then ends; with two numbers e0, e1 = e0 + d it yields
    (e0, 1 << (d-1)) for each d in 1..=16 and (e0, 0), (e1, 0) beyond.  The traversals are short, so they are executed
    exactly on symbolic element values (no unrolling of an unbounded loop is involved)."""
    n = 0

    def words(I, s0, key, limit):
        """all complete runs of next() until None: list of (state, [word values])"""
        runs = [(s0, [])]
        done = []
        for _ in range(limit + 1):
            nxt_ = []
            for s, ws in runs:
                for s2, k2, r in I.inline(nd, None, s, [RefV(key)]):
                    if k2 != "val" or not isinstance(r, StructV):
                        done.append((s2, None))
                    elif r.variant == "None":
                        done.append((s2, ws))
                    else:
                        nxt_.append((s2, ws + [r.fields.get("0")]))
            runs = nxt_
            if not runs:
                break
        for s, ws in runs:
            done.append((s, None))      # did not end within the limit
        return done

    def word_is(pc, w, pid, blp):
        items = w.items if isinstance(w, (ArrV, TupV)) else None
        if not items or len(items) != 4 or not all(isinstance(x, IntV) for x in items):
            return False
        return solver.entails(pc, f_and(flit(eq(items[0].l.scale(256) + items[1].l, pid)), flit(eq(items[2].l.scale(256) + items[3].l, blp))))

    for count, cases in ((1, [None]), (2, list(range(1, NACK_WINDOW + 1)) + ["far"])):
        for case in cases:
            I = Interp(F)
            recv = I.symbolic(D.ty_index_of_adt(adt), ("b",))
            colls = [x for x in recv.fields.values() if isinstance(x, CollV)]
            if len(colls) != 1:
                res.compare(False, "nack-small-sets", ent, "the NACK builder keeps one collection of requested numbers")
                return n
            coll = colls[0]
            e0, e1 = I.seq_elem(coll, lin(0)), I.seq_elem(coll, lin(1))
            st = State()
            st.pc.append(eq(coll.count(), count))
            label = "one requested number"
            if count == 2:
                if case == "far":
                    st.pc.append(gt(e1.l - e0.l, NACK_WINDOW))
                    label = "two requested numbers more than 16 apart"
                else:
                    st.pc.append(eq(e1.l, e0.l + case))
                    label = f"two requested numbers {case} apart"
            try:
                for s, k, it in I.inline(ent, None, st, [recv]):
                    if isinstance(it, IterV) and it.seq[0] == "custom":
                        it = it.seq[1]
                    if not isinstance(it, StructV):
                        continue
                    s0 = s.clone()
                    s0.frame = next(I.frames)
                    key = (s0.frame, "iter-self")
                    s0.env[key] = it
                    for s2, ws in words(I, s0, key, 3):
                        n += 1
                        if ws is None:
                            good = False
                        elif count == 1:
                            good = len(ws) == 1 and word_is(s2.pc, ws[0], e0.l, lin(0))
                        elif case == "far":
                            good = len(ws) == 2 and word_is(s2.pc, ws[0], e0.l, lin(0)) and word_is(s2.pc, ws[1], e1.l, lin(0))
                        else:
                            good = len(ws) == 1 and word_is(s2.pc, ws[0], e0.l, lin(1 << (case - 1)))
                        res.compare(bool(good), "nack-small-sets", nd,
                                    f"NACK encoder, {label}: the words are exactly the RFC 4585 encoding (PID = first number, BLP bit d-1 for a number d later, a new word beyond 16), then the generator ends",
                                    detail=repr(ws)[:240], pc=s2.pc)
            except Unmodelled as ex:
                res.unmodelled(nd, f"exact run on a {count}-element request set: {ex}")
    return n
