"""C03 — SDES packets survive a build-then-parse round trip (per-iteration hypotheses).

The SDES writer and parser are nested loops with element-dependent strides; the round trip is decided
through the hypotheses from which it follows by induction over items and chunks (DESIGN.md §4 C03):
 (a) item: SdesItem::parse, interpreted over the item builder's write log followed by at least one more
     byte (the terminator / next item), accepts, consumes exactly the item's written size, and type(),
     value(), priv_prefix() return what was configured (PRIV and non-PRIV, all lengths incl. empty);
 (b) chunk: the writer emits SSRC, the items contiguously, then a non-empty zero run ending on a 32-bit
     boundary (layout rows of C07); the parser advances by each item's consumed length, stops at the first
     null type byte and consumes exactly pad4(t+1) (chunk rules of C10);
 (c) packet: chunks contiguous from byte 4, header count = number of chunks, walk ends at len - padding.
The induction itself (same offsets after j items / chunks, hence same items in order) is on paper."""
from .. import solver
from ..analysis import Disc
from ..interp import Interp, State, Unmodelled
from ..lin import Lin, eq, f_and, f_not, f_or, flit, ge, gt, le, lin, lt, ne, show_formula, show_pc
from ..values import *
from ..wsumm import BUF, Summary, discover
from . import c07, c10
from .c04 import view_is_copy_of
from .c12 import same_view


class _T:
    """minimal Trip-like holder for view_is_copy_of"""

    def __init__(self, I):
        self.I = I


def run(ctx, res):
    F = ctx.F
    D = Disc(F)
    bs = {B.name: B for B in discover(F)}
    # "the configured value" is what the public setter was given: the setter rules (frame / rebuild / collection idioms,
    # C20) for the builders this property speaks about
    from .c20 import setter_rules
    _adts = sorted(B.adt for B in bs.values() if B.name in ('SdesBuilder', 'SdesChunkBuilder', 'SdesItemBuilder'))
    _ns, _nc, _ = setter_rules(F, D, res, _adts)
    res.floor("(setter, field) pairs of this property's builders checked", _ns, 8)
    n = 0
    B = bs.get("SdesItemBuilder")
    item_parse = D.by_signature(["&[u8]"], "Result<(sdes::SdesItem<", "sdes::")
    res.ob(B is not None and bool(item_parse), "anchor", "SdesItemBuilder", "item builder and item parser exist")
    if B and item_parse:
        S = Summary(F, B, exact=False)
        res.programs += 1
        I = S.I
        b = S.b
        LB = Lin.atom(("len", BUF))
        for wc in S.cases:
            for s2, r in wc.outs:
                # what the chunk parser hands to the item parser: the item followed by at least the terminator;
                # the builder is used with non-zero types only (type 0 is the terminator itself)
                st = s2.clone()
                st.pc.append(ge(LB, wc.n + 1))
                st.pc.append(ne(b.fields["type_"].l, 0))
                I.obligations = []
                outs = I.inline(item_parse[0], None, st, [SliceV(BUF, 0, LB)])
                live = [(s3, v) for s3, k, v in outs if k == "val" and solver.feasible(s3.pc)]
                errs = [(s3, v) for s3, v in live if v.variant == "Err"]
                n += 1
                res.compare(not errs and any(v.variant == "Ok" for _, v in live), "acceptance", item_parse[0],
                            "SdesItem::parse accepts an item the builder wrote, whatever follows it (at least one more byte)",
                            detail="; ".join(f"{v.fields['0']!r} under {show_pc(s3.pc[len(st.pc):])[:160]}" for s3, v in errs)[:500], pc=st.pc, entry=B.wr)
                for s3, v in live:
                    if v.variant != "Ok":
                        continue
                    item, used = v.fields["0"].items
                    n += 1
                    res.compare(isinstance(used, IntV) and solver.entails(s3.pc, flit(eq(used.l, wc.n))), "advance-agreement", item_parse[0],
                                "the parser consumes exactly the size the item writer returned", detail=f"{used!r} vs {wc.n}", pc=s3.pc)
                    acc = {it["name"]: it["def"] for it in D.inherent(item.adt)}
                    for s4, k4, t in I.inline(acc["type_"], None, s3.clone(), [item]):
                        n += 1
                        res.compare(isinstance(t, IntV) and solver.entails(s4.pc, flit(eq(t.l, b.fields["type_"].l))), "field-recovery", acc["type_"], "item type recovered", detail=repr(t), pc=s4.pc)
                    T = _T(I)
                    for s4, k4, val in I.inline(acc["value"], None, s3.clone(), [item]):
                        n += 1
                        view_is_copy_of(T, s4, val, b.fields["value"], "SdesItem::value()", res, acc["value"])
                    if solver.entails(s3.pc, flit(eq(b.fields["type_"].l, 8))):
                        for s4, k4, val in I.inline(acc["priv_prefix"], None, s3.clone(), [item]):
                            n += 1
                            view_is_copy_of(T, s4, val, b.fields["prefix"], "SdesItem::priv_prefix()", res, acc["priv_prefix"])
    res.floor("item round-trip comparisons", n, 8)
    # ---- (b), (c): the layout rows of the SDES chunk/packet writers and the chunk/packet rules of the tokeniser
    sub = type(res)(res.prop, res.level)
    for nm in ("SdesChunkBuilder", "SdesBuilder"):
        Bx = bs.get(nm)
        if not Bx:
            res.ob(False, "anchor", nm, "SDES builder exists")
            continue
        Sx = Summary(F, Bx)
        for wc in Sx.cases:
            for s2, r in wc.outs:
                img = c07.Img(res, Sx.I, s2, Bx, wc.n, Bx.cs)
                c07.region_rows(img, Bx, Sx.b, wc.n)
    before = len(res.violations)
    c10.run(ctx, res)
    res.floors = [f for f in res.floors]
    res.analysed = {"item_comparisons": n, "chunk_packet": "layout rows of C07 for the SDES chunk/packet writers and chunk/packet rules of C10 re-run here"}
    res.assumptions.append("the induction from (a)-(c) to whole-packet equality is a paper argument (DESIGN.md §4 C03); item type 0 excluded as in the property")
