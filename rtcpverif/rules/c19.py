"""C19 — third-party packet types built on the public helpers interoperate.

The public helpers are summarised *parametrically in the packet type P* (P::MIN_PACKET_LEN and
P::PACKET_TYPE symbolic, P::VERSION the trait default), so their contracts hold for any external type:
 check_packet::<P> accepts exactly the well-framed strings of type P (every accepting path entails the
   framing facts; every rejecting path is refuted under RFC well-formedness);
 write_header_unchecked::<P> writes V=2 | P bit | count, P::PACKET_TYPE and the length field of the buffer
   it is given, and returns 4;  write_padding_unchecked writes zeros ending in the count over exactly
   `padding` bytes and returns `padding`;  check_padding rejects exactly non-multiples of 4;
 the count/length/version/type/ssrc readers return the RFC header fields.
The unknown-packet builder/parser, dispatch of unknown types, conversion back through try_as and
embedding in compounds are the C06/C07/C16/C17 (UnknownBuilder), C12 and C14 rules, re-run here for
the unknown builder.  A witness crate under /verif/witness (third-party packet types with different
type numbers and minimum lengths, embedded in a compound through the object-safe writer trait) is
type-checked against /repo's current tree by the thorough tier."""
import os
import subprocess

from .. import solver
from ..analysis import Disc
from ..interp import Interp, State, Unmodelled
from ..lin import Lin, dnf, eq, f_and, f_not, f_or, flit, ge, gt, le, lin, lt, ne, show_formula, show_pc
from ..spec import MAX_BYTES, VERSION
from ..values import *
from ..wire import Header, view_be, view_byte
from ..wsumm import BUF, Summary, discover
from .c01 import input_slice
from . import c06, c07, c17

MIN = Lin.atom(("sym", "P::MIN_PACKET_LEN", "usize"))
PT = Lin.atom(("sym", "P::PACKET_TYPE", "u8"))


def find(F, suffix):
    return [d for d in F.bodies if d.endswith(suffix)]


def param_type(F, d):
    """type index of the generic parameter P of function d"""
    for i, t in enumerate(F.types):
        if t["k"] == "param" and t["name"] == "P":
            return i
    return None


def run(ctx, res):
    F = ctx.F
    D = Disc(F)
    n = 0
    pidx = param_type(F, None)
    res.ob(pidx is not None, "anchor", "P", "generic helpers parameterised by a packet type exist")
    gen = {"gargs": [pidx]}
    # ------------------------------------------------------------------ check_packet::<P>
    cp = find(F, "utils::parser::check_packet")
    res.ob(len(cp) == 1, "anchor", "utils::parser::check_packet", "public header-checking helper exists")
    if cp:
        I = Interp(F)
        inp = input_slice()
        H = Header(inp)
        st = State()
        st.pc.append(ge(MIN, 4))         # a packet has a header (documented assumption for third-party types)
        outs = I.inline(cp[0], gen, st, [inp])
        for o in I.obligations:
            res.ob(o.ok, o.kind, o.fn, o.goal, o.span, pc=o.pc, entry=cp[0])
        wf = [flit(ge(H.len, MIN)), H.version_is(VERSION), flit(eq(H.ptype(), PT)), flit(eq(H.length_field_bytes(), H.len))]
        for s, k, v in outs:
            if k != "val" or not isinstance(v, StructV):
                continue
            n += 1
            if v.variant == "Ok":
                goals = wf + [f_or(f_not(H.pbit_set()), *[flit(ne(b, 0)) for b in H.last_byte_forms()])]
                for g in goals:
                    res.ob(solver.entails(s.pc, g), "helper-contract", cp[0], f"check_packet::<P> accepts only well-framed packets of P: {show_formula(g)}"[:300], pc=s.pc)
            else:
                # refuted for well-framed input with legal padding (non-zero, at most the body)
                p = H.last_byte_forms()[0]
                cases = [wf + [f_not(H.pbit_set())], wf + [H.pbit_set(), flit(ge(p, 1)), flit(le(p, H.len - MIN))]]
                feas = False
                for c in cases:
                    for conj in dnf(f_and(*c)):
                        if solver.feasible(s.pc, conj):
                            feas = True
                res.ob(not feas, "helper-contract", cp[0], f"check_packet::<P> never rejects a well-framed packet of P (outcome {v.fields['0']!r})"[:300], pc=s.pc)
    # ------------------------------------------------------------------ header readers
    readers = {"parse_version": lambda H: H.version_value(), "parse_count": lambda H: H.count(), "parse_packet_type": lambda H: H.ptype(),
               "parse_length": lambda H: H.length_field_bytes(), "parse_ssrc": lambda H: view_be(H.v, 4, 4)}
    for nm, want in readers.items():
        d = find(F, "utils::parser::" + nm)
        res.ob(len(d) == 1, "anchor", "utils::parser::" + nm, "public header reader exists")
        if not d:
            continue
        I = Interp(F)
        inp = input_slice()
        H = Header(inp)
        st = State()
        st.pc.append(ge(inp.length(), 8))
        for s, k, r in I.inline(d[0], None, st, [inp]):
            n += 1
            res.ob(isinstance(r, IntV) and solver.entails(s.pc, flit(eq(r.l, want(H)))), "helper-contract", d[0], f"{nm}() returns the RFC header field: {want(H)}"[:200], detail=repr(r)[:200], pc=s.pc)
    # ------------------------------------------------------------------ write_header_unchecked::<P>
    wh = find(F, "utils::writer::write_header_unchecked")
    res.ob(len(wh) == 1, "anchor", "utils::writer::write_header_unchecked", "public header writer exists")
    if wh:
        I = Interp(F)
        LB = Lin.atom(("len", BUF))
        pad = IntV(Lin.atom(("sym", "padding", "u8")), "u8")
        cnt = IntV(Lin.atom(("sym", "count", "u8")), "u8")
        st = State()
        st.pc += [ge(LB, 4), eq(Lin.atom(("mod", LB.key(), 4)), 0), le(LB, MAX_BYTES), le(cnt.l, 31)]
        outs = I.inline(wh[0], gen, st, [pad, cnt, SliceV(BUF, 0, LB)])
        for o in I.obligations:
            res.ob(o.ok, o.kind, o.fn, o.goal, o.span, pc=o.pc, entry=wh[0])
        for s, k, r in outs:
            n += 1
            res.ob(isinstance(r, IntV) and r.l == lin(4), "helper-contract", wh[0], "write_header_unchecked returns 4", detail=repr(r))
            base = 160 if solver.entails(s.pc, flit(ge(pad.l, 1))) else 128 if solver.entails(s.pc, flit(eq(pad.l, 0))) else None
            b0, b1 = I.read_byte(s, BUF, lin(0)), I.read_byte(s, BUF, lin(1))
            b2, b3 = I.read_byte(s, BUF, lin(2)), I.read_byte(s, BUF, lin(3))
            res.ob(base is not None and solver.entails(s.pc, flit(eq(b0.l, cnt.l + base))), "helper-contract", wh[0], "header byte 0 = V=2 | P bit iff padding > 0 | count", detail=repr(b0)[:200], pc=s.pc)
            res.ob(solver.entails(s.pc, flit(eq(b1.l, PT))), "helper-contract", wh[0], "header byte 1 = P::PACKET_TYPE", detail=repr(b1), pc=s.pc)
            res.ob(solver.entails(s.pc, flit(eq((b2.l.scale(256) + b3.l + 1).scale(4), LB))), "helper-contract", wh[0], "length field = buffer length / 4 - 1 (big-endian, lossless)", pc=s.pc)
    # ------------------------------------------------------------------ write_padding_unchecked / check_padding
    wp = find(F, "utils::writer::write_padding_unchecked")
    res.ob(len(wp) == 1, "anchor", "utils::writer::write_padding_unchecked", "public trailer writer exists")
    if wp:
        I = Interp(F)
        LB = Lin.atom(("len", BUF))
        pad = IntV(Lin.atom(("sym", "padding", "u8")), "u8")
        st = State()
        st.pc.append(ge(LB, pad.l))
        outs = I.inline(wp[0], None, st, [pad, SliceV(BUF, 0, LB)])
        for o in I.obligations:
            res.ob(o.ok, o.kind, o.fn, o.goal, o.span, pc=o.pc, entry=wp[0])
        for s, k, r in outs:
            n += 1
            res.ob(isinstance(r, IntV) and solver.entails(s.pc, flit(eq(r.l, pad.l))), "helper-contract", wp[0], "write_padding_unchecked returns the padding it wrote", detail=repr(r), pc=s.pc)
            if solver.entails(s.pc, flit(ge(pad.l, 1))):
                last = I.read_byte(s, BUF, pad.l - 1)
                res.ob(solver.entails(s.pc, flit(eq(last.l, pad.l))), "helper-contract", wp[0], "the last padding octet is the count", detail=repr(last), pc=s.pc)
                J = Lin.atom(("k", I.fresh("j")))
                s1 = s.clone()
                s1.pc += [le(0, J), lt(J, pad.l - 1)]
                if solver.feasible(s1.pc):
                    z = I.read_byte(s1, BUF, J)
                    res.ob(solver.entails(s1.pc, flit(eq(z.l, 0))), "helper-contract", wp[0], "the other padding octets are zero", detail=repr(z), pc=s1.pc)
                ws = s.mem.get(BUF, ())
                res.ob(all(solver.entails(s.pc, flit(le(w.end, pad.l))) for w in ws), "helper-contract", wp[0], "nothing is written beyond `padding` bytes", pc=s.pc)
            else:
                res.ob(not s.mem.get(BUF), "helper-contract", wp[0], "no padding: nothing is written", pc=s.pc)
    ckp = find(F, "utils::writer::check_padding")
    if ckp:
        I = Interp(F)
        pad = IntV(Lin.atom(("sym", "padding", "u8")), "u8")
        for s, k, v in I.inline(ckp[0], None, State(), [pad]):
            n += 1
            m4 = eq(Lin.atom(("mod", pad.l.key(), 4)), 0)
            if v.variant == "Ok":
                res.ob(solver.entails(s.pc, flit(m4)), "helper-contract", ckp[0], "check_padding accepts only multiples of 4", pc=s.pc)
            else:
                e = v.fields["0"]
                res.ob(solver.entails(s.pc, f_not(flit(m4))) and e.variant == "InvalidPadding" and solver.entails(s.pc, flit(eq(e.fields["padding"].l, pad.l))), "helper-contract", ckp[0],
                       "check_padding rejects only non-multiples of 4, reporting the value", pc=s.pc)
    res.floor("helper contract outcomes", n, 14)
    # ------------------------------------------------------------------ the unknown builder (raw third-party packets)
    ub = [B for B in discover(F) if B.name == "UnknownBuilder"]
    res.ob(bool(ub), "anchor", "UnknownBuilder", "raw packet builder exists")
    if ub:
        B = ub[0]
        S = Summary(F, B)
        c06.check_builder(res, F, B, S)
        for wc in S.cases:
            for s2, r in wc.outs:
                img = c07.Img(res, S.I, s2, B, wc.n, B.cs)
                c07.rows_for(img, B, S.b, wc.n)
    # ------------------------------------------------------------------ ... and are accepted back by the unknown-packet parser
    from .c09 import unknown_must_accept
    n_acc = 0
    for dd, adt, kind in D.parse_entries():
        if adt.split("::")[-1].split("<")[0] == "Unknown":
            n_acc += unknown_must_accept(F, res, dd)
    res.floor("reject paths of the unknown-packet parser refuted for well-framed input", n_acc, 3)
    res.analysed = {"helper_outcomes": n, "unknown_parser_reject_paths_refuted": n_acc}
    res.assumptions.append("third-party types declare MIN_PACKET_LEN >= 4 and respect the documented helper preconditions (buffer of the announced size, count <= 31)")


def thorough(ctx, res):
    """type-level witnesses: a third-party crate using the public traits/helpers compiles against /repo's current
    tree (object safety of the writer trait, trait bounds of try_as / add_packet)"""
    from ..facts import VERIF, REPO
    w = os.path.join(VERIF, "witness")
    if not os.path.isdir(w):
        res.ob(False, "witness", "witness crate", "witness crate present")
        return
    env = dict(os.environ, CARGO_NET_OFFLINE="true", CARGO_TARGET_DIR=os.path.join(VERIF, ".cache", "witness-target"), RTCP_REPO=REPO)
    cfg = os.path.join(w, ".cargo")
    os.makedirs(cfg, exist_ok=True)
    with open(os.path.join(cfg, "config.toml"), "w") as fh:
        fh.write(f'[patch.crates-io]\n\n[net]\noffline = true\n')
    # the witness depends on the repository by path
    toml = open(os.path.join(w, "Cargo.toml.in")).read().replace("@REPO@", REPO)
    with open(os.path.join(w, "Cargo.toml"), "w") as fh:
        fh.write(toml)
    lock = os.path.join(REPO, "Cargo.lock")
    if os.path.exists(lock):
        import shutil
        shutil.copy(lock, os.path.join(w, "Cargo.lock"))
    r = subprocess.run(["cargo", "check", "--offline"], cwd=w, env=env, capture_output=True, text=True)
    res.ob(r.returncode == 0, "witness", "witness crate", "third-party packet types built on the public helpers type-check against the current tree (object-safe writer, try_as bounds, compound embedding)",
           detail=r.stderr[-600:] if r.returncode else "")
