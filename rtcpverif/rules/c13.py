"""C13 — trailing padding is transparent to packet contents.

Let C = len - p be the size of the unpadded packet.  Decided, per packet type:
 R1 footprint: on accepting paths with the padding bit set, every byte of the buffer that a content
    accessor's result or decision depends on lies below C (the count byte itself excepted);
 R3 relational agreement (SR, RR, APP, BYE, feedback): the accessor summaries of the padded packet
    (len := C + p) and of the unpadded packet (len := C, P bit cleared, length field for C) are
    compared pairwise under their joint path condition: same variant, same values, same views;
 R4 acceptance: no rejecting path of the parser is consistent with "the unpadded packet was accepted
    and legal padding (multiple of 4, zero octets then the count) was added";
 SDES (eager tokeniser with loops): R1 on every chunk/item view and the walk ending exactly at C."""
from .. import solver
from ..analysis import Disc, Explorer, PARSER_TRAIT, FCI_PARSER, opaque_parse_hook
from ..interp import Interp, Unmodelled
from ..lin import (Lin, atoms_deep, dnf, eq, f_and, f_not, f_or, flit, ge, gt, le, lin, lt, ne, show_formula,
                   subst_deep, show_pc)
from ..spec import PACKET_TYPES, VERSION
from ..values import *
from ..wire import Header, byte
from .c01 import input_slice, construction_discipline
from .c08 import short, data_view

HEADERISH = ("padding", "header_data", "version", "type_", "subtype", "length", "count", "builder", "builder_owned", "try_as")
CSYM = Lin.atom(("sym", "C", "usize"))


def content_path(path):
    """is this exploration path made of content accessors only"""
    for p in path[1:]:
        base = p.split("::<")[0]
        if base in HEADERISH or base.startswith("From->") or base.startswith("TryFrom->"):
            return False
    return True


def flatten(v, out):
    if isinstance(v, IntV):
        out.append(("int", v.l))
    elif isinstance(v, BoolV):
        out.append(("bool", v.f))
    elif isinstance(v, SliceV):
        out.append(("slice", v.base, v.start, v.end))
    elif isinstance(v, ArrV):
        out.append(("arr", len(v.items)))
        for x in v.items:
            flatten(x, out)
    elif isinstance(v, TupV):
        for x in v.items:
            flatten(x, out)
    elif isinstance(v, IterV):
        out.append(("iter", repr(v.seq[0])))
        flat_seq(v.seq, out)
    elif isinstance(v, StructV):
        out.append(("variant", v.adt, v.variant))
        for k, x in v.fields.items():
            if not k.startswith("__"):
                flatten(x, out)
    elif isinstance(v, CollV):
        out.append(("coll", v.kind))
    else:
        out.append(("other", type(v).__name__))


def flat_seq(seq, out):
    for x in seq[1:]:
        if isinstance(x, V):
            flatten(x, out)
        elif isinstance(x, Lin):
            out.append(("int", x))
        elif isinstance(x, tuple) and x and isinstance(x[0], str):
            flat_seq(x, out)


def lins_of(obs):
    for o in obs:
        if o[0] == "int":
            yield o[1]
        elif o[0] == "slice":
            yield o[2]
            yield o[3]


def subst_obs(obs, m):
    out = []
    for o in obs:
        if o[0] == "int":
            out.append(("int", subst_deep(o[1], m)))
        elif o[0] == "slice":
            out.append(("slice", o[1], subst_deep(o[2], m), subst_deep(o[3], m)))
        elif o[0] == "bool":
            out.append(("bool", subst_formula(o[1], m)))
        else:
            out.append(o)
    return out


def subst_formula(f, m):
    k = f[0]
    if k in ("true", "false"):
        return f
    if k == "lit":
        l = f[1]
        return flit((l[0], subst_deep(l[1], m))) if l[0] in ("le", "eq", "ne") else f
    parts = [subst_formula(x, m) for x in f[1]]
    return f_and(*parts) if k == "and" else f_or(*parts)


def subst_pc(pc, m):
    out = []
    for l in pc:
        if l[0] in ("le", "eq", "ne"):
            l2 = (l[0], subst_deep(l[1], m))
            if l2[1].is_const():
                c = l2[1].c
                truth = (c <= 0) if l2[0] == "le" else (c == 0) if l2[0] == "eq" else (c != 0)
                if truth:
                    continue
            out.append(l2)
        elif l[0] == "b":
            out.append(l)
    return out


def rename_apart(lins_and_pc_atoms, suffix):
    m = {}
    for a in lins_and_pc_atoms:
        if a[0] == "sym" and "@" in a[1] and "@it" not in a[1]:
            # loop-havoc symbols are existential per run; iterator-state symbols ("@it") stand for "the same
            # iterator state on both sides" and keep their name
            m[a] = Lin.atom(("sym", a[1] + suffix, a[2]))
        elif a[0] == "opq":
            m[a] = Lin.atom(("opq", (a[1], suffix), a[2]))
    return m


def all_atoms(pc, obs=()):
    s = set()
    for l in pc:
        if l[0] in ("le", "eq", "ne"):
            atoms_deep(l[1], s)
    for L in lins_of(obs):
        atoms_deep(L, s)
    return s


def canon_k(obs_or_pc_atoms):
    """loop/element indices are universally quantified: same canonical name on both sides, by order"""
    ks = sorted((a for a in obs_or_pc_atoms if a[0] == "k"), key=lambda a: int(a[1].split("#")[-1]) if "#" in a[1] else 0)
    return {a: Lin.atom(("k", f"K{i}")) for i, a in enumerate(ks)}


class Summ:
    """accessor summaries of one accepting outcome: path -> [(full pc, observations)]"""

    def __init__(self):
        self.by_path = {}
        self.records = []   # (path, pre pc length, post state, result) for R1


def summarise(F, D, adt, d, covered, entry_of):
    I = Interp(F)
    inp = input_slice()
    outs = I.run(d, [inp])
    I.n_parse_obligations = len(I.obligations)      # what the parser itself does (the methods explored below are C01's)
    I.call_hook = opaque_parse_hook(F, {k: v for k, v in entry_of.items() if v != adt and k != d})
    H = Header(inp)
    oks = []
    for s, k, v in outs:
        if k == "val" and isinstance(v, StructV) and v.variant == "Ok":
            X = Explorer(F, I)
            X.covered_elsewhere = set()      # FCI views are explored inline: the view handed to them matters here
            S = Summ()

            def on_method(path, st, recv, md, mouts, S=S):
                if not content_path(path):
                    return
                for s2, k2, r in mouts:
                    if k2 != "val":
                        continue
                    obs = []
                    flatten(r, obs)
                    S.by_path.setdefault(path, []).append((list(s2.pc), obs))
                    S.records.append((path, len(st.pc), s2, r, obs))

            X.on_method = on_method
            # content methods only: skip conversions (they re-parse, covered by C12)
            X.explore(s, v.fields["0"], (short(adt),))
            padded = solver.entails(s.pc, H.pbit_set())
            unpadded = solver.entails(s.pc, f_not(H.pbit_set()))
            oks.append((s, v.fields["0"], S, padded, unpadded, X))
    return I, inp, H, outs, oks


def p_atom_of(H):
    return H.last_byte_forms()[0]


def run(ctx, res):
    F = ctx.F
    D = Disc(F)
    entries = D.parse_entries()
    covered, _ = construction_discipline(F, entries)
    entry_of = {e[0]: e[1] for e in entries if e[2] != "inherent"}
    n_r1 = n_r3 = n_r4 = 0
    types = 0
    per = {}
    for adt in D.impls_of(PARSER_TRAIT):
        name = short(adt)
        if name not in PACKET_TYPES:
            continue
        types += 1
        d = D.impl_item(PARSER_TRAIT, adt, "parse")
        try:
            I, inp, H, outs, oks = summarise(F, D, adt, d, covered, entry_of)
            from ..core import arithmetic
            arithmetic(res, I, d, upto=I.n_parse_obligations)
        except Unmodelled as ex:
            res.unmodelled(d, str(ex))
            continue
        for sp, fn, what in I.unmodelled:
            res.unmodelled(fn, what, sp)
        P = p_atom_of(H)
        LEN = H.len
        padded = [o for o in oks if o[3]]
        unpadded = [o for o in oks if o[4]]
        res.ob(bool(padded) and bool(unpadded) and len(padded) + len(unpadded) == len(oks), "anchor", d,
               f"{name}: every accepting path decides the padding bit")
        per[name] = {"accepting_paths": len(oks), "padded": len(padded), "content_paths": sorted({'/'.join(p) for o in oks for p in o[2].by_path})[:40]}
        # ---------------- R1 footprint
        padded_frame = [H.pbit_set(), flit(ge(P, 4)), flit(eq(Lin.atom(("mod", P.key(), 4)), 0))]
        # the count byte is the last byte of the packet; on an accepted packet `len - 1` and `4 * (length field + 1) - 1`
        # are the same offset, so both spellings of that cell are the same symbol here
        last_cell = ("byte", inp.base, (Lin.atom(("len", inp.base)) - 1).key())
        mP = {("len", inp.base): CSYM + P, last_cell: P}
        hdr_u = {byte(inp.base, 0).single_atom()[0]: byte(inp.base, 0) - 32,
                 byte(inp.base, 2).single_atom()[0]: Lin.atom(("sym", "U2", "u8")),
                 byte(inp.base, 3).single_atom()[0]: Lin.atom(("sym", "U3", "u8")),
                 ("len", inp.base): CSYM}
        # contexts: for lazily parsed types "the unpadded packet was accepted" (each accepting unpadded path);
        # for SDES (eager, loops) the padded path alone
        ctxs = []
        if name == "Sdes":
            ctxs = [[]]
        else:
            for su, vu, Su, _, _, _ in unpadded:
                m2 = dict(hdr_u)
                m2.update(rename_apart(all_atoms(su.pc), "~u"))
                ctxs.append(subst_pc(su.pc, m2))
        frame_lits = []
        for f in padded_frame:
            frame_lits.extend(dnf(subst_formula(f, mP))[0])
        for s, v, S, _, _, X in padded:
            for path, n0, s2, r, obs in S.records:
                delta = s2.pc[n0:]
                patom = P.single_atom()[0]
                byte_offs = [Lin.from_key(a[2]) for a in all_atoms(delta, obs) if a[0] == "byte" and a[1] == inp.base and a != patom]
                ends = [ob[3] for ob in obs if ob[0] == "slice" and ob[1] == inp.base]
                if not byte_offs and not ends:
                    continue
                PCp = subst_pc(s2.pc, mP)
                for cx in ctxs:
                    joint = PCp + cx + frame_lits
                    if cx and not solver.feasible(joint):
                        continue
                    for o in byte_offs:
                        o2 = subst_deep(o, mP)
                        # the count byte itself (the last byte of the packet, however its offset is spelled) is excepted
                        if not o2.is_const() and solver.entails(joint, flit(eq(o2, CSYM + P - 1))):
                            continue
                        n_r1 += 1
                        res.ob(solver.entails(joint, flit(lt(o2, CSYM))), "padding-footprint", "/".join(path),
                               f"{name}: a content accessor depends only on bytes below C = len - padding: offset {o2} < C", pc=joint, entry=d)
                    for e_ in ends:
                        n_r1 += 1
                        e2 = subst_deep(e_, mP)
                        res.ob(solver.entails(joint, flit(le(e2, CSYM))), "padding-footprint", "/".join(path),
                               f"{name}: a returned view ends at or below C = len - padding: {e2} <= C", pc=joint, entry=d)
            if name == "Sdes":
                # the chunk walk ends exactly at C
                found = False
                for rep in I.loop_reports:
                    if rep.fn == d:
                        for a, init in rep.carried:
                            # (the walk's position is the carried counter, counted from wherever the code starts it: from
                            # byte 4, or from 0 with the header added at each use)
                            shift = 4 - lin(init) if lin(init).is_const() else lin(0)
                            if solver.entails(s.pc, flit(eq(Lin.atom(a) + shift, LEN - P))):
                                found = True
                n_r1 += 1
                res.ob(found, "walk-end", d, "Sdes: the chunk walk of a padded packet ends exactly at len - padding", pc=s.pc, entry=d)
        if name == "Sdes":
            continue
        # ---------------- R3 relational agreement
        for sp_, vp, Sp, _, _, _ in padded:
            for su, vu, Su, _, _, _ in unpadded:
                paths = set(Sp.by_path) | set(Su.by_path)
                for path in sorted(paths):
                    lp, lu = Sp.by_path.get(path, []), Su.by_path.get(path, [])
                    if not lp or not lu:
                        # a content path present on one side only (e.g. below an Option that is None on the other side)
                        continue
                    for pcp, obp in lp:
                        for pcu, obu in lu:
                            ap = all_atoms(pcp, obp)
                            au = all_atoms(pcu, obu)
                            mk_p, mk_u = canon_k(ap), canon_k(au)
                            m1 = dict(mP)
                            m1.update(mk_p)
                            m2 = dict(hdr_u)
                            m2.update(mk_u)
                            m2.update(rename_apart(au, "~u"))
                            PCp = subst_pc(pcp, m1)
                            PCu = subst_pc(pcu, m2)
                            Op, Ou = subst_obs(obp, m1), subst_obs(obu, m2)
                            joint = PCp + PCu
                            extra = []
                            for f in padded_frame:
                                extra.extend(dnf(subst_formula(f, m1))[0])
                            joint = joint + extra
                            if not solver.feasible(joint):
                                continue
                            if hooked_tag(obp) is not None and hooked_tag(obu) is not None and hooked_tag(obp) != hooked_tag(obu):
                                # an uninterpreted parser applied on both sides: value/error pairs are compared with
                                # their own kind (equal views give equal outcomes)
                                continue
                            n_r3 += 1
                            ok, why = same_obs(joint, Op, Ou)
                            res.compare(ok, "padding-invariance", "/".join(path),
                                        f"{name}: accessor result on the padded packet equals the result on the unpadded packet", detail=why, pc=joint, entry=d)
        # ---------------- R4 acceptance
        for s, k, v in outs:
            if not (k == "val" and isinstance(v, StructV) and v.variant == "Err"):
                continue
            for su, vu, Su, _, _, _ in unpadded:
                au = all_atoms(su.pc)
                m2 = dict(hdr_u)
                m2.update(rename_apart(au, "~u"))
                PCu = subst_pc(su.pc, m2)
                PCe = subst_pc(s.pc, mP)
                frame = list(padded_frame) + [H.version_is(VERSION), flit(eq(H.ptype(), PACKET_TYPES[name]["pt"])),
                                              flit(eq(H.length_field_bytes(), LEN))]
                # zero padding octets, instantiated for the bytes the rejecting path looks at
                for a in all_atoms(s.pc):
                    if a[0] == "byte" and a[1] == inp.base:
                        o = Lin.from_key(a[2])
                        frame.append(f_or(flit(lt(o, LEN - P)), flit(ge(o, LEN - 1)), flit(eq(Lin.atom(a), 0))))
                feas = False
                for conj in dnf(f_and(*[subst_formula(f, mP) for f in frame])):
                    if solver.feasible(PCe + PCu + conj):
                        feas = True
                        break
                n_r4 += 1
                res.ob(not feas, "padding-acceptance", d,
                       f"{name}: adding legal padding to an accepted packet never leads to {v.fields['0']!r}"[:300], pc=PCe + PCu, entry=d)
    res.floor("padded packet types analysed", types, 7)
    res.floor("footprint obligations", n_r1, 60)
    res.floor("padded/unpadded accessor outcome pairs compared", n_r3, 40)
    res.floor("rejecting paths refuted for padded accepted packets", n_r4, 40)
    res.analysed = per


def hooked_tag(obs):
    for o in obs:
        if o[0] == "variant" and o[2] in ("<parsed>", "<error-of>"):
            return o[2]
    return None


def same_obs(pc, a, b):
    if len(a) != len(b):
        return False, f"different shapes: {len(a)} vs {len(b)} observations"
    for x, y in zip(a, b):
        if x[0] != y[0]:
            return False, f"{x[0]} vs {y[0]}"
        if x[0] == "int":
            if not solver.entails(pc, flit(eq(x[1], y[1]))):
                return False, f"{x[1]} vs {y[1]}"
        elif x[0] == "slice":
            if x[1] != y[1] or not solver.entails(pc, f_and(flit(eq(x[2], y[2])), flit(eq(x[3], y[3])))):
                return False, f"view [{x[2]}..{x[3]}) vs [{y[2]}..{y[3]})"
        elif x[0] == "bool":
            # x <=> y under pc: every disjunct of either side entails the other side
            if not (all(solver.entails(pc + d, y[1]) for d in dnf(x[1])) and all(solver.entails(pc + d, x[1]) for d in dnf(y[1]))):
                return False, "boolean results differ"
        elif x != y:
            return False, f"{x} vs {y}"
    return True, ""
