"""C18 — parse errors tell the truth about the input.

Every Err outcome of every parser (typed, generic, unknown, compound, report block, FCI) and of
every conversion is checked against the facts of its path: version errors carry the real version
(which is not 2), type mismatches the real and the requested type (which differ), truncated /
too-large errors have expected > actual / expected < actual; plus the two positional clauses
(short input -> Truncated{MIN, len}; wrong total length -> Truncated/TooLarge{header length, len})."""
from .. import solver
from ..analysis import Disc, Explorer, PARSER_TRAIT
from ..interp import Interp, Unmodelled
from ..lin import Lin, eq, f_and, f_not, f_or, flit, ge, gt, le, lin, lt, ne, show_formula
from ..spec import PACKET_TYPES, UNKNOWN_MIN, VERSION
from ..values import *
from ..wire import Header
from .c01 import input_slice, construction_discipline
from .c08 import short, data_view

ERR = "RtcpParseError"


def err_payload(v):
    if isinstance(v, StructV) and v.variant == "Err":
        e = v.fields["0"]
        if isinstance(e, StructV) and e.adt == ERR:
            return e
    return None


def check_err(res, s, e, H, own_pt, fn, entry):
    """H: header of the byte string given to the failing parser (or None when the error comes from a
    nested sub-parser whose input is a sub-slice); own_pt: requested packet type or None"""
    var = e.variant
    f = e.fields
    ints = all(isinstance(x, IntV) for x in f.values())
    if var == "UnsupportedVersion":
        v = f["0"]
        goal = f_and(flit(eq(v.l, H.version_value())), flit(ne(v.l, VERSION))) if H is not None and isinstance(v, IntV) else None
        what = "UnsupportedVersion(v): v is the input's version and v != 2"
    elif var == "PacketTypeMismatch":
        a, r = f["actual"], f["requested"]
        if H is not None and ints and own_pt is not None:
            goal = f_and(flit(eq(a.l, H.ptype())), flit(eq(r.l, own_pt)), flit(ne(a.l, r.l)))
        else:
            goal = None
        what = "PacketTypeMismatch{actual, requested}: actual is the input's type byte, requested the parser's own, and they differ"
    elif var == "Truncated":
        goal = flit(gt(f["expected"].l, f["actual"].l)) if ints else None
        what = "Truncated{expected, actual}: expected > actual"
    elif var == "TooLarge":
        goal = flit(lt(f["expected"].l, f["actual"].l)) if ints else None
        what = "TooLarge{expected, actual}: expected < actual"
    else:
        return 0
    if goal is None:
        res.ob(False, "err-truthful", fn, what, detail="payload is not an integer expression of the input", pc=s.pc, entry=entry)
        return 1
    ok = solver.entails(s.pc, goal)
    res.ob(ok, "err-truthful", fn, f"{what}: {show_formula(goal)}", pc=s.pc, entry=entry)
    return 1


def positional(res, outs, H, minlen, pt, fn):
    """clause 1: len < MIN  => Err(Truncated{MIN, len}); clause 2: len >= MIN, version 2, right type,
    len != header length => Err(Truncated|TooLarge{header length, len})"""
    n = 0
    L = H.length_field_bytes()
    for s, k, v in outs:
        if k != "val":
            continue
        e = err_payload(v)
        # clause 1
        for s1 in Interp_assume(s, flit(lt(H.len, minlen))):
            n += 1
            ok = e is not None and e.variant == "Truncated" and all(isinstance(x, IntV) for x in e.fields.values()) and \
                solver.entails(s1.pc, f_and(flit(eq(e.fields["expected"].l, minlen)), flit(eq(e.fields["actual"].l, H.len))))
            res.ob(ok, "err-positional", fn, f"input shorter than {minlen} bytes is reported as Truncated{{expected: {minlen}, actual: len}}",
                   detail=f"outcome: {v!r}"[:300], pc=s1.pc, entry=fn)
        # clause 2
        conds = [flit(ge(H.len, minlen)), H.version_is(VERSION), flit(ne(H.len, L))]
        if pt is not None:
            conds.append(flit(eq(H.ptype(), pt)))
        for s2 in Interp_assume(s, f_and(*conds)):
            n += 1
            ok = False
            if e is not None and e.variant in ("Truncated", "TooLarge") and all(isinstance(x, IntV) for x in e.fields.values()):
                ok = solver.entails(s2.pc, f_and(flit(eq(e.fields["expected"].l, L)), flit(eq(e.fields["actual"].l, H.len))))
            res.ob(ok, "err-positional", fn,
                   "version-2 input of the right type whose length differs from 4*(length field+1) is reported as Truncated/TooLarge{expected: header length, actual: len}",
                   detail=f"outcome: {v!r}"[:300], pc=s2.pc, entry=fn)
    return n


def Interp_assume(s, f):
    from ..lin import dnf
    out = []
    for conj in dnf(f):
        if solver.feasible(s.pc, conj):
            s1 = s.clone()
            s1.pc.extend(conj)
            out.append(s1)
    return out


def run(ctx, res):
    F = ctx.F
    D = Disc(F)
    entries = D.parse_entries()
    covered, _ = construction_discipline(F, entries)
    n_err = 0
    n_pos = 0
    n_conv = 0
    per = {}
    for d, adt, kind in entries:
        name = short(adt)
        I = Interp(F)
        X = Explorer(F, I)
        X.covered_elsewhere = set(covered) - {adt}
        conv_errs = []

        def on_method(path, st, recv, md, outs, conv_errs=conv_errs):
            for s2, k2, r in outs:
                if k2 == "val" and err_payload(r) is not None:
                    conv_errs.append((path, recv, md, s2, r))

        X.on_method = on_method
        try:
            outs = I.run(d, [input_slice()])
        except Unmodelled as ex:
            res.unmodelled(d, str(ex))
            continue
        from ..core import arithmetic
        arithmetic(res, I, d)
        from ..analysis import opaque_parse_hook
        I.call_hook = opaque_parse_hook(F, {e[0]: e[1] for e in entries if e[2] != "inherent" and e[1] != adt})
        view = input_slice()
        H = Header(view)
        own_pt = PACKET_TYPES[name]["pt"] if name in PACKET_TYPES else None
        errs = 0
        for s, k, v in outs:
            if k != "val":
                continue
            e = err_payload(v)
            if e is not None:
                # errors raised by nested sub-parsers (SDES chunk/item) speak about their own sub-slice
                errs += check_err(res, s, e, H, own_pt, d, d)
            elif isinstance(v, StructV) and v.variant == "Ok":
                X.explore(s, v.fields["0"], (name,))
        n_err += errs
        if kind == "packet":
            minlen = PACKET_TYPES[name]["min"] if name in PACKET_TYPES else UNKNOWN_MIN
            pt = own_pt
            if F.adts[adt]["is_enum"]:
                # generic parser: the clauses are those of the parser the type byte dispatches to
                rest = outs
                for tname, row in PACKET_TYPES.items():
                    sub = []
                    for s, k, v in outs:
                        for s1 in Interp_assume(s, f_and(flit(ge(H.len, UNKNOWN_MIN)), flit(eq(H.ptype(), row["pt"])))):
                            sub.append((s1, k, v))
                    n_pos += positional(res, sub, H, row["min"], row["pt"], d)
                sub = []
                for s, k, v in outs:
                    for s1 in Interp_assume(s, f_and(*[flit(ne(H.ptype(), row["pt"])) for row in PACKET_TYPES.values()])):
                        sub.append((s1, k, v))
                n_pos += positional(res, sub, H, UNKNOWN_MIN, None, d)
                # the generic parser's own minimum
                short_in = []
                for s, k, v in outs:
                    for s1 in Interp_assume(s, flit(lt(H.len, UNKNOWN_MIN))):
                        short_in.append((s1, k, v))
                n_pos += positional(res, short_in, H, UNKNOWN_MIN, None, d)
            else:
                n_pos += positional(res, outs, H, minlen, pt, d)
        elif kind == "inherent" and name == "Compound":
            # compound parsing: a compound holds at least one packet, so its minimum is the smallest packet's (clause 1 only)
            short_in = []
            for s, k, v in outs:
                for s1 in Interp_assume(s, flit(lt(H.len, UNKNOWN_MIN))):
                    short_in.append((s1, k, v))
            n_pos += positional(res, short_in, H, UNKNOWN_MIN, None, d)
        # conversions and FCI extraction on parsed values
        for path, recv, md, s2, r in conv_errs:
            e = err_payload(r)
            b = F.bodies[md]
            tgt = None
            rt = F.types[b["ret"]] if isinstance(b.get("ret"), int) else None
            if rt and rt.get("def") == "std::result::Result":
                okt = F.types[rt["args"][0]]
                tgt = okt.get("def")
            if path[-1].startswith("try_as::<"):
                tgt_name = path[-1][len("try_as::<"):-1]
            else:
                tgt_name = short(tgt) if tgt else None
            tgt_pt = PACKET_TYPES.get(tgt_name, {}).get("pt")
            pv = recv
            if isinstance(pv, StructV) and F.adts.get(pv.adt, {}).get("is_enum"):
                pv = pv.fields.get("0")
            vw = data_view(pv)
            Hc = Header(vw) if vw is not None else None
            n_conv += check_err(res, s2, e, Hc, tgt_pt, md, d)
        for sp, fn, what in I.unmodelled:
            res.unmodelled(fn, what, sp)
        per[d] = {"outcomes": len(outs), "err_outcomes_checked": errs, "conversion_errors": len(conv_errs)}
    # an `Unknown` value carries no type invariant (Unknown::parse accepts every packet type and `Packet::from(unknown)` is
    # public): its conversions are checked on a fully symbolic unknown packet, not only on those the generic parser produces
    n_unk = 0
    P_ = next((a for a in D.impls_of(PARSER_TRAIT) if F.adts[a]["is_enum"]), None)
    unk_ = [a for a in D.impls_of(PARSER_TRAIT) if short(a) == "Unknown"]
    ent_ = {D.impl_item(PARSER_TRAIT, a, "parse"): a for a in D.impls_of(PARSER_TRAIT) if a != P_}
    if P_ and unk_:
        from ..analysis import opaque_parse_hook
        from ..interp import State
        uvar = next((vd["name"] for vd in F.adts[P_]["variants"] if vd["fields"] and F.types[vd["fields"][0]["t"]].get("def") == unk_[0]), None)
        for cd, tgt, by_ref, tr in D.conversions_from(P_) + D.conversions_from(unk_[0]):
            if tr != "std::convert::TryFrom" or short(tgt) not in PACKET_TYPES:
                continue
            b = F.bodies[cd]
            src_adt = F.types[F.strip_ref(b["params"][0]["t"])]["def"]
            Ic = Interp(F)
            Ic.call_hook = opaque_parse_hook(F, ent_)
            pv = Ic.symbolic(D.ty_index_of_adt(unk_[0]), ("src",))
            srcv = StructV(P_, uvar, {"0": pv}) if src_adt == P_ and uvar else pv
            try:
                couts = Ic.inline(cd, None, State(), [srcv])
            except Unmodelled as ex:
                res.unmodelled(cd, str(ex))
                continue
            vw = data_view(pv)
            for s2, k2, r in couts:
                e = err_payload(r)
                if e is None or e.variant.startswith("<"):
                    continue        # Ok, or the typed parser's own error (checked with that parser)
                n_unk += check_err(res, s2, e, Header(vw) if vw is not None else None, PACKET_TYPES[short(tgt)]["pt"], cd, cd)
    res.floor("error outcomes of parsers checked", n_err, 60)
    res.floor("positional clause instances", n_pos, 40)
    res.floor("error outcomes of conversions / FCI extraction checked", n_conv, 40)
    res.analysed = {"per_entry": per}
