"""C16 — builders accept exactly the representable configurations.

SIZE(B) is a finite list of guarded outcomes over the configuration symbols.  Against the limits table
(below, transcribed from the RFC field widths — not from the crate): every Err outcome must be for a
rule that its path condition entails to be violated, with the admissible variant and the offending
value as payload (soundness); every Ok outcome must entail all rules, including the 16-bit length
field limit (completeness).  Element rules (report blocks, SDES items) are checked on the element
builders and through the quantified facts of their containers."""
from .. import solver
from ..analysis import Disc
from ..interp import Interp, State
from ..lin import Lin, dnf, eq, f_and, f_not, f_or, flit, ge, gt, le, lin, lt, ne, show_formula, show_pc
from ..spec import LIMITS, MAX_BYTES
from ..values import *
from ..wsumm import Summary, discover
from ..loops import _subst_lit

WERR = "RtcpWriteError"


class Acc:
    """accessors over a (symbolic) builder value"""

    def __init__(self, v):
        self.v = v

    def f(self, name):
        x = self.v.fields.get(name)
        if x is None:
            raise KeyError(name)
        return x

    def int(self, name):
        return self.f(name).l

    def len(self, name):
        x = self.f(name)
        return x.length() if isinstance(x, (SliceV, ArrV)) else x.count()

    def ascii(self, name):
        x = self.f(name)
        return flit(("b", ("is_ascii", x.base, x.start.key(), x.end.key()), True))


def mod4(x):
    return flit(eq(Lin.atom(("mod", lin(x).key(), 4)), 0))


class Rule:
    def __init__(self, name, holds, variants, payload=None):
        """holds(A) -> formula that must hold of an accepted configuration; variants: admissible error variants;
        payload(A) -> {field: Lin} expected in the error"""
        self.name, self.holds, self.variants, self.payload = name, holds, variants, payload or (lambda A: {})


L = LIMITS
PADDING = Rule("padding is a multiple of 4", lambda A: mod4(A.int("padding")), ["InvalidPadding"], lambda A: {"padding": A.int("padding")})

RULES = {
    "AppBuilder": [
        PADDING,
        Rule("subtype <= 31", lambda A: flit(le(A.int("subtype"), L["count_max"])), ["AppSubtypeOutOfRange"],
             lambda A: {"subtype": A.int("subtype"), "max": lin(L["count_max"])}),
        Rule("name is at most 4 ASCII bytes", lambda A: f_and(flit(le(A.len("name"), L["app_name_max"])), A.ascii("name")), ["InvalidName"]),
        Rule("payload is a multiple of 4 bytes", lambda A: mod4(A.len("data")), ["DataLen32bitMultiple"], lambda A: {"0": A.len("data")}),
    ],
    "UnknownBuilder": [
        PADDING,
        Rule("count <= 31", lambda A: flit(le(A.int("count"), L["count_max"])), ["CountOutOfRange"],
             lambda A: {"count": A.int("count"), "max": lin(L["count_max"])}),
        Rule("payload is a multiple of 4 bytes", lambda A: mod4(A.len("data")), ["DataLen32bitMultiple"], lambda A: {"0": A.len("data")}),
    ],
    "ByeBuilder": [
        PADDING,
        Rule("at most 31 sources", lambda A: flit(le(A.len("sources"), L["count_max"])), ["TooManySources"],
             lambda A: {"count": A.len("sources"), "max": lin(L["count_max"])}),
        Rule("reason at most 255 bytes", lambda A: flit(le(A.len("reason"), L["reason_max"])), ["ReasonLenTooLarge"],
             lambda A: {"len": A.len("reason"), "max": lin(L["reason_max"])}),
    ],
    "SenderReportBuilder": [
        PADDING,
        Rule("at most 31 report blocks", lambda A: flit(le(A.len("report_blocks"), L["count_max"])), ["TooManyReportBlocks"],
             lambda A: {"count": A.len("report_blocks"), "max": lin(L["count_max"])}),
    ],
    "ReceiverReportBuilder": [
        PADDING,
        Rule("at most 31 report blocks", lambda A: flit(le(A.len("report_blocks"), L["count_max"])), ["TooManyReportBlocks"],
             lambda A: {"count": A.len("report_blocks"), "max": lin(L["count_max"])}),
    ],
    "ReportBlockBuilder": [
        Rule("cumulative lost fits 24 bits", lambda A: flit(le(A.int("cumulative_lost"), L["cumulative_lost_max"])), ["CumulativeLostTooLarge"],
             lambda A: {"value": A.int("cumulative_lost"), "max": lin(L["cumulative_lost_max"])}),
    ],
    "SdesBuilder": [
        PADDING,
        Rule("at most 31 chunks", lambda A: flit(le(A.len("chunks"), L["count_max"])), ["TooManySdesChunks"],
             lambda A: {"count": A.len("chunks"), "max": lin(L["count_max"])}),
    ],
    "SdesChunkBuilder": [],
    "SdesItemBuilder": [
        Rule("non-PRIV value at most 255 bytes", lambda A: f_or(flit(eq(A.int("type_"), 8)), flit(le(A.len("value"), L["sdes_value_max"]))),
             ["SdesValueTooLarge"], lambda A: {"len": A.len("value"), "max": lin(L["sdes_value_max"])}),
        Rule("PRIV prefix at most 254 bytes", lambda A: f_or(flit(ne(A.int("type_"), 8)), flit(le(A.len("prefix"), L["priv_content_max"]))),
             ["SdesPrivPrefixTooLarge"], lambda A: {"len": A.len("prefix"), "max": lin(L["priv_content_max"])}),
        Rule("PRIV prefix + value at most 254 bytes",
             lambda A: f_or(flit(ne(A.int("type_"), 8)), flit(gt(A.len("prefix"), L["priv_content_max"])),
                            flit(le(A.len("prefix") + A.len("value"), L["priv_content_max"]))),
             ["SdesValueTooLarge"], lambda A: {"len": A.len("value"), "max": lin(L["priv_content_max"]) - A.len("prefix")}),
    ],
    "RpsiBuilder": [
        Rule("payload type <= 127", lambda A: flit(le(A.int("payload_type"), L["rpsi_pt_max"])), ["PayloadTypeInvalid"]),
        Rule("at most 8 ignored trailing bits, none on an empty string",
             lambda A: f_and(flit(le(A.int("native_bit_overrun"), L["rpsi_overrun_max"])),
                             f_or(flit(gt(A.len("native_bit_string"), 0)), flit(eq(A.int("native_bit_overrun"), 0)))),
             ["PaddingBitsTooLarge"]),
    ],
    "FirBuilder": [
        Rule("entries fit the 16-bit length field: 12 + 8e <= 262144", lambda A: flit(le(A.len("ssrc_seq").scale(8) + 12, MAX_BYTES)), ["TooManyFir"]),
    ],
    "NackBuilder": [],      # the word count is a derived quantity: handled below
    "SliBuilder": [],
    "PliBuilder": [],
    "TransportFeedbackBuilder": [PADDING],
    "PayloadFeedbackBuilder": [PADDING],
    "CompoundBuilder": [],
    "PacketBuilder": [],
}
# element rules reached through a container's collection field: container -> (field, element builder)
ELEMENTS = {"SenderReportBuilder": ("report_blocks", "ReportBlockBuilder"), "ReceiverReportBuilder": ("report_blocks", "ReportBlockBuilder"),
            "SdesBuilder": ("chunks", "SdesChunkBuilder"), "SdesChunkBuilder": ("items", "SdesItemBuilder")}
TABLE_VARIANTS = {v for rs in RULES.values() for r in rs for v in r.variants} | {"FciWrongFeedbackPacketType", "TooManyNack", "NonLastCompoundPacketPadding", "MissingFci", "OutputTooSmall"}


def total_size_err(S, s, e):
    """an Err outcome is the total-size rule: some accepting outcome's size expression N (over the same configuration
    symbols) is entailed > MAX_BYTES on this path and one payload field of the error equals N"""
    for s2, v2 in S.size_outs:
        if v2.variant != "Ok" or not isinstance(v2.fields["0"], IntV):
            continue
        N = v2.fields["0"].l
        if not solver.entails(s.pc, flit(gt(N, MAX_BYTES))):
            continue
        if any(isinstance(x, IntV) and solver.entails(s.pc, flit(eq(x.l, N))) for x in e.fields.values()):
            return True
    return False


WHOLE_PACKETS = ("AppBuilder", "UnknownBuilder", "ByeBuilder", "SenderReportBuilder", "ReceiverReportBuilder", "SdesBuilder",
                 "TransportFeedbackBuilder", "PayloadFeedbackBuilder")


def element_rules(name):
    """rules of the transitive elements of a container: [(path of collection fields, element builder, rule)]"""
    out = []
    cur, path = name, ()
    while cur in ELEMENTS:
        fld, el = ELEMENTS[cur]
        path = path + (fld,)
        for r in RULES[el]:
            out.append((path, el, r))
        cur = el
    return out


def run(ctx, res):
    F = ctx.F
    D = Disc(F)
    builders = {B.name: B for B in discover(F)}
    res.floor("builders", len(builders), 18)
    missing = [n for n in builders if n not in RULES]
    for n in missing:
        res.extra_type(n, "builder has a row in the limits table", RULES.keys(), builders.keys())
    n_err = n_ok = 0
    per = {}
    all_err_variants = {}
    for name, B in builders.items():
        if name not in RULES or name == "PacketBuilder":
            continue
        S = Summary(F, B)
        if S.error:
            res.unmodelled(B.cs, S.error)
            continue
        A = Acc(S.b) if isinstance(S.b, StructV) else None
        rules = RULES[name]
        own_variants = {v for r in rules for v in r.variants}
        el_rules = element_rules(name)
        el_variants = {v for _, _, r in el_rules for v in r.variants}
        per[name] = {"outcomes": len(S.size_outs), "rules": [r.name for r in rules] + [f"{'/'.join(p)}: {r.name}" for p, _, r in el_rules]}
        for s, v in S.size_outs:
            if v.variant == "Err":
                e = v.fields["0"]
                n_err += 1
                if not isinstance(e, StructV):
                    res.ob(False, "limit-sound", B.cs, f"{name}: error value is a RtcpWriteError", detail=repr(e)[:200])
                    continue
                if e.variant == "<error-of>":
                    res.ob(True, "limit-sound", B.cs, f"{name}: a member's own error is passed through unchanged")
                    continue
                cands = [r for r in rules if e.variant in r.variants]
                if cands:
                    good = False
                    why = ""
                    for r in cands:
                        viol = solver.entails(s.pc, f_not(r.holds(A)))
                        pay = r.payload(A)
                        payok = all(isinstance(e.fields.get(k), IntV) and solver.entails(s.pc, flit(eq(e.fields[k].l, x))) for k, x in pay.items())
                        if viol and payok:
                            good = True
                            break
                        why = f"rule '{r.name}' violated: {viol}; payload carries the offending value: {payok}"
                    res.ob(good, "limit-sound", B.cs, f"{name}: Err({e.variant}) only when its rule is violated, carrying the offending value", detail=why + " " + repr(e)[:200], pc=s.pc)
                elif e.variant in el_variants:
                    # an element's error: the same value the element builder would return for that element
                    good = False
                    for path, el, r in el_rules:
                        if e.variant not in r.variants:
                            continue
                        ev = element_value(S, path, s)
                        for EA in ev:
                            viol = solver.entails(s.pc, f_not(r.holds(EA)))
                            pay = r.payload(EA)
                            payok = all(isinstance(e.fields.get(k), IntV) and solver.entails(s.pc, flit(eq(e.fields[k].l, x))) for k, x in pay.items())
                            if viol and payok:
                                good = True
                    res.ob(good, "limit-sound", B.cs, f"{name}: Err({e.variant}) for an element only when that element violates the rule, carrying its value",
                           detail=repr(e)[:300], pc=s.pc)
                elif name in ("TransportFeedbackBuilder", "PayloadFeedbackBuilder") and e.variant == "FciWrongFeedbackPacketType":
                    kind = "transport" if name.startswith("Transport") else "payload"
                    good = any(l[0] == "b" and isinstance(l[1], tuple) and l[1][-1] == kind and l[2] is False for l in s.pc)
                    res.ob(good, "limit-sound", B.cs, f"{name}: FciWrongFeedbackPacketType only when the FCI does not support {kind} feedback", pc=s.pc)
                elif name == "NackBuilder" and e.variant == "TooManyNack":
                    words = word_count(S, s)
                    good = words is not None and solver.entails(s.pc, flit(gt(words.scale(4) + 12, MAX_BYTES)))
                    res.ob(good, "limit-sound", B.cs, "NackBuilder: TooManyNack only when 12 + 4*words exceeds the 16-bit length field", pc=s.pc)
                elif name == "CompoundBuilder" and e.variant == "NonLastCompoundPacketPadding":
                    good = compound_padding_err(S, s)
                    res.ob(good, "limit-sound", B.cs, "CompoundBuilder: NonLastCompoundPacketPadding only when a member other than the last requests padding", pc=s.pc)
                elif name in WHOLE_PACKETS and e.variant not in TABLE_VARIANTS and total_size_err(S, s, e):
                    # the statement's last rule ("a total size above 65536 words") names no variant: an error the table has no
                    # row for is that rule when, on its path, the size an accepting path returns exceeds what the length field
                    # can express and the error carries that size
                    res.ob(True, "limit-sound", B.cs, f"{name}: Err({e.variant}) only when the total size exceeds the 16-bit length field, carrying that size", pc=s.pc)
                else:
                    res.ob(False, "limit-sound", B.cs, f"{name}: Err({e.variant}) corresponds to a rule of the limits table", detail=repr(e)[:200], pc=s.pc)
            elif v.variant == "Ok":
                n_ok += 1
                for r in rules:
                    res.ob(solver.entails(s.pc, r.holds(A)), "limit-complete", B.cs, f"{name}: accepted only if {r.name}", pc=s.pc)
                for path, el, r in el_rules:
                    good = True
                    evs = element_value(S, path, s, generic=True)
                    if not evs:
                        good = False
                    for st, EA in evs:
                        if not solver.entails(st.pc, r.holds(EA)):
                            good = False
                    res.ob(good, "limit-complete", B.cs, f"{name}: accepted only if every {'/'.join(path)} element satisfies: {r.name}", pc=s.pc)
                if name in WHOLE_PACKETS and isinstance(v.fields["0"], IntV):
                    n = v.fields["0"].l
                    res.ob(solver.entails(s.pc, flit(le(n, MAX_BYTES))), "limit-complete", B.cs,
                           f"{name}: accepted only if the total size fits the 16-bit length field (n <= {MAX_BYTES})", detail=f"n = {n}"[:200], pc=s.pc)
                if name == "CompoundBuilder":
                    res.ob(compound_ok(S, s), "limit-complete", B.cs, "CompoundBuilder: accepted only if no member but the last requests padding", pc=s.pc)
                if name in ("TransportFeedbackBuilder", "PayloadFeedbackBuilder"):
                    kind = "transport" if name.startswith("Transport") else "payload"
                    good = any(l[0] == "b" and isinstance(l[1], tuple) and l[1][-1] == kind and l[2] is True for l in s.pc)
                    res.ob(good, "limit-complete", B.cs, f"{name}: accepted only if the FCI supports {kind} feedback", pc=s.pc)
        # totality: the outcomes cover the configuration space (the interpreter splits exhaustively; stated for the record)
    # FCI kinds: each FCI builder supports exactly the kind the RFC assigns to it
    from ..spec import FCI
    from ..analysis import FCI_BUILDER
    for adt in D.impls_of(FCI_BUILDER):
        nm = adt.split("::")[-1]
        pub = nm.replace("Builder", "")
        if pub not in FCI:
            res.extra_type(nm, "FCI builder has a row in the RFC FCI table", FCI.keys(), [a.split("::")[-1].replace("Builder", "") for a in D.impls_of(FCI_BUILDER)])
            continue
        kind, fmt = FCI[pub]
        I = Interp(F)
        b = I.symbolic(D.ty_index_of_adt(adt), ("b",))
        sup = D.impl_item(FCI_BUILDER, adt, "supports_feedback_type")
        fm = D.impl_item(FCI_BUILDER, adt, "format")
        for s, k, r in I.inline(sup, None, State(), [b]):
            from .. import roles
            fk = roles.fci_kind_fields(F)
            good = isinstance(r, StructV) and isinstance(r.fields.get(fk["transport"]), BoolV) and \
                r.fields[fk["transport"]].f == (("true",) if kind == "transport" else ("false",)) and \
                r.fields[fk["payload"]].f == (("true",) if kind == "payload" else ("false",))
            res.ob(good, "fci-kind", sup, f"{nm} supports exactly {kind} feedback (RFC 4585/5104)", detail=repr(r)[:200])
        for s, k, r in I.inline(fm, None, State(), [b]):
            res.ob(isinstance(r, IntV) and r.l == lin(fmt), "fci-kind", fm, f"{nm}::format() == {fmt}", detail=repr(r))
    # a configuration is what the public setters were given (a rebuild that resets the padding makes an unrepresentable
    # request look representable): the setter rules of C20 for every builder
    from .c20 import setter_rules, builder_adts
    _ns, _nc, _ = setter_rules(F, D, res, builder_adts(F, D))
    res.floor("(setter, field) pairs checked", _ns, 80)
    n_def = default_configuration(F, D, builders, res)
    res.floor("public constructors whose fresh builder was checked against the limits", n_def, 14)
    n_pad = padding_attribute(F, D, builders, res)
    res.floor("get_padding outcomes checked", n_pad, 16)
    res.floor("rejecting size outcomes checked", n_err, 40)
    res.floor("accepting size outcomes checked", n_ok, 18)
    res.analysed = per


def default_configuration(F, D, builders, res):
    """what a public constructor hands back — before any setter is called — is itself a configuration, and "every other
    configuration is accepted": no rule of the limits table may be violated by the fresh builder *whatever the
    constructor's arguments are* (a default padding of 1 would make every builder of that type unusable until the caller
    sets a padding it never asked for).  Rules whose truth depends on the arguments are not touched here."""
    from .. import roles
    from ..interp import Unmodelled
    n = 0
    for d, b in F.bodies.items():
        if b.get("kind") not in ("Fn", "AssocFn") or b.get("ret") is None or b.get("vis") != "Public":
            continue
        rt = F.types[b["ret"]]
        if rt.get("k") != "adt":
            continue
        name = rt["def"].split("::")[-1]
        if name not in RULES or name not in builders or name == "PacketBuilder":
            continue
        if any(F.types[F.strip_ref(p["t"])].get("def") == rt["def"] for p in b["params"]):
            continue        # a method of the builder, not a constructor
        I = Interp(F)
        try:
            args = [I.symbolic(p["t"], ("arg", i)) for i, p in enumerate(b["params"])]
            outs = I.inline(d, None, State(), args)
        except Unmodelled as ex:
            res.unmodelled(d, f"constructor: {ex}")
            continue
        for s, k, v in outs:
            if k != "val" or not isinstance(v, StructV) or v.adt != rt["def"]:
                continue
            n += 1
            roles.alias(F, v)
            A = Acc(v)
            for r in RULES[name]:
                try:
                    bad = solver.entails(s.pc, f_not(r.holds(A)))
                except (KeyError, AttributeError):
                    continue        # the rule is about a quantity this constructor's result does not expose under that role
                res.ob(not bad, "default-configuration", d, f"{name}: the freshly constructed builder does not violate '{r.name}' whatever the arguments",
                       detail=repr(v)[:200], pc=s.pc)
    return n


def padding_attribute(F, D, builders, res):
    """the compound rule 'no member but the last requests padding' reads each member's get_padding(): it must be truthful.
    Packet builders: get_padding() is Some(p) exactly when the configured padding p is non-zero (C07 ties the P bit and the
    trailer to the same field); a compound reports its last member's."""
    n = 0
    for name, B in builders.items():
        if B.kind == "fci" or not B.gp or name == "PacketBuilder":
            continue
        if name == "CompoundBuilder":
            n += compound_get_padding(F, B, res)
            continue
        I = Interp(F)
        b = I.symbolic(D.ty_index_of_adt(B.adt), ("b",))
        pad = b.fields.get("padding") if isinstance(b, StructV) else None
        if not isinstance(pad, IntV):
            if B.kind == "sub":
                continue
            res.ob(False, "anchor", B.gp, f"{name} has an integer `padding` configuration field")
            continue
        for s, k, r in I.inline(B.gp, None, State(), [b]):
            n += 1
            if isinstance(r, StructV) and r.variant == "None":
                good = solver.entails(s.pc, flit(eq(pad.l, 0)))
            elif isinstance(r, StructV) and r.variant == "Some" and isinstance(r.fields["0"], IntV):
                good = solver.entails(s.pc, f_and(flit(eq(r.fields["0"].l, pad.l)), flit(ge(pad.l, 1))))
            else:
                good = False
            res.ob(good, "padding-attribute", B.gp, f"{name}::get_padding() is Some(p) exactly for a non-zero configured padding p", detail=repr(r)[:200], pc=s.pc)
    return n


def compound_get_padding(F, B, res):
    S = Summary(F, B)
    if S.error:
        res.unmodelled(B.gp, S.error)
        return 0
    N = S.b.fields["packets"].count()
    n = 0
    for s, k, r in S.I.inline(B.gp, None, State(), [S.b]):
        if isinstance(r, StructV) and r.variant == "None":
            good = solver.entails(s.pc, flit(eq(N, 0))) or any(l[0] == "b" and isinstance(l[1], tuple) and l[1][-1] == "has_padding" and l[2] is False for l in s.pc)
            res.ob(good, "compound-padding", B.gp, "CompoundBuilder::get_padding() is None only for an empty compound or a last member without padding", pc=s.pc)
        elif isinstance(r, StructV) and r.variant == "Some":
            x = r.fields["0"]
            a = x.l.single_atom() if isinstance(x, IntV) else None
            good = bool(a) and a[0][0] == "elem" and a[0][3][-1] == "#padding" and solver.entails(s.pc, flit(eq(Lin.from_key(a[0][2]), N - 1)))
            res.ob(good, "compound-padding", B.gp, "CompoundBuilder::get_padding() is the last member's padding", detail=repr(r)[:200], pc=s.pc)
        n += 1
    return n


def element_value(S, path, s, generic=False):
    """accessors for the element(s) of the (nested) collection at `path` that the state speaks about.
    generic=True: a fresh index per level with the container's quantified facts instantiated:
    returns [(state, Acc)]; otherwise accessors for every index atom occurring in the path condition."""
    I = S.I
    from ..lin import atoms_deep
    if generic:
        states = [(s.clone(), S.b)]
        for fld in path:
            nxt = []
            for st, v in states:
                coll = v.fields.get(fld)
                if not isinstance(coll, CollV):
                    continue
                K = Lin.atom(("k", I.fresh("k")))
                st.pc.append(le(0, K))
                st.pc.append(lt(K, coll.count()))
                ev = I.seq_elem(coll, K)
                for st2 in I.loops.instantiate_forall(st, ("coll", coll), K):
                    nxt.append((st2, ev))
            states = nxt
        return [(st, Acc(v)) for st, v in states if isinstance(v, StructV)]
    # every index atom mentioned in the path condition
    ks = set()
    for l in s.pc:
        if l[0] in ("le", "eq", "ne"):
            for a in atoms_deep(l[1]):
                if a[0] == "k":
                    ks.add(a)
    out = []
    import itertools
    for combo in itertools.permutations(sorted(ks), len(path)):
        v = S.b
        okc = True
        for fld, katom in zip(path, combo):
            coll = v.fields.get(fld) if isinstance(v, StructV) else None
            if not isinstance(coll, CollV):
                okc = False
                break
            v = I.seq_elem(coll, Lin.atom(katom))
        if okc and isinstance(v, StructV):
            out.append(Acc(v))
    return out


def word_count(S, s):
    from ..lin import atoms_deep
    for l in s.pc:
        if l[0] in ("le", "eq", "ne"):
            for a in atoms_deep(l[1]):
                if a[0] == "cnt" and isinstance(a[1], tuple) and a[1][0] == "custom":
                    return Lin.atom(a)
    return None


def compound_padding_err(S, s):
    """the rejecting path is about some member k other than the last (k + 1 < count) that reports padding >= 1"""
    from ..lin import atoms_deep
    coll = S.b.fields.get("packets")
    N = coll.count()
    has = any(l[0] == "b" and isinstance(l[1], tuple) and l[1][-1] == "has_padding" and l[2] is True for l in s.pc)
    if not has:
        return False
    ks, pads = [], []
    for l in s.pc:
        if l[0] in ("le", "eq", "ne"):
            for a in atoms_deep(l[1]):
                if a[0] == "k" and a not in ks:
                    ks.append(a)
                if a[0] == "elem" and a[3] and a[3][-1] == "#padding" and a not in pads:
                    pads.append(a)
    for k in ks:
        if not solver.entails(s.pc, flit(lt(Lin.atom(k) + 1, N))):
            continue
        mine = [p for p in pads if Lin.from_key(p[2]) == Lin.atom(k)]
        if mine and all(solver.entails(s.pc, flit(ge(Lin.atom(p), 1))) for p in mine):
            return True
    return False


def compound_ok(S, s):
    """the quantified fact of the accepting path: every member is valid and (padding(k) == 0 or k is last)"""
    I = S.I
    coll = S.b.fields.get("packets")
    if solver.entails(s.pc, flit(eq(coll.count(), 0))):
        return True
    K = Lin.atom(("k", I.fresh("k")))
    st = s.clone()
    st.pc.append(le(0, K))
    st.pc.append(lt(K + 1, coll.count()))       # a member other than the last
    alts = I.loops.instantiate_forall(st, ("coll", coll), K)
    if not alts:
        return False
    for a in alts:
        sizeok = any(l[0] == "b" and isinstance(l[1], tuple) and l[1][-1] == "size_ok" and l[2] is True for l in a.pc)
        from ..lin import atoms_deep
        pads = {x for l in a.pc if l[0] in ("le", "eq", "ne") for x in atoms_deep(l[1])
                if x[0] == "elem" and x[3] and x[3][-1] == "#padding" and Lin.from_key(x[2]) == K}
        nopad = any(l[0] == "b" and isinstance(l[1], tuple) and l[1][-1] == "has_padding" and l[2] is False for l in a.pc) or \
            (bool(pads) and all(solver.entails(a.pc, flit(le(Lin.atom(x), 0))) for x in pads))
        if not (sizeok and nopad):
            return False
    return True
