"""C10 — SDES decoding follows RFC 3550 chunk and item tokenisation.

Decided (clauses whose truth is in the shape of the code, for all inputs):
 item:  every accepted item view is exactly [q, q + 2 + len) inside the input; a PRIV item holds its
        prefix (3 + prefix_len <= item length); accessors return type/length/value/prefix per §6.5;
 chunk: items are consecutive views from byte 4 (what is yielded *is* the tokenisation of the bytes);
        the item loop stops at the first null type byte t; the bytes skipped after it are all zero and
        the chunk's consumed length is exactly pad4(t + 1) — so a non-zero fill, and zeros beyond the
        32-bit boundary, cannot be swallowed; ssrc() is the BE32 at the chunk start;
 packet: chunks are consecutive from byte 4 and the walk ends exactly at len - padding;
 length(): equals the consumed (encoded) length of the chunk.
Not decided: must-accept for *every* RFC-well-formed SDES packet (well-formedness is an inductive
predicate over byte strings) — the builder-produced subset is covered by C03."""
from .. import solver
from ..analysis import Disc, Explorer, PARSER_TRAIT
from ..interp import Interp, State, Unmodelled
from ..lin import Lin, atoms_deep, eq, f_and, f_not, f_or, flit, ge, gt, le, lin, lt, ne, show_formula, show_pc
from ..spec import SDES_PRIV
from ..values import *
from ..wire import Header, view_be, view_byte
from .c01 import input_slice
from .c08 import short, data_view
from .c12 import same_view


def pad4(x):
    x = lin(x)
    return x + 3 - Lin.atom(("mod", (x + 3).key(), 4))


def find(F, suffix):
    return [d for d in F.bodies if d.endswith(suffix)]


def zero_take_while(F, s, used, inp):
    """`used` is start + the length of the longest run of zero bytes from `start` (bounded by a `take`): the count of a
    `take_while` over a byte view of the input whose predicate is exactly `byte == 0`"""
    from ..lin import atoms_deep
    from ..interp import State
    if not isinstance(used, IntV):
        return False
    for a in atoms_deep(used.l):
        if not (a[0] == "cnt" and isinstance(a[1], tuple) and a[1][0] == "take_while"):
            continue
        key = a[1][1]
        if len(key) != 3 or key[1][0] != "bytes" or key[2][0] != "fn":
            continue
        sl = key[1][1]
        if sl[0] != "sl" or sl[1] != inp.base:
            continue
        start = Lin.from_key(sl[2])
        if not solver.entails(s.pc, flit(eq(used.l, start - inp.start + Lin.atom(a)))):
            continue
        fn = key[2][1]
        if fn not in F.bodies:
            continue
        I2 = Interp(F)
        b = IntV(Lin.atom(("sym", "skipped-byte", "u8")), "u8")
        try:
            outs = I2.apply_fn(State(), FnV(fn, captures={}), [b], {"sp": None})
        except Exception:
            continue
        good = bool(outs)
        for s2, k2, r in outs:
            if not (k2 == "val" and isinstance(r, BoolV)):
                good = False
                break
            # the predicate holds exactly for a zero byte
            if not (solver.entails(s2.pc + [eq(b.l, 0)], r.f) and solver.entails(s2.pc + [ne(b.l, 0)], f_not(r.f))):
                good = False
        if good:
            return True
    return False


def _take_while_cases(F, pc, atom, inp, maxk=8):
    """the count of `take_while(bytes [a,b), P)` is the length of the longest prefix satisfying P: when b - a is entailed
    to be at most `maxk`, the exact case list [(formula)] — one formula per possible count c: cnt == c, P on the first c
    bytes, and (c == b - a or not P(byte c)).  None when the atom is not of that form."""
    key = atom[1][1]
    if len(key) != 3 or key[1][0] != "bytes" or key[2][0] != "fn":
        return None
    sl = key[1][1]
    if sl[0] != "sl" or sl[1] != inp.base or key[2][1] not in F.bodies:
        return None
    a, b = Lin.from_key(sl[2]), Lin.from_key(sl[3])
    K = None
    for k in range(maxk + 1):
        if solver.entails(pc, flit(le(b - a, k))):
            K = k
            break
    if K is None:
        return None

    def P(j):
        I2 = Interp(F)
        byte = IntV(Lin.atom(("byte", inp.base, (a + j).key())), "u8")
        outs = I2.apply_fn(State(), FnV(key[2][1], captures={}), [byte], {"sp": None})
        fs = []
        for s2, k2, r in outs:
            if not (k2 == "val" and isinstance(r, BoolV)):
                raise Unmodelled("take_while predicate")
            fs.append(f_and(*[flit(l) for l in s2.pc], r.f) if s2.pc else r.f)
        return f_or(*fs) if len(fs) != 1 else fs[0]

    cases = []
    try:
        for c in range(K + 1):
            fs = [flit(eq(Lin.atom(atom), c)), flit(ge(b - a, c))]
            fs += [P(j) for j in range(c)]
            fs.append(f_or(flit(eq(b - a, c)), f_not(P(c))))
            cases.append(f_and(*fs))
    except Exception:
        return None
    return cases


def chunk_must_accept(F, res, fn, outs, reps, inp):
    """a chunk as RFC 3550 §6.5 (and this crate's writer) lays it out — items, a null at t, zero bytes up to the next
    32-bit boundary — is accepted whatever follows it: every rejecting path that has seen the null at t contradicts
    "bytes (t, pad4(t+1)) are zero and the input reaches pad4(t+1)".  Decided by cases on (t+1) mod 4, on the value of
    every later loop's carried offset within (t, t+4] and on the exact count of every bounded take_while."""
    n = 0
    tcands = [Lin.atom(a) for rp in reps for a, init in rp.carried]
    later = {a for rp in reps for a, init in rp.carried}
    for s, k, v in outs:
        if not (k == "val" and isinstance(v, StructV) and v.variant == "Err"):
            continue
        t = next((t for t in tcands if solver.entails(s.pc, f_and(flit(lt(t, inp.length())), flit(eq(view_byte(inp, t), 0))))), None)
        if t is None:
            continue    # rejected before a terminator was seen: an item-level rejection (rule (a) of C03 / item rules)
        n += 1
        refuted = True
        witness = None
        for r in range(4):
            f = (4 - r) % 4
            H = list(s.pc) + [eq(Lin.atom(("mod", (t + 1).key(), 4)), r), ge(inp.length(), t + 1 + f)] + [eq(view_byte(inp, t + j), 0) for j in range(1, f + 1)]
            if not solver.feasible(H):
                continue
            # case lists
            splits = []
            atoms = set()
            for l in s.pc:
                atoms |= set(atoms_deep(l[1])) if l[0] in ("le", "eq", "ne") else set()
            for x in (v.fields.get("0"),):
                pass
            for a in sorted(atoms, key=repr):
                if a[0] == "cnt" and isinstance(a[1], tuple) and a[1][0] == "take_while":
                    cs = _take_while_cases(F, H, a, inp)
                    if cs is not None:
                        splits.append(cs)
                elif a in later and Lin.atom(a) != t:
                    o = Lin.atom(a)
                    if solver.entails(H, f_and(flit(ge(o, t)), flit(le(o, t + 4)))):
                        splits.append([flit(eq(o, t + j)) for j in range(0, 5)])

            def rec(i, extra):
                if i == len(splits):
                    return solver.entails(H, f_not(f_and(*extra))) if extra else False
                for c in splits[i]:
                    if solver.entails(H, f_not(f_and(*(extra + [c])))):
                        continue
                    if not rec(i + 1, extra + [c]):
                        return False
                return True
            if not rec(0, []):
                refuted = False
                witness = f"(t+1) mod 4 == {r}: zero fill of {f} byte(s)"
                break
        res.ob(refuted, "chunk-accept", fn,
               "SdesChunk: items, a null, and zero bytes up to the next 32-bit boundary are accepted whatever follows (the next chunk may start with zero bytes)",
               detail=(f"possible when {witness}: rejection {v.fields[chr(48)]!r}"[:400] if witness else ""), pc=s.pc)
    return n


def packet_must_accept(F, res, d, chunk_fn):
    """the packet parser, with the chunk parser replaced by its contract ("Ok(chunk, used) with 4 <= used <= view length,
    or a rejection of that view"): (i) the walk is the recurrence o' = o + used from 4, every chunk view starts at o and
    reaches at least len - padding (a shorter view would reject a chunk that fits), and (ii) every rejection that is not
    the chunk parser's own contradicts the RFC framing of an SDES packet."""
    from .c09 import padding_expr, wf_cases, zero_padding_instances
    from ..analysis import ERROR_OF
    from ..lin import dnf
    I = Interp(F)
    inp = input_slice()
    H = Header(inp)
    calls = []
    used_syms = set()

    def hook(tgt, e, st, args):
        if tgt != chunk_fn or not args or not isinstance(args[0], SliceV):
            return None
        if not I.quiet:     # (invariant-inference rounds run the body too: only the final pass states facts)
            calls.append((st.clone(), args[0]))
        u = I.fresh_int("chunk-used", "usize")
        used_syms.add(next(iter(u.l.t)))
        s_ok = st.clone()
        s_ok.pc.append(ge(u.l, 4))
        s_ok.pc.append(le(u.l, args[0].length()))
        chunk = StructV("sdes::SdesChunk", "SdesChunk", {"ssrc": I.fresh_int("chunk-ssrc", "u32"), "items": Opaque("items of the chunk")})
        erv = StructV("RtcpParseError", ERROR_OF, {"view": args[0], "__by": FnV(chunk_fn)})
        return [(s_ok, "val", ok(TupV([chunk, u]))), (st.clone(), "val", err(erv))]
    I.call_hook = hook
    try:
        outs = I.run(d, [inp])
    except Unmodelled as ex:
        res.ob(False, "unmodelled", d, f"packet-level contract run: {ex}")
        return 0
    n = 0
    # (i) the recurrence and the views
    offs = []
    for rp in I.loop_reports:
        if rp.fn != d:
            continue
        for a, init in rp.carried:
            if lin(init).is_const() and rp.backs and all(new.get(a) is not None and len((new[a] - Lin.atom(a)).t) == 1 and
                                                        next(iter((new[a] - Lin.atom(a)).t)) in used_syms and (new[a] - Lin.atom(a)).c == 0 and
                                                        list((new[a] - Lin.atom(a)).t.values()) == [1] for delta, new in rp.backs):
                offs.append(Lin.atom(a) + (4 - lin(init)))     # counted from byte 4, or from 0 with the header added at each use
    res.floor("chunk parser calls seen in the packet walk", len(calls), 1)
    res.ob(bool(offs), "sdes-walk", d, "Sdes: the chunk walk is the recurrence offset' = offset + (length the chunk parser consumed), from byte 4")
    n += 1
    for st, view in calls:
        o = next((o for o in offs if view.base == inp.base and solver.entails(st.pc, flit(eq(view.start, inp.start + o)))), None)
        good = o is not None
        if good:
            for cond, pad in padding_expr(H):
                for conj in dnf(cond):
                    if solver.feasible(st.pc, conj):
                        good = good and solver.entails(st.pc + list(conj), flit(ge(view.end, inp.start + inp.length() - pad)))
        res.ob(good, "sdes-walk", d, "Sdes: each chunk is parsed from a view that starts at the walk's offset and reaches (at least) len - padding", detail=repr(view)[:200], pc=st.pc)
        n += 1
    # (i') what the walk parses is what the packet yields: each chunk the chunk parser returns is appended, in walk order, to
    # the collection that the public chunk iterator traverses from its start
    acc = [it["def"] for it in Disc(F).inherent(next(a for a in F.adts if d.startswith("<" + a))) if it["name"] == "chunks"] \
        if any(d.startswith("<" + a) for a in F.adts) else []
    res.ob(bool(acc), "anchor", "Sdes::chunks", "public chunk iterator exists")
    for s, k, v in outs:
        if not (k == "val" and isinstance(v, StructV) and v.variant == "Ok" and isinstance(v.fields.get("0"), StructV)):
            continue
        if not solver.feasible(s.pc, [ge(inp.length(), 5)]):
            continue        # header-only packet: no chunk
        sd = v.fields["0"]
        colls = [x for x in sd.fields.values() if isinstance(x, CollV)]
        pushed = [(c, val) for c in colls for pc_, val, ex_, how in s.colls.get(c.seq, ()) if how == "push" and isinstance(val, StructV) and
                  any(isinstance(x, IntV) and any(str(a[1]).startswith("chunk-ssrc") for a in x.l.t if a[0] == "opq") for x in val.fields.values())]
        res.ob(len(pushed) == 1, "sdes-walk", d, "Sdes: every chunk the walk parses is appended (once, in walk order) to the packet's chunk list",
               detail=f"{len(pushed)} append(s) of the chunk parser's result per walk step", pc=s.pc)
        n += 1
        for m in acc:
            for s2, k2, r in I.inline(m, None, s.clone(), [sd]):
                good = isinstance(r, IterV) and r.seq[0] == "coll" and pushed and r.seq[1].seq == pushed[0][0].seq and lin(r.pos) == lin(0)
                res.ob(bool(good), "sdes-walk", m, "Sdes::chunks() traverses exactly that list from its first element", detail=repr(r)[:160], pc=s2.pc)
                n += 1
    # (ii) no rejection of its own on a well-framed packet
    for fs, pad in wf_cases(H, "Sdes"):
        for s, k, v in outs:
            if not (k == "val" and isinstance(v, StructV) and v.variant == "Err"):
                continue
            e = v.fields["0"]
            if isinstance(e, StructV) and e.variant == ERROR_OF:
                continue
            zs = zero_padding_instances(s.pc, inp, H.len - pad, H.len)
            feas = any(solver.feasible(s.pc, conj) for conj in dnf(f_and(*(fs + zs))))
            res.ob(not feas, "must-accept", d, f"a well-framed Sdes packet is rejected only by the chunk parser, never with {e!r}"[:300], pc=s.pc)
            n += 1
    return n


def run(ctx, res):
    F = ctx.F
    D = Disc(F)
    sdes = [a for a in D.impls_of(PARSER_TRAIT) if short(a) == "Sdes"]
    res.floor("SDES parser", len(sdes), 1)
    if not sdes:
        return
    adt = sdes[0]
    d = D.impl_item(PARSER_TRAIT, adt, "parse")
    # the item type numbers the crate publishes (what a caller compares type_() with) are the RFC's
    from ..spec import SDES_ITEM_TYPES
    n_const = 0
    for nm, want in SDES_ITEM_TYPES.items():
        cd = [dd for dd, bb in F.bodies.items() if bb.get("kind") == "AssocConst" and dd.startswith("sdes::SdesItem") and dd.endswith("::" + nm)]
        res.ob(bool(cd), "anchor", f"SdesItem::{nm}", "public item-type constant named in RFC 3550 §6.5 exists")
        for dd in cd:
            Ic = Interp(F)
            try:
                vals = [v for _, k, v in Ic.eval_const(dd, State()) if k == "val"]
            except Unmodelled as ex:
                res.unmodelled(dd, str(ex))
                continue
            n_const += 1
            res.ob(bool(vals) and all(isinstance(v, IntV) and v.l == lin(want) for v in vals), "item-type", dd, f"SdesItem::{nm} == {want} (RFC 3550 §6.5)", detail=repr(vals)[:120])
    res.floor("SDES item type constants compared", n_const, 8)
    # the chunk and item sub-parsers: found by what they return (their names are private)
    chunk_parse = D.by_signature(["&[u8]"], "Result<(sdes::SdesChunk<", "sdes::")
    item_parse = D.by_signature(["&[u8]"], "Result<(sdes::SdesItem<", "sdes::")
    res.floor("chunk and item sub-parsers", len(chunk_parse) + len(item_parse), 2)
    n_item = n_chunk = 0
    # ------------------------------------------------------------------ item parser on its own
    if item_parse:
        I = Interp(F)
        inp = input_slice()
        for s, k, v in I.run(item_parse[0], [inp]):
            if not (k == "val" and isinstance(v, StructV) and v.variant == "Ok"):
                continue
            tup = v.fields["0"]
            item, used = tup.items[0], tup.items[1]
            view = data_view(item)
            L = view_byte(inp, 1)
            res.ob(isinstance(used, IntV) and solver.entails(s.pc, flit(eq(used.l, L + 2))), "item-token", item_parse[0],
                   "SdesItem: consumed length == 2 + length byte", pc=s.pc)
            res.ob(same_view(s.pc, view, SliceV(inp.base, inp.start, inp.start + L + 2)) and solver.entails(s.pc, flit(le(L + 2, inp.length()))),
                   "item-token", item_parse[0], "SdesItem: the item is the view [0, 2 + length) and fits the input (an overrunning item is rejected)", pc=s.pc)
            priv = f_or(flit(ne(view_byte(inp, 0), SDES_PRIV)), f_and(flit(ge(L + 2, 3)), flit(le(view_byte(inp, 2) + 3, L + 2))))
            res.ob(solver.entails(s.pc, priv), "item-token", item_parse[0],
                   "SdesItem: a PRIV item holds its own prefix: 3 + prefix_len <= item length (a prefix overrunning the item is rejected)", pc=s.pc)
            n_item += 3
            # accessors
            acc = {it["name"]: it["def"] for it in D.inherent(item.adt)}
            for nm, want in (("type_", view_byte(inp, 0)), ("length", L)):
                for s2, k2, r in I.inline(acc[nm], None, s.clone(), [item]):
                    res.ob(isinstance(r, IntV) and solver.entails(s2.pc, flit(eq(r.l, want))), "item-token", acc[nm], f"SdesItem::{nm}() is byte {0 if nm == 'type_' else 1}", pc=s2.pc)
                    n_item += 1
            for s2, k2, r in I.inline(acc["value"], None, s.clone(), [item]):
                isp = solver.entails(s2.pc, flit(eq(view_byte(inp, 0), SDES_PRIV)))
                notp = solver.entails(s2.pc, flit(ne(view_byte(inp, 0), SDES_PRIV)))
                if isp:
                    want = SliceV(inp.base, inp.start + 3 + view_byte(inp, 2), inp.start + L + 2)
                elif notp:
                    want = SliceV(inp.base, inp.start + 2, inp.start + L + 2)
                else:
                    want = None
                res.ob(want is not None and same_view(s2.pc, r, want), "item-token", acc["value"],
                       "SdesItem::value() is [2, 2+len) or, for PRIV, [3 + prefix_len, 2 + len)", detail=repr(r)[:200], pc=s2.pc)
                n_item += 1
            for s2, k2, r in I.inline(acc["priv_prefix"], None, s.clone(), [item]):
                want = SliceV(inp.base, inp.start + 3, inp.start + 3 + view_byte(inp, 2))
                res.ob(same_view(s2.pc, r, want) and solver.entails(s2.pc, flit(eq(view_byte(inp, 0), SDES_PRIV))), "item-token", acc["priv_prefix"],
                       "SdesItem::priv_prefix() is [3, 3 + prefix_len) of a PRIV item", detail=repr(r)[:200], pc=s2.pc)
                n_item += 1
        I.obligations = [o for o in I.obligations if not o.ok and o.kind != "panic-reachable"]
        for o in I.obligations:
            res.ob(False, o.kind, o.fn, o.goal, o.span, pc=o.pc)
    # ------------------------------------------------------------------ chunk parser on its own
    if chunk_parse:
        I = Interp(F)
        inp = input_slice()
        outs = I.run(chunk_parse[0], [inp])
        # the loops met while interpreting the chunk parser, wherever it keeps them (helpers it calls included)
        reps = [r for r in I.loop_reports if r.fn == chunk_parse[0] or r.fn not in (item_parse or [])]
        item_loops = [r for r in reps if r.backs and any(isinstance(n, Lin) for _, m in r.backs for n in m.values())]
        terminated = set()
        for s, k, v in outs:
            if not (k == "val" and isinstance(v, StructV) and v.variant == "Ok"):
                continue
            tup = v.fields["0"]
            chunk, used = tup.items[0], tup.items[1]
            n_chunk += 1
            # ssrc
            ss = field_of(chunk, IntV, "ssrc")
            res.ob(isinstance(ss, IntV) and solver.entails(s.pc, flit(eq(ss.l, view_be(inp, 0, 4)))), "chunk-token", chunk_parse[0], "SdesChunk: ssrc is the BE32 at the chunk start", pc=s.pc)
            # items tile [4, t) exactly and consecutively
            items = field_of(chunk, CollV, "items")
            tl = s.tiles.get(items.seq) if isinstance(items, CollV) else None
            has_items = isinstance(items, CollV) and bool(s.colls.get(items.seq))
            if has_items:
                res.ob(bool(tl) and tl[3] and solver.entails(s.pc, flit(eq(tl[1], inp.start + 4))), "chunk-token", chunk_parse[0],
                       "SdesChunk: the items yielded are consecutive views starting at byte 4 (the tokenisation of the bytes)", detail=repr(tl)[:200], pc=s.pc)
            # terminator position t: end of the item tiling (or 4), and consumed == pad4(t+1) unless the chunk is just an SSRC
            only_ssrc = solver.entails(s.pc, flit(eq(inp.length(), 4)))
            if only_ssrc:
                res.ob(isinstance(used, IntV) and solver.entails(s.pc, flit(eq(used.l, 4))), "chunk-end-aligned", chunk_parse[0], "SdesChunk: a bare SSRC consumes 4 bytes", pc=s.pc)
                continue
            t_abs = tl[2] if (has_items and tl) else None
            cands = []
            if t_abs is not None:
                cands.append(t_abs - inp.start)
            # without items the terminator is at the loop's current offset: any carried offset symbol of the item loop
            for rp in reps:
                for a, init in rp.carried:
                    cands.append(Lin.atom(a))
            good = False
            which = None
            for t in cands:
                if isinstance(used, IntV) and solver.entails(s.pc, f_and(flit(eq(view_byte(inp, t), 0)), flit(eq(used.l, pad4(t + 1))))):
                    good = True
                    which = t
                    break
            nul_less = isinstance(used, IntV) and solver.entails(s.pc, flit(eq(used.l, inp.length())))
            if good:
                terminated.add(id(s))
            res.ob(good or nul_less, "chunk-end-aligned", chunk_parse[0],
                   "SdesChunk: consumed length is exactly pad4(t + 1) for the terminator position t (zeros beyond the 32-bit boundary belong to what follows)",
                   detail=f"consumed = {used!r}; terminator candidates {cands}"[:400], pc=s.pc)
        # the zero-skip loop only steps over zero bytes, one at a time
        zero_loops = 0
        for rp in reps:
            for delta, new in rp.backs:
                for a, nv in new.items():
                    if nv is not None and nv == Lin.atom(a) + 1:
                        z = any(l[0] == "eq" and any(x[0] == "byte" and Lin.from_key(x[2]) == inp.start + Lin.atom(a) for x in l[1].t) and
                                solver.entails([l], flit(eq(view_byte(inp, Lin.atom(a)), 0))) for l in delta)
                        if z:
                            zero_loops += 1
        # the terminator is the *first* null: a loop that steps over a null byte and goes round again must not be the loop
        # that parses items (otherwise bytes behind the terminator are tokenised as items of this chunk)
        for rp in reps:
            kinds = []
            for delta, new in rp.backs:
                nullstep = False
                for a, nv in new.items():
                    if nv is not None and nv == Lin.atom(a) + 1 and solver.entails(list(delta), flit(eq(view_byte(inp, Lin.atom(a)), 0))):
                        nullstep = True
                kinds.append(nullstep)
            if any(kinds):
                res.ob(all(kinds), "terminator", chunk_parse[0],
                       "SdesChunk: the item list ends at the first null type byte — the loop that steps over null bytes does nothing else (no item is parsed behind the terminator)",
                       detail=f"{sum(kinds)} null step(s), {len(kinds) - sum(kinds)} other back edge(s) in one loop")
                n_chunk += 1
        if zero_loops == 0:
            # the same skip written with iterator adaptors: consumed = start + |take_while(bytes from start, b == 0)|
            for s, k, v in outs:
                if k == "val" and isinstance(v, StructV) and v.variant == "Ok" and id(s) in terminated:
                    if zero_take_while(F, s, v.fields["0"].items[1], inp):
                        zero_loops += 1
        n_chunk += chunk_must_accept(F, res, chunk_parse[0], outs, reps, inp)
        res.ob(zero_loops >= 1, "terminator", chunk_parse[0], "SdesChunk: the fill after the terminator is skipped one byte at a time and only over zero bytes (a non-zero fill leaves the offset unaligned and is rejected)")
        for o in I.obligations:
            if not o.ok:
                res.ob(False, o.kind, o.fn, o.goal, o.span, pc=o.pc)
        # length() equals the consumed length
        ln = [it["def"] for it in D.inherent("sdes::SdesChunk") if it["name"] == "length"]
        for s, k, v in outs:
            if k == "val" and isinstance(v, StructV) and v.variant == "Ok" and ln and id(s) in terminated:
                # (a chunk that runs to the end of the input without a null terminator is not well-formed: no claim)
                chunk, used = v.fields["0"].items
                for s2, k2, r in I.inline(ln[0], None, s.clone(), [chunk]):
                    res.ob(isinstance(r, IntV) and isinstance(used, IntV) and solver.entails(s2.pc, flit(eq(r.l, used.l))), "chunk-length", ln[0],
                           "SdesChunk::length() is the chunk's encoded length (what the parser consumed)", detail=f"{r!r} vs {used!r}"[:300], pc=s2.pc)
                    n_chunk += 1
    # ------------------------------------------------------------------ packet level
    I = Interp(F)
    inp = input_slice()
    H = Header(inp)
    outs = I.run(d, [inp])
    from ..core import arithmetic
    arithmetic(res, I, d)
    n_pkt = 0
    for s, k, v in outs:
        if not (k == "val" and isinstance(v, StructV) and v.variant == "Ok"):
            continue
        n_pkt += 1
        P = lin(0)
        if solver.entails(s.pc, H.pbit_set()):
            P = H.last_byte_forms()[0]
        found = solver.entails(s.pc, flit(eq(inp.length(), 4)))
        for rp in I.loop_reports:
            if rp.fn == d:
                for a, init in rp.carried:
                    shift = 4 - lin(init) if lin(init).is_const() else lin(0)
                    if solver.entails(s.pc, flit(eq(Lin.atom(a) + shift, inp.length() - P))):
                        found = True
        res.ob(found, "walk-end", d, "Sdes: the chunk walk starts at byte 4 and ends exactly at len - padding", pc=s.pc)
    n_acc = packet_must_accept(F, res, d, chunk_parse[0]) if chunk_parse else 0
    res.floor("packet-level contract checks", n_acc, 4)
    res.floor("item checks", n_item, 12)
    res.floor("chunk outcomes checked", n_chunk, 4)
    res.floor("packet outcomes checked", n_pkt, 2)
    res.analysed = {"item_checks": n_item, "chunk_checks": n_chunk, "packet_outcomes": n_pkt}
    res.assumptions.append("not decided: acceptance of every RFC-well-formed SDES packet and the classification of ambiguous inputs (see DESIGN.md §5)")
