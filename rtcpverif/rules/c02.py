"""C02 — sender/receiver reports survive a build-then-parse round trip.

The SR/RR parser and its accessors are interpreted over the write log of the SR/RR builder (under
SIZE = Ok(n)): every rejecting path is refuted; every accessor result is entailed equal to the builder
field the RFC table binds it to (the fraction/cumulative overlay is resolved last-writer-wins, the 24-bit
mask is lossless under the builder's own limit); report block k read == report block k written, count
equal, for a symbolic k."""
from .. import solver
from ..analysis import Disc, PARSER_TRAIT
from ..lin import Lin, eq, f_and, f_not, f_or, flit, ge, gt, le, lin, lt, ne, show_formula, show_pc
from ..roundtrip import Trip, acceptance, elements
from ..spec import SCALARS
from ..values import *
from ..wsumm import discover

PAIRS = {"SenderReportBuilder": "SenderReport", "ReceiverReportBuilder": "ReceiverReport"}


def check_padding(res, T, s, pv, P, label, n):
    for s2, r in T.call(s, pv, "padding") or []:
        n[0] += 1
        if solver.entails(s2.pc, flit(ge(P, 1))):
            ok = isinstance(r, StructV) and r.variant == "Some" and isinstance(r.fields["0"], IntV) and solver.entails(s2.pc, flit(eq(r.fields["0"].l, P)))
        else:
            ok = isinstance(r, StructV) and r.variant == "None" and solver.entails(s2.pc, flit(eq(P, 0)))
        res.compare(bool(ok), "field-recovery", T.method(pv.adt, "padding"), f"{label}: padding() reports the configured padding", detail=repr(r)[:200], pc=s2.pc)


def run(ctx, res):
    F = ctx.F
    D = Disc(F)
    bs = {B.name: B for B in discover(F)}
    parsers = {a.split("::")[-1]: D.impl_item(PARSER_TRAIT, a, "parse") for a in D.impls_of(PARSER_TRAIT)}
    # "the configured value" is what the public setter was given: the setter rules (frame / rebuild / collection idioms,
    # C20) for the builders this property speaks about
    from .c20 import setter_rules
    _adts = sorted(B.adt for B in bs.values() if B.name in ('SenderReportBuilder', 'ReceiverReportBuilder', 'ReportBlockBuilder'))
    _ns, _nc, _ = setter_rules(F, D, res, _adts)
    res.floor("(setter, field) pairs of this property's builders checked", _ns, 20)
    n = [0]
    for bname, pname in PAIRS.items():
        B = bs.get(bname)
        res.ob(B is not None and pname in parsers, "anchor", bname, "builder and parser of the pair exist")
        if not B or pname not in parsers:
            continue
        T = Trip(F, B, parsers[pname])
        res.programs += 1
        n[0] += acceptance(res, T, pname)
        b = T.S.b
        for wc, s2, live, unm in T.cases:
            for s, v in live:
                if v.variant != "Ok":
                    continue
                pv = v.fields["0"]
                for acc in SCALARS[pname]:
                    for s3, r in T.call(s, pv, acc) or []:
                        n[0] += 1
                        ok = isinstance(r, IntV) and solver.entails(s3.pc, flit(eq(r.l, b.fields[acc].l)))
                        res.compare(ok, "field-recovery", T.method(pv.adt, acc), f"{pname}::{acc}() returns the configured {acc}", detail=repr(r)[:200], pc=s3.pc)
                check_padding(res, T, s, pv, b.fields["padding"].l, pname, n)
                blocks = b.fields["report_blocks"]
                for s3, r in T.call(s, pv, "n_reports") or []:
                    n[0] += 1
                    res.compare(isinstance(r, IntV) and solver.entails(s3.pc, flit(eq(r.l, blocks.count()))), "field-recovery", T.method(pv.adt, "n_reports"),
                                f"{pname}::n_reports() is the number of blocks added", detail=repr(r), pc=s3.pc)
                for s3, it in T.call(s, pv, "report_blocks") or []:
                    el = elements(T.I, s3, it)
                    if el is None:
                        res.compare(False, "element-match", T.method(pv.adt, "report_blocks"), f"{pname}::report_blocks() is an iterator", detail=repr(it)[:200])
                        continue
                    N, K, els = el
                    n[0] += 1
                    res.compare(solver.entails(s3.pc, flit(eq(N, blocks.count()))), "element-match", T.method(pv.adt, "report_blocks"),
                                f"{pname}: as many report blocks are read as were added", pc=s3.pc)
                    for s4, rb in els:
                        if not isinstance(rb, StructV):
                            res.compare(False, "element-match", T.method(pv.adt, "report_blocks"), "report block k parses", detail=repr(rb)[:200], pc=s4.pc)
                            continue
                        for s5 in T.I.loops.instantiate_forall(s4, ("coll", blocks), K):
                            src = T.I.seq_elem(blocks, K)
                            for acc in SCALARS["ReportBlock"]:
                                for s6, r in T.call(s5, rb, acc) or []:
                                    n[0] += 1
                                    ok = isinstance(r, IntV) and solver.entails(s6.pc, flit(eq(r.l, src.fields[acc].l)))
                                    res.compare(ok, "element-match", T.method(rb.adt, acc), f"{pname}: block[k].{acc}() returns block k's configured {acc}",
                                                detail=repr(r)[:300], pc=s6.pc)
    res.floor("round-trip comparisons", n[0], 50)
    res.analysed = {"comparisons": n[0]}
