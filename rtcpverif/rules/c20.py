"""C20 — builder output depends on what was configured, not on how.

SET summaries of every builder method that returns a builder: (i) frame rule — every field of the
result is either the same field of `self` or is determined by the arguments (so setters of different
fields commute and a repeated setter keeps the last value); (ii) rebuild rule — methods that construct
a new builder value (`*_owned`, `into_owned`) keep every field they are not given; (iii) collection
idioms — list adders append, NACK inserts into a set, FIR's add_ssrc is last-write-wins; (iv) the
FCI wrapper's two variants expose the wrapped builder identically; (v) size/write only read `self`
and only write the output buffer."""
from .. import solver
from ..analysis import Disc, WRITER_TRAIT, FCI_BUILDER, walk_exprs
from ..interp import Interp, State, Unmodelled
from ..lin import Lin, atoms_deep, eq, f_and, flit, lin, show_formula
from ..values import *
from ..wsumm import BUF, Summary, discover


def atoms_of_value(v, acc=None, depth=0):
    acc = set() if acc is None else acc
    if depth > 6:
        return acc
    if isinstance(v, IntV):
        atoms_deep(v.l, acc)
    elif isinstance(v, BoolV):
        _fa(v.f, acc)
    elif isinstance(v, SliceV):
        acc.add(("base", v.base))
        atoms_deep(v.start, acc)
        atoms_deep(v.end, acc)
    elif isinstance(v, CollV):
        acc.add(("coll", v.seq))
    elif isinstance(v, DynV):
        acc.add(("dyn", v.name))
    elif isinstance(v, EnumV):
        acc.add(("enum", v.name))
    elif isinstance(v, (TupV, ArrV)):
        for x in v.items:
            atoms_of_value(x, acc, depth + 1)
    elif isinstance(v, StructV):
        for x in v.fields.values():
            atoms_of_value(x, acc, depth + 1)
    return acc


def _fa(f, acc):
    if f[0] == "lit" and f[1][0] in ("le", "eq", "ne"):
        atoms_deep(f[1][1], acc)
    elif f[0] == "lit":
        acc.add(("bool", f[1][1]))
    elif f[0] in ("and", "or"):
        for x in f[1]:
            _fa(x, acc)


def same_value(a, b):
    return repr(a) == repr(b)


def arg_is(new, arg):
    """is the stored value the argument itself (for byte/str data: the same bytes, whatever the ownership)"""
    if isinstance(new, IntV) and isinstance(arg, IntV):
        return new.l == arg.l
    if isinstance(new, BoolV) and isinstance(arg, BoolV):
        return new.f == arg.f
    if isinstance(new, SliceV) and isinstance(arg, SliceV):
        return new.base == arg.base and new.start == arg.start and new.end == arg.end
    if isinstance(new, StructV) and isinstance(arg, StructV) and new.adt == arg.adt and new.variant == arg.variant:
        return all(arg_is(x, arg.fields.get(k)) for k, x in new.fields.items())
    if isinstance(new, StructV) and new.adt in ("std::option::Option",) and new.variant == "Some":
        return arg_is(new.fields["0"], arg)
    return repr(new) == repr(arg)


def builder_adts(F, D):
    out = set(B.adt for B in discover(F))
    out |= set(D.impls_of(FCI_BUILDER))
    return sorted(out)


def setter_rules(F, D, res, adts):
    """frame / rebuild / collection-idiom rules for the by-value builder methods of the given builder types: what a
    rule calls "the configured value" is the argument of the public setter, so the round-trip and layout properties
    need these for the builders they speak about; returns (pairs checked, collection adders checked, per-type info)"""
    n_set = n_coll = 0
    per = {}
    for adt in adts:
        name = adt.split("::")[-1]
        if F.adts[adt]["is_enum"]:
            continue
        fields = [f["name"] for f in F.adts[adt]["variants"][0]["fields"]]
        results = {}
        for it in D.inherent(adt):
            d = it["def"]
            b = F.bodies.get(d)
            if not b or not b["params"] or not b["params"][0]["self"]:
                continue
            selft = F.types[b["params"][0]["t"]]
            rett = F.types[b["ret"]] if isinstance(b.get("ret"), int) else None
            if selft["k"] != "adt" or not rett or rett.get("k") != "adt" or rett.get("def") != adt:
                continue      # not a by-value `self -> Builder` method
            I = Interp(F)
            me = I.symbolic(D.ty_index_of_adt(adt), ("self",))
            args = [I.symbolic(p["t"], ("arg", i)) for i, p in enumerate(b["params"][1:])]
            arg_atoms = set()
            for a in args:
                atoms_of_value(a, arg_atoms)
            st = State()
            try:
                outs = I.inline(d, None, st, [me] + args)
            except Unmodelled as ex:
                res.unmodelled(d, str(ex))
                continue
            for sp, fn, what in I.unmodelled:
                res.unmodelled(fn, what, sp)
            for s, k, r in outs:
                if not isinstance(r, StructV) or r.adt != adt:
                    res.ob(False, "setter-frame", d, f"{name}::{it['name']} returns a {name}", detail=repr(r)[:200])
                    continue
                for f in fields:
                    old, new = me.fields[f], r.fields.get(f)
                    n_set += 1
                    if isinstance(old, CollV) and isinstance(new, CollV) and old.seq == new.seq:
                        recs = s.colls.get(old.seq, ())
                        if not recs:
                            res.ob(True, "setter-frame", d, f"{name}::{it['name']} keeps {f}")
                            continue
                        n_coll += 1
                        for pc_, val, ex_, how in recs:
                            va = atoms_of_value(val)
                            # built from the arguments and constants only (literal buffers are constants); that no argument is
                            # dropped is the setter-effect rule below
                            consts = {a for a in va if "'lit'" in repr(a) and not any(repr(x) in repr(a) for x in arg_atoms)}
                            from_args = bool(va - consts) and (va - consts) <= arg_atoms
                            kind = old.kind
                            if how == "remove":
                                good, what = from_args, "removes the key given as argument (idempotent)"
                            elif how == "clear":
                                good, what = True, "is emptied"
                            elif kind == "vec":
                                good = how == "push" and from_args
                                what = "appends exactly the argument (insertion order preserved)"
                            elif kind == "set":
                                good = how == "set-insert" and from_args
                                what = "inserts the argument into the ordered set (idempotent)"
                            else:
                                good = how in ("map-insert", "entry-and-modify:last-write-wins") and from_args
                                what = "re-adding a key keeps the last value (insert / and_modify(=v).or_insert(v))"
                            res.ob(good, "collection-idiom", d, f"{name}::{it['name']}: {f} {what}", detail=f"{how}: {val!r}"[:200], pc=s.pc)
                        continue
                    if same_value(old, new):
                        res.ob(True, "setter-frame", d, f"{name}::{it['name']} keeps {f}")
                        continue
                    na = atoms_of_value(new)
                    okf = bool(na & arg_atoms) and not (na & atoms_of_value(me) - arg_atoms)
                    res.ob(okf, "setter-frame" if "owned" not in it["name"] else "rebuild-copy", d,
                           f"{name}::{it['name']}: field {f} is either kept or set from the arguments only", detail=f"{f}: {old!r} -> {new!r}"[:300], pc=s.pc)
                    # ... and then it is the argument itself, not something computed from it (a setter that normalises its
                    # input makes the result depend on more than "the value last set")
                    if okf:
                        exact = any(arg_is(new, a) for a in args)
                        res.ob(exact, "setter-frame" if "owned" not in it["name"] else "rebuild-copy", d,
                               f"{name}::{it['name']}: field {f} receives the argument unchanged", detail=f"{f}: {new!r}"[:300], pc=s.pc)
                # ... and every argument reaches the configuration: a builder method that drops what it was given (an
                # adder that does not add, a setter that does not set) makes the output depend on less than what was configured
                if isinstance(r, StructV) and r.adt == adt:
                    reach = set()
                    for f in fields:
                        x = r.fields.get(f)
                        if isinstance(x, CollV):
                            for pc_, val, ex_, how in s.colls.get(x.seq, ()):
                                atoms_of_value(val, reach)
                            if not (isinstance(me.fields.get(f), CollV) and me.fields[f].seq == x.seq):
                                atoms_of_value(x, reach)
                        else:
                            atoms_of_value(x, reach)
                    for i_, a_ in enumerate(args):
                        aa = atoms_of_value(a_)
                        if aa:
                            res.ob(bool(aa & reach), "setter-effect", d,
                                   f"{name}::{it['name']}: argument {i_ + 1} reaches the builder's configuration (it is stored, appended or inserted)",
                                   detail=repr(a_)[:160], pc=s.pc)
                results.setdefault(it["name"], []).append((s, r, args))
        # an `x_owned` method is `x` up to ownership: on the same arguments both leave the same configuration
        for mname, outs_o in results.items():
            if not mname.endswith("_owned") or mname[:-6] not in results:
                continue
            outs_b = results[mname[:-6]]
            if len(outs_o) != 1 or len(outs_b) != 1:
                continue
            (so, ro, ao), (sb, rb, ab) = outs_o[0], outs_b[0]
            for f in fields:
                n_set += 1
                res.ob(same_value(ro.fields.get(f), rb.fields.get(f)), "rebuild-copy", next((x["def"] for x in D.inherent(adt) if x["name"] == mname), mname),
                       f"{name}::{mname} leaves field {f} exactly as {name}::{mname[:-6]} does on the same arguments",
                       detail=f"{ro.fields.get(f)!r} vs {rb.fields.get(f)!r}"[:300])
        per[name] = {"fields": fields}
    return n_set, n_coll, per


def run(ctx, res):
    F = ctx.F
    D = Disc(F)
    adts = builder_adts(F, D)
    res.floor("builder types", len(adts), 18)
    n_set, n_coll, per = setter_rules(F, D, res, adts)
    # the packet-builder enum wrapper: every method on every variant is the wrapped builder's own (rule shared with C14)
    from .c14 import packet_builder_forwarding
    n_fw_ = packet_builder_forwarding(F, D, res, {B.name: B for B in discover(F)})
    res.floor("PacketBuilder forwarding arms", n_fw_, 24)
    res.floor("(method, field) pairs checked", n_set, 80)
    res.floor("collection adders checked", n_coll, 6)
    # ---- constructors of the owned / borrowed pairs agree on every plain field
    n_pair = 0
    for adt in adts:
        pass
    for d1, b1 in F.bodies.items():
        if b1["name"] != "builder":
            continue
        d2 = d1.rsplit("::", 1)[0] + "::builder_owned"
        if d2 not in F.bodies:
            continue
        I = Interp(F)
        r1 = [r for s, k, r in I.inline(d1, None, State(), [I.symbolic(p["t"], ("arg", i)) for i, p in enumerate(b1["params"])]) if isinstance(r, StructV)]
        r2 = [r for s, k, r in I.inline(d2, None, State(), [I.symbolic(p["t"], ("arg", i)) for i, p in enumerate(F.bodies[d2]["params"])]) if isinstance(r, StructV)]
        for x in r1:
            for y in r2:
                for f in x.fields:
                    if isinstance(x.fields[f], (IntV, BoolV)):
                        n_pair += 1
                        res.ob(same_value(x.fields[f], y.fields.get(f)), "rebuild-copy", d2, f"builder() and builder_owned() start from the same {f}", detail=f"{x.fields[f]!r} vs {y.fields.get(f)!r}")
                    elif isinstance(x.fields[f], StructV):
                        vx, vy = x.fields[f], y.fields.get(f)
                        n_pair += 1
                        res.ob(isinstance(vy, StructV) and vx.adt == vy.adt and {vx.variant, vy.variant} == {"Borrowed", "Owned"}, "wrapper-identity", d2,
                               f"builder()/builder_owned() wrap the given FCI builder (borrowed vs boxed)", detail=f"{vx!r} vs {vy!r}"[:200])
    res.floor("owned/borrowed constructor pairs compared", n_pair, 6)
    # ---- FCI wrapper exposes the wrapped builder in both variants, through both accessors
    n_wr = 0
    for adt in F.adts:
        if adt.split("::")[-1] != "FciBuilderWrapper":
            continue
        for im in F.impls:
            if D.adt_of_impl(im) != adt or im["trait"] not in ("std::convert::AsRef", "std::ops::Deref"):
                continue
            for it in im["items"]:
                if it["kind"] != "AssocFn":
                    continue
                I = Interp(F)
                w = I.symbolic(D.ty_index_of_adt(adt), ("w",))
                seen = set()
                for s, k, r in I.inline(it["def"], None, State(), [w]):
                    var = [l[1][3] for l in s.pc if l[0] == "b" and isinstance(l[1], tuple) and l[1][0] == "variant" and l[2] is True]
                    good = isinstance(r, DynV) and var and var[0] in str(r.name)
                    res.ob(bool(good), "wrapper-identity", it["def"], f"FciBuilderWrapper::{it['name']} returns the builder wrapped by variant {var[0] if var else '?'}", detail=repr(r))
                    seen.add(var[0] if var else None)
                    n_wr += 1
                res.ob(seen == {"Borrowed", "Owned"}, "wrapper-identity", it["def"], "both wrapper variants are handled")
    res.floor("wrapper accessor outcomes", n_wr, 4)
    # ---- purity of size / write
    n_p = 0
    for B in discover(F):
        for d in (B.cs, B.wr, B.gp):
            if not d:
                continue
            b = F.bodies[d]
            selft = F.types[b["params"][0]["t"]]
            n_p += 1
            res.ob(selft["k"] == "ref" and not selft["mut"], "purity", d, f"{B.name}::{b['name']} takes &self (cannot modify the configuration)")
        # interior mutability would defeat &self
        for f in (F.adts[B.adt]["variants"][0]["fields"] if not F.adts[B.adt]["is_enum"] else []):
            ts = F.types[f["t"]]["s"]
            res.ob(not any(x in ts for x in ("Cell<", "Mutex<", "RwLock<", "Atomic")), "purity", B.adt, f"{B.name}.{f['name']} has no interior mutability", detail=ts)
        S = Summary(F, B, exact=(B.kind != "fci"))
        for wc in S.cases:
            for s2, r in wc.outs:
                others = [b_ for b_ in s2.mem if b_ != BUF and s2.mem[b_]]
                n_p += 1
                res.ob(not others, "purity", B.wr, f"{B.name}::write_into_unchecked writes only the output buffer", detail=str(others)[:200])
    res.floor("purity checks", n_p, 60)
    res.analysed = per
    res.assumptions.append("Vec::push appends, BTreeSet::insert is idempotent and iteration is ascending, HashMap insertion replaces (std contracts)")
