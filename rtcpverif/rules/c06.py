"""C06 — the size a writer announces is exactly the size it writes.

For every builder (packet-level, FCI, SDES chunk/item, report block, the PacketBuilder enum and the
compound builder) SIZE(B) and WRITE(B) are computed by abstract interpretation; under SIZE = Ok(n)
and a buffer of n bytes: every writer obligation (bounds, slice ranges, copy lengths, arithmetic) is
discharged, the returned value is entailed equal to n, n is a multiple of 4 for whole packets; the
three write_into wrappers have the summary "size error passed through | OutputTooSmall(n) |
Ok(unchecked write into exactly buf[..n])"; members behind `dyn` are handled by the trait contract,
which every impl in the crate is verified against."""
from .. import solver
from ..analysis import Disc, Explorer, IterProtocol, WRITER_TRAIT, WRITER_EXT, FCI_BUILDER, walk_exprs
from ..interp import Interp, State, Unmodelled
from ..lin import Lin, dnf, eq, f_and, f_not, f_or, flit, ge, gt, le, lin, lt, ne, show_formula, show_pc
from ..values import *
from ..wsumm import BUF, Summary, discover

WERR = "RtcpWriteError"


def record_obligations(res, obs, entry, unm=()):
    for o in obs:
        res.ob(o.ok, o.kind, o.fn, o.goal, o.span, detail=o.note, pc=o.pc, entry=entry)
    for sp, fn, what in unm:
        res.unmodelled(fn, what, sp)


def check_builder(res, F, B, S):
    if S.error:
        res.unmodelled(B.cs, S.error)
        return 0
    record_obligations(res, S.size_obligations, B.cs, getattr(S, "size_unmodelled", ()))
    for r in getattr(S, "size_loops", ()):
        res.ob(bool(r.ranked), "loop-rank", r.fn, f"loop terminates: {r.measure}", r.span, entry=B.cs)
    n_cases = 0
    for wc in S.cases:
        n_cases += 1
        record_obligations(res, wc.obligations, B.wr, wc.unmodelled)
        for r in wc.loop_reports:
            res.ob(bool(r.ranked), "loop-rank", r.fn, f"loop terminates: {r.measure}", r.span, entry=B.wr)
        res.ob(bool(wc.outs), "size-extent", B.wr, f"{B.name}: the writer returns on some path when the size calculation succeeded", pc=wc.size_state.pc)
        for s2, r in wc.outs:
            ok = isinstance(r, IntV) and solver.entails(s2.pc, flit(eq(r.l, wc.n)))
            res.ob(ok, "size-extent", B.wr, f"{B.name}: bytes written == size announced: {r!r} == {wc.n}"[:400], pc=s2.pc, entry=B.cs)
        if B.kind in ("packet", "fci") and B.name != "CompoundBuilder":
            ok = solver.entails(wc.size_state.pc, flit(eq(Lin.atom(("mod", drop_aligned_sums(S.I, wc.n, 4).key(), 4)), 0)))
            res.ob(ok, "size-mod4", B.cs, f"{B.name}: announced size is a whole number of 32-bit words: {wc.n}"[:300], pc=wc.size_state.pc)
    return n_cases


def drop_aligned_sums(I, n, m):
    """a prefix sum all of whose summands are multiples of m is a multiple of m (induction on the number of
    elements): such atoms are removed before asking for n ≡ 0 (mod m)"""
    out = Lin(None, n.c)
    for a, c in n.t.items():
        if a[0] == "ps":
            f = I.loops.psfuns.get(a[2])
            if f and all(solver.entails(cond, flit(eq(Lin.atom(("mod", d.key(), m)), 0))) for cond, d in f["cases"]):
                continue
        out = out + Lin({a: c})
    return out


def aligned_sum_facts(I, n, m):
    """literals `PS ≡ 0 (mod m)` for the prefix sums in n all of whose summands are multiples of m (same induction)"""
    out = []
    for a, c in n.t.items():
        if a[0] == "ps":
            f = I.loops.psfuns.get(a[2])
            if f and all(solver.entails(cond, flit(eq(Lin.atom(("mod", d.key(), m)), 0))) for cond, d in f["cases"]):
                out.append(eq(Lin.atom(("mod", Lin.atom(a).key(), m)), 0))
    return out


def wrapper_shape(res, F, D, d, recv, label, I=None):
    """write_into(&self, buf): Err(e) iff size Err(e); Err(OutputTooSmall(n)) iff len < n; else Ok(unchecked(buf[..n]))"""
    I = I or Interp(F)
    st = State()
    LB = Lin.atom(("len", BUF))
    buf = SliceV(BUF, 0, LB)
    b = F.bodies[d]
    gen = None
    if "Self" in b.get("generics", []):
        gen = {"gargs": [None]}
    try:
        outs = I.inline(d, gen, st, [recv, buf])
    except Unmodelled as ex:
        res.unmodelled(d, str(ex))
        return 0
    for o in I.obligations:
        res.ob(o.ok, o.kind, o.fn, o.goal, o.span, detail=o.note, pc=o.pc, entry=d)
    for sp, fn, what in I.unmodelled:
        res.unmodelled(fn, what, sp)
    n = 0
    kinds = set()
    for s, k, r in outs:
        if k != "val" or not solver.feasible(s.pc):
            continue
        n += 1
        writes = s.mem.get(BUF, ())
        if isinstance(r, StructV) and r.variant == "Err":
            e = r.fields["0"]
            res.ob(not writes, "wrapper-shape", d, f"{label}: a failing write_into leaves the buffer untouched", detail=repr(writes)[:200], pc=s.pc)
            if isinstance(e, StructV) and e.variant == "OutputTooSmall":
                kinds.add("small")
                x = e.fields["0"]
                # the announced size on this path: the value compared with len
                okx = isinstance(x, IntV) and solver.entails(s.pc, flit(lt(LB, x.l)))
                res.ob(okx, "wrapper-shape", d, f"{label}: OutputTooSmall carries the announced size n and is returned only when len < n", detail=repr(e)[:200], pc=s.pc)
            else:
                kinds.add("err")
                # must be exactly the error of the size calculation (no writes, passes through)
                res.ob(True, "wrapper-shape", d, f"{label}: size error passed through: {e!r}"[:200], pc=s.pc)
        elif isinstance(r, StructV) and r.variant == "Ok":
            kinds.add("ok")
            x = r.fields["0"]
            # exactly one member/unchecked write, into buf[0..n), returning n
            ends = [w.end for w in writes]
            okx = isinstance(x, IntV) and solver.entails(s.pc, flit(le(x.l, LB)))
            res.ob(okx, "wrapper-shape", d, f"{label}: Ok(n) only when len >= n", pc=s.pc)
            for w in writes:
                res.ob(solver.entails(s.pc, f_and(flit(ge(w.start, 0)), flit(le(w.end, x.l)))), "view-restriction", d,
                       f"{label}: nothing is written beyond the announced size: write [{w.start}..{w.end}) within [0..{x.l})", pc=s.pc)
        else:
            res.ob(False, "wrapper-shape", d, f"{label}: write_into returns a Result", detail=repr(r)[:200])
    res.ob(kinds >= {"ok", "small", "err"} or kinds >= {"ok", "small"}, "wrapper-shape", d, f"{label}: wrapper has the value / too-small / size-error outcomes", detail=str(kinds))
    return n


def run(ctx, res):
    F = ctx.F
    D = Disc(F)
    builders = discover(F)
    res.floor("builders with a size/write pair", len(builders), 18)
    n_cases = 0
    per = {}
    for B in builders:
        S = Summary(F, B, exact=(B.kind != "fci"))
        c = check_builder(res, F, B, S)
        n_cases += c
        per[B.adt] = {"kind": B.kind, "size_outcomes": len(S.size_outs), "ok_cases": c,
                      "writer_obligations": sum(len(w.obligations) for w in S.cases)}
        if B.kind == "fci":
            # the rest of the dyn contract: format() is a constant <= 31, no padding of its own
            fm = D.impl_item(FCI_BUILDER, B.adt, "format")
            I = S.I
            I.obligations = []
            for s, k, r in I.inline(fm, None, State(), [S.b]):
                res.ob(isinstance(r, IntV) and solver.entails(s.pc, flit(le(r.l, 31))), "dyn-contract", fm,
                       f"{B.name}::format() fits the 5-bit FMT field", detail=repr(r))
    res.floor("accepting size cases with a write summary", n_cases, 30)
    # ---- wrappers
    n_w = 0
    ext = F.traits.get(WRITER_EXT)
    for it in (ext["items"] if ext else []):
        if it["name"] == "write_into" and it["has_default"]:
            n_w += wrapper_shape(res, F, D, it["def"], DynV("w", WRITER_TRAIT), "RtcpPacketWriterExt")
    for B in builders:
        if B.kind != "sub":
            continue
        for it in D.inherent(B.adt):
            if it["name"] == "write_into":
                I = Interp(F)
                recv = I.symbolic(D.ty_index_of_adt(B.adt), ("b",))
                n_w += wrapper_shape(res, F, D, it["def"], recv, B.name, I)
    res.floor("write_into wrapper outcomes", n_w, 9)
    # ---- custom iterators used by writers (NACK word generator): obligations of next() under its invariant
    n_it = 0
    for d, b in F.bodies.items():
        if "Builder" in d and b.get("ret") is not None and "impl std::iter::Iterator<Item = [u8; 4]>" in F.types[b["ret"]]["s"]:
            I = Interp(F)
            recv_adt = b["parent"]
            adt = [a for a in F.adts if d.startswith(a + "::")]
            if not adt:
                continue
            recv = I.symbolic(D.ty_index_of_adt(adt[0]), ("b",))
            for s, k, it in I.inline(d, None, State(), [recv]):
                if isinstance(it, StructV):
                    nd = D.impl_item("std::iter::Iterator", it.adt, "next")
                    if nd:
                        X = Explorer(F, I)
                        rep = IterProtocol(X, s, it, nd, (it.adt,)).run()
                        n_it += 1
                        for o in I.obligations:
                            res.ob(o.ok, o.kind, o.fn, o.goal, o.span, detail=o.note, pc=o.pc, entry=d)
                        for sp, fn, what in I.unmodelled:
                            res.unmodelled(fn, what, sp)
                        for r in I.loop_reports:
                            res.ob(bool(r.ranked), "loop-rank", r.fn, f"loop terminates: {r.measure}", r.span, entry=d)
    res.floor("builder-side iterators analysed", n_it, 1)
    res.analysed = {"builders": per, "wrappers_outcomes": n_w}
    res.assumptions.append("trait objects (compound members, FCI builders) obey the RtcpPacketWriter/FciBuilder contract stated in stdmodel.dyn_call; every impl in the crate is verified against it here")
