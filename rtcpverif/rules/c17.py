"""C17 — writers define every byte they claim and touch nothing else.

(a) the write_into wrappers hand the unchecked writer exactly buf[..n] and write nothing on failure;
(b) the write log of every write_into_unchecked, under SIZE = Ok(n), tiles [0, n): a frontier argument
    over the symbolic regions (quantified per-element regions chain by hi(k) = lo(k+1); members behind a
    `dyn` are regions of their announced size by contract);
(c) no byte of the output buffer is read before the same call has written it (read-modify-write only on
    defined bytes), so the n bytes do not depend on the buffer's previous contents."""
from .. import solver
from ..analysis import Disc, WRITER_TRAIT, WRITER_EXT
from ..interp import Interp, State, Unmodelled, Write
from ..lin import (Lin, atoms_deep, dnf, eq, f_and, f_not, f_or, flit, ge, gt, le, lin, lt, ne, show_formula, show_pc,
                   subst_deep)
from ..values import *
from ..wsumm import BUF, Summary, discover
from .c06 import wrapper_shape


class Region:
    def __init__(self, lo, hi, what, empty_ok=False):
        self.lo, self.hi, self.what, self.empty_ok = lo, hi, what, empty_ok

    def __repr__(self):
        return f"[{self.lo}..{self.hi}) {self.what}"


def group_writes(writes):
    """consecutive writes quantified by the same loop index form one group"""
    out = []
    for w in writes:
        if w.kind != "loop" and w.q is not None and out and isinstance(out[-1], list) and out[-1][0].q == w.q:
            out[-1].append(w)
        elif w.kind != "loop" and w.q is not None:
            out.append([w])
        else:
            out.append(w)
    return out


def regions_of(pc, writes, problems):
    regs = []
    for g in group_writes(writes):
        if isinstance(g, list):
            katom, N = g[0].q
            pck = pc + [le(0, Lin.atom(katom)), lt(Lin.atom(katom), N)]
            inner = [Region(w.start, w.end, f"{w.kind} {w.span}") for w in g]
            r = element_region(pck, inner, katom, N, problems, f"loop over {katom[1]}")
            if r:
                regs.append(r)
        elif g.kind == "loop":
            katom, N = g.q
            los = []
            ok = True
            for cond, ws, pcfull in g.payload:
                # pcfull: the back-edge state's path condition (includes 0 <= k < N, element facts, prefix-sum steps)
                inner = regions_of(pcfull, ws, problems)
                r = element_region(pcfull, inner, katom, N, problems, f"loop over {katom[1]} (path {show_pc(cond)[:80]})")
                if r is None:
                    ok = False
                    continue
                los.append(r)
            if ok and los:
                first = los[0]
                same = all(solver.entails(pc, flit(eq(r.lo, first.lo))) and solver.entails(pc, flit(eq(r.hi, first.hi))) for r in los[1:])
                if not same:
                    problems.append(f"paths of the loop over {katom[1]} do not cover the same element ranges")
                else:
                    regs.append(first)
        else:
            regs.append(Region(g.start, g.end, f"{g.kind} {g.span}"))
    return regs


def element_region(pck, inner, katom, N, problems, what):
    """per-element regions tile [lo(k), hi(k)) with hi(k) == lo(k+1): the loop covers [lo(0), lo(N))"""
    if not inner:
        return None
    # lowest start
    lo = None
    for r in inner:
        if all(solver.entails(pck, flit(le(r.lo, o.lo))) for o in inner):
            lo = r.lo
            break
    if lo is None:
        problems.append(f"{what}: no region is provably the first of the element")
        return None
    hi, why = frontier(pck, inner, lo)
    if hi is None:
        problems.append(f"{what}: element regions do not tile: {why}")
        return None
    K = Lin.atom(katom)
    lo_next = subst_deep(lo, {katom: K + 1})
    if not solver.entails(pck, flit(eq(hi, lo_next))):
        problems.append(f"{what}: element k ends at {hi} but element k+1 starts at {lo_next}")
        return None
    return Region(subst_deep(lo, {katom: lin(0)}), subst_deep(lo, {katom: N}), what, empty_ok=True)


def frontier(pc, regs, start):
    """advance a frontier from `start` over regions whose start is at or below it; returns (frontier, why-stuck)"""
    f = start
    rest = list(regs)
    progress = True
    while rest and progress:
        progress = False
        for r in list(rest):
            if solver.entails(pc, flit(le(r.lo, f))):
                if solver.entails(pc, flit(ge(r.hi, f))):
                    f = r.hi
                elif solver.entails(pc, flit(le(r.hi, f))):
                    pass
                else:
                    return None, f"cannot order the end of {r} against the frontier {f}"
                rest.remove(r)
                progress = True
    if rest:
        # regions that start beyond the frontier: a gap (or an unordered start)
        return None, f"frontier stops at {f}; not reached: {rest[:3]}"
    return f, ""


def buffer_reads(s, n0, writes, ret):
    """byte atoms of the output buffer occurring in written values / the return value / the decisions"""
    bad = set()

    def scan_lin(L):
        for a in atoms_deep(L):
            if a[0] == "byte" and a[1] == BUF:
                bad.add(a)

    def scan_val(v):
        if isinstance(v, IntV):
            scan_lin(v.l)
        elif isinstance(v, (ArrV, TupV)):
            for x in v.items:
                scan_val(x)
        elif isinstance(v, SliceV):
            if v.base == BUF:
                bad.add(("byte", BUF, ("view", str(v.start), str(v.end))))

    def scan_w(w):
        if w.kind == "loop":
            for cond, ws, pcfull in w.payload:
                for x in ws:
                    scan_w(x)
            return
        if w.kind == "bytes":
            for x in w.payload:
                scan_val(x)
        elif w.kind in ("copy", "fill"):
            scan_val(w.payload)

    for w in writes:
        scan_w(w)
    scan_val(ret)
    for l in s.pc[n0:]:
        if l[0] in ("le", "eq", "ne"):
            scan_lin(l[1])
    return bad


def run(ctx, res):
    F = ctx.F
    D = Disc(F)
    builders = discover(F)
    res.floor("builders with a size/write pair", len(builders), 18)
    n_tiled = 0
    per = {}
    for B in builders:
        S = Summary(F, B, exact=(B.kind != "fci"))
        if S.error:
            res.unmodelled(B.cs, S.error)
            continue
        for wc in S.cases:
            for sp, fn, what in wc.unmodelled:
                res.unmodelled(fn, what, sp)
            for s2, r in wc.outs:
                writes = list(s2.mem.get(BUF, ()))
                problems = []
                regs = regions_of(s2.pc, writes, problems)
                hi, why = (None, "")
                if not problems:
                    hi, why = frontier(s2.pc, regs, lin(0))
                ok = not problems and hi is not None and solver.entails(s2.pc, flit(eq(hi, wc.n)))
                detail = "; ".join(problems) or why or (f"frontier ends at {hi}, announced {wc.n}" if hi is not None else "")
                res.ob(ok, "tiling", B.wr, f"{B.name}: the regions written tile [0, n) with n = {wc.n}"[:300], detail=detail[:600], pc=s2.pc, entry=B.cs)
                n_tiled += 1
                bad = buffer_reads(s2, len(wc.size_state.pc), writes, r)
                res.ob(not bad, "rmw-before-def", B.wr, f"{B.name}: no byte of the output buffer is read before this call wrote it",
                       detail=str(sorted(map(str, bad)))[:300], pc=s2.pc, entry=B.cs)
                # nothing outside [0, n)
                for g in regs:
                    res.ob(solver.entails(s2.pc, f_and(flit(ge(g.lo, 0)), flit(le(g.hi, wc.n)))) or
                           (g.empty_ok and solver.entails(s2.pc, flit(eq(g.lo, g.hi)))), "view-restriction", B.wr,
                           f"{B.name}: region {g} lies inside [0, n)"[:300], pc=s2.pc, entry=B.cs)
        # a failing size calculation performs no write: it takes &self and no buffer
        b = F.bodies[B.cs]
        res.ob(len(b["params"]) == 1, "write-before-check", B.cs, f"{B.name}::calculate_size has no access to the output buffer")
        per[B.adt] = {"cases": len(S.cases), "write_paths": sum(len(w.outs) for w in S.cases)}
    res.floor("write paths tiled", n_tiled, 40)
    # ---- wrappers: (a) and failure leaves the buffer unchanged
    n_w = 0
    ext = F.traits.get(WRITER_EXT)
    for it in (ext["items"] if ext else []):
        if it["name"] == "write_into" and it["has_default"]:
            n_w += wrapper_shape(res, F, D, it["def"], DynV("w", WRITER_TRAIT), "RtcpPacketWriterExt")
    for B in builders:
        if B.kind == "sub":
            for it in D.inherent(B.adt):
                if it["name"] == "write_into":
                    I = Interp(F)
                    n_w += wrapper_shape(res, F, D, it["def"], I.symbolic(D.ty_index_of_adt(B.adt), ("b",)), B.name, I)
    res.floor("write_into wrapper outcomes", n_w, 9)
    res.analysed = {"builders": per}
    res.assumptions.append("members behind `dyn` define exactly their announced size (trait contract, verified per impl here and in C06)")
