"""C17 — writers define every byte they claim and touch nothing else.

(a) the write_into wrappers hand the unchecked writer exactly buf[..n] and write nothing on failure;
(b) the write log of every write_into_unchecked, under SIZE = Ok(n), tiles [0, n): a frontier argument
    over the symbolic regions (quantified per-element regions chain by hi(k) = lo(k+1); members behind a
    `dyn` are regions of their announced size by contract);
(c) no byte of the output buffer is read before the same call has written it (read-modify-write only on
    defined bytes), so the n bytes do not depend on the buffer's previous contents."""
from .. import solver
from ..analysis import Disc, WRITER_TRAIT, WRITER_EXT
from ..interp import Interp, State, Unmodelled, Write
from ..lin import (Lin, atoms_deep, dnf, eq, f_and, f_not, f_or, flit, ge, gt, le, lin, lt, ne, show_formula, show_pc,
                   subst_deep)
from ..values import *
from ..wsumm import BUF, Summary, discover
from .c06 import wrapper_shape


from ..regions import Region, regions_of, frontier, element_region, group_writes


def buffer_reads(s, n0, writes, ret):
    """byte atoms of the output buffer occurring in written values / the return value / the decisions"""
    bad = set()

    def scan_lin(L):
        for a in atoms_deep(L):
            if a[0] == "byte" and a[1] == BUF:
                bad.add(a)

    def scan_val(v):
        if isinstance(v, IntV):
            scan_lin(v.l)
        elif isinstance(v, (ArrV, TupV)):
            for x in v.items:
                scan_val(x)
        elif isinstance(v, SliceV):
            if v.base == BUF:
                bad.add(("byte", BUF, ("view", str(v.start), str(v.end))))

    def scan_w(w):
        if w.kind == "loop":
            for cond, ws, pcfull in w.payload:
                for x in ws:
                    scan_w(x)
            return
        if w.kind == "bytes":
            for x in w.payload:
                scan_val(x)
        elif w.kind in ("copy", "fill"):
            scan_val(w.payload)

    for w in writes:
        scan_w(w)
    scan_val(ret)
    for l in s.pc[n0:]:
        if l[0] in ("le", "eq", "ne"):
            scan_lin(l[1])
    return bad


def run(ctx, res):
    F = ctx.F
    D = Disc(F)
    builders = discover(F)
    res.floor("builders with a size/write pair", len(builders), 18)
    n_tiled = 0
    per = {}
    for B in builders:
        S = Summary(F, B, exact=(B.kind != "fci"))
        if S.error:
            res.unmodelled(B.cs, S.error)
            continue
        for wc in S.cases:
            for sp, fn, what in wc.unmodelled:
                res.unmodelled(fn, what, sp)
            for s2, r in wc.outs:
                writes = list(s2.mem.get(BUF, ()))
                problems = []
                regs = regions_of(s2.pc, writes, problems)
                hi, why = (None, "")
                if not problems:
                    hi, why = frontier(s2.pc, regs, lin(0))
                ok = not problems and hi is not None and solver.entails(s2.pc, flit(eq(hi, wc.n)))
                detail = "; ".join(problems) or why or (f"frontier ends at {hi}, announced {wc.n}" if hi is not None else "")
                res.ob(ok, "tiling", B.wr, f"{B.name}: the regions written tile [0, n) with n = {wc.n}"[:300], detail=detail[:600], pc=s2.pc, entry=B.cs)
                n_tiled += 1
                # "exactly n bytes, where n is the value it returns": the value returned is the extent written
                res.ob(isinstance(r, IntV) and solver.entails(s2.pc, flit(eq(r.l, wc.n))), "tiling", B.wr,
                       f"{B.name}: the value returned is the extent written ([0, n) with n = {wc.n})"[:300], detail=f"returned {r!r}"[:200], pc=s2.pc, entry=B.cs)
                bad = buffer_reads(s2, len(wc.size_state.pc), writes, r)
                res.ob(not bad, "rmw-before-def", B.wr, f"{B.name}: no byte of the output buffer is read before this call wrote it",
                       detail=str(sorted(map(str, bad)))[:300], pc=s2.pc, entry=B.cs)
                # nothing outside [0, n)
                for g in regs:
                    res.ob(solver.entails(s2.pc, f_and(flit(ge(g.lo, 0)), flit(le(g.hi, wc.n)))) or
                           (g.empty_ok and solver.entails(s2.pc, flit(eq(g.lo, g.hi)))), "view-restriction", B.wr,
                           f"{B.name}: region {g} lies inside [0, n)"[:300], pc=s2.pc, entry=B.cs)
        # a failing size calculation performs no write: it takes &self and no buffer
        b = F.bodies[B.cs]
        res.ob(len(b["params"]) == 1, "write-before-check", B.cs, f"{B.name}::calculate_size has no access to the output buffer")
        per[B.adt] = {"cases": len(S.cases), "write_paths": sum(len(w.outs) for w in S.cases)}
    res.floor("write paths tiled", n_tiled, 40)
    # ---- wrappers: (a) and failure leaves the buffer unchanged
    n_w = 0
    ext = F.traits.get(WRITER_EXT)
    for it in (ext["items"] if ext else []):
        if it["name"] == "write_into" and it["has_default"]:
            n_w += wrapper_shape(res, F, D, it["def"], DynV("w", WRITER_TRAIT), "RtcpPacketWriterExt")
    for B in builders:
        if B.kind == "sub":
            for it in D.inherent(B.adt):
                if it["name"] == "write_into":
                    I = Interp(F)
                    n_w += wrapper_shape(res, F, D, it["def"], I.symbolic(D.ty_index_of_adt(B.adt), ("b",)), B.name, I)
    res.floor("write_into wrapper outcomes", n_w, 9)
    res.analysed = {"builders": per}
    res.assumptions.append("members behind `dyn` define exactly their announced size (trait contract, verified per impl here and in C06)")
