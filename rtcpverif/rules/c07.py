"""C07 — written packets have the RFC 3550/4585/5104 wire layout.

WRITE(B)'s final memory (last writer wins) is read back, byte by byte at symbolic positions, and
compared with an independent image defined here from the RFC figures: header (V=2, P bit, count,
PT, length = n/4-1 losslessly), big-endian fields at their offsets, per-element rows at symbolic
index k, text length-prefixed, zero fills, trailer of zeros ending in the padding count.
Variable-stride structures (SDES chunk/packet, compound) are checked through the region tree."""
from .. import bits as BL
from .. import solver
from ..analysis import Disc
from ..interp import Interp, State
from ..lin import INT_BITS, Lin, dnf, eq, f_and, f_not, f_or, flit, ge, gt, le, lin, lt, ne, show_formula, show_pc
from ..regions import regions_of, frontier
from ..spec import FIR_ENTRY, MAX_BYTES, PACKET_TYPES, REPORT_BLOCK_SIZE, SCALARS, SLI_FIELDS, VERSION
from ..values import *
from ..wsumm import BUF, Summary, discover

PT_OF_BUILDER = {"SenderReportBuilder": "SenderReport", "ReceiverReportBuilder": "ReceiverReport", "SdesBuilder": "Sdes",
                 "ByeBuilder": "Bye", "AppBuilder": "App", "TransportFeedbackBuilder": "TransportFeedback",
                 "PayloadFeedbackBuilder": "PayloadFeedback"}


def be_byte(v, width, i):
    """byte i (0 = most significant) of the big-endian image of integer expression v of `width` bytes"""
    lo = 8 * (width - 1 - i)
    if width == 1:
        return v
    if lo == 0:
        return Lin.atom(("mod", v.key(), 256))
    if i == 0:
        return Lin.atom(("div", v.key(), 1 << lo))
    return Lin.atom(("sl", v.key(), lo, lo + 8))


class Img:
    """reads of the final memory of one write path"""

    def __init__(self, res, I, s, B, n, entry):
        self.res, self.I, self.s, self.B, self.n, self.entry = res, I, s, B, n, entry
        self.rows = 0

    def fresh(self, name, bound):
        K = Lin.atom(("k", self.I.fresh(name)))
        st = self.s.clone()
        st.pc.append(le(0, K))
        st.pc.append(lt(K, bound))
        return K, st

    def byte_is(self, st, off, expect, what):
        if not solver.feasible(st.pc):
            return
        got = self.I.read_byte(st, BUF, off)
        ok = isinstance(got, IntV) and solver.entails(st.pc, flit(eq(got.l, expect)))
        self.rows += 1
        self.res.compare(ok, "layout-row", self.B.wr, f"{self.B.name}: {what}: byte at {off} == {expect}"[:300],
                         detail=f"written: {got!r}"[:300], pc=st.pc, entry=self.entry)

    def be_field(self, st, off, width, v, what):
        for i in range(width):
            self.byte_is(st, lin(off) + i, be_byte(v, width, i), f"{what} (BE byte {i})")

    def copy_row(self, off, src, what, st=None):
        """bytes [off, off+len(src)) are the bytes of the builder's slice `src`"""
        st0 = st or self.s
        J = Lin.atom(("k", self.I.fresh("j")))
        st1 = st0.clone()
        st1.pc.append(le(0, J))
        st1.pc.append(lt(J, src.length()))
        self.byte_is(st1, lin(off) + J, Lin.atom(("byte", src.base, (src.start + J).key())), what)

    def zero_row(self, lo, hi, what, st=None):
        st0 = st or self.s
        J = Lin.atom(("k", self.I.fresh("j")))
        st1 = st0.clone()
        st1.pc.append(le(lin(lo), J))
        st1.pc.append(lt(J, lin(hi)))
        self.byte_is(st1, J, lin(0), what)


def header_rows(img, count, pt, padding, n):
    s = img.s
    P = padding
    if P is None:
        base = 128
    elif solver.entails(s.pc, flit(ge(P, 1))):
        base = 160
    elif solver.entails(s.pc, flit(eq(P, 0))):
        base = 128
    else:
        img.res.ob(False, "layout-row", img.B.wr, f"{img.B.name}: every write path decides whether padding was requested", pc=s.pc)
        return
    img.byte_is(s, 0, lin(base) + count, f"V=2, P={'1' if base == 160 else '0'}, count")
    img.byte_is(s, 1, pt, "packet type")
    # length field = n/4 - 1, losslessly
    b2 = img.I.read_byte(s, BUF, lin(2))
    b3 = img.I.read_byte(s, BUF, lin(3))
    from .c06 import aligned_sum_facts
    # a sum of 4-aligned element sizes is 4-aligned (same induction as in C06): a derived fact, not an assumption
    pc_al = list(s.pc) + aligned_sum_facts(img.I, lin(n), 4)
    ok = isinstance(b2, IntV) and isinstance(b3, IntV) and solver.entails(pc_al, flit(eq((b2.l.scale(256) + b3.l + 1).scale(4), n)))
    img.rows += 1
    # first for the sizes the field can express (a defect here is never covered by the recorded D11 finding) ...
    pc_rep = pc_al + [le(n, MAX_BYTES)]
    ok_rep = isinstance(b2, IntV) and isinstance(b3, IntV) and solver.entails(pc_rep, flit(eq((b2.l.scale(256) + b3.l + 1).scale(4), n)))
    img.res.compare(ok_rep, "length-field", img.B.wr, f"{img.B.name}: length field == n/4 - 1 (BE16) whenever n <= {MAX_BYTES}",
                    detail=f"n = {n}; written {b2!r},{b3!r}"[:400], pc=pc_rep, entry=img.entry)
    # ... then without that assumption (this is where a builder that accepts more than 65536 words shows)
    img.res.compare(ok, "length-field-lossless", img.B.wr, f"{img.B.name}: length field == n/4 - 1 (BE16, no truncation)",
                    detail=f"n = {n}; written {b2!r},{b3!r}"[:400], pc=pc_al, entry=img.entry)
    if P is not None and base == 160:
        img.zero_row(n - P, n - 1, "padding octets are zero")
        img.byte_is(s, n - 1, P, "last octet is the padding count")


def fld(b, name):
    return b.fields[name]


def report_block_rows(img, st, base_off, rb, label):
    for acc, (off, width, mask) in SCALARS["ReportBlock"].items():
        v = rb.fields[acc].l
        img.be_field(st, lin(base_off) + off, width, v, f"{label}.{acc}")


def rows_for(img, B, b, n):
    name = B.name
    s = img.s
    if name in ("SenderReportBuilder", "ReceiverReportBuilder"):
        pub = PT_OF_BUILDER[name]
        row = PACKET_TYPES[pub]
        blocks = fld(b, "report_blocks")
        header_rows(img, blocks.count(), lin(row["pt"]), fld(b, "padding").l, n)
        for acc, (off, width, _) in SCALARS[pub].items():
            img.be_field(s, off, width, fld(b, acc).l, acc)
        K, st = img.fresh("k", blocks.count())
        for st2 in img.I.loops.instantiate_forall(st, ("coll", blocks), K):
            rb = img.I.seq_elem(blocks, K)
            report_block_rows(img, st2, lin(row["count_base"]) + K.scale(REPORT_BLOCK_SIZE), rb, "block[k]")
        return True
    if name == "ReportBlockBuilder":
        report_block_rows(img, s, 0, b, "block")
        return True
    if name == "AppBuilder":
        header_rows(img, fld(b, "subtype").l, lin(PACKET_TYPES["App"]["pt"]), fld(b, "padding").l, n)
        img.be_field(s, 4, 4, fld(b, "ssrc").l, "ssrc")
        nm = fld(b, "name")
        img.copy_row(8, nm, "name bytes")
        img.zero_row(lin(8) + nm.length(), 12, "name zero-filled to 4 bytes")
        img.copy_row(12, fld(b, "data"), "payload")
        return True
    if name == "ByeBuilder":
        src = fld(b, "sources")
        N = src.count()
        header_rows(img, N, lin(PACKET_TYPES["Bye"]["pt"]), fld(b, "padding").l, n)
        K, st = img.fresh("k", N)
        e = img.I.seq_elem(src, K)
        img.be_field(st, lin(4) + K.scale(4), 4, e.l, "source[k]")
        rs = fld(b, "reason")
        R = rs.length()
        if solver.entails(s.pc, flit(ge(R, 1))):
            off = N.scale(4) + 4
            img.byte_is(s, off, R, "reason length prefix")
            img.copy_row(off + 1, rs, "reason text")
            P = fld(b, "padding").l
            img.zero_row(off + 1 + R, n - P, "zero fill to the next 32-bit boundary")
        return True
    if name == "UnknownBuilder":
        header_rows(img, fld(b, "count").l, fld(b, "type_").l, fld(b, "padding").l, n)
        img.copy_row(4, fld(b, "data"), "payload")
        return True
    if name in ("TransportFeedbackBuilder", "PayloadFeedbackBuilder"):
        pub = PT_OF_BUILDER[name]
        d = None
        for w in s.mem.get(BUF, ()):
            if w.kind == "member":
                d = w.payload
        if d is None:
            img.res.ob(False, "layout-row", B.wr, f"{name}: the FCI member is written", pc=s.pc)
            return True
        fmt = img.I.std._dattr(d, "format", "u8")
        S = img.I.std._dattr(d, "size", "usize")
        header_rows(img, fmt, lin(PACKET_TYPES[pub]["pt"]), fld(b, "padding").l, n)
        img.be_field(s, 4, 4, fld(b, "sender_ssrc").l, "sender_ssrc")
        img.be_field(s, 8, 4, fld(b, "media_ssrc").l, "media_ssrc")
        J = Lin.atom(("k", img.I.fresh("j")))
        st = s.clone()
        st.pc.append(le(0, J))
        st.pc.append(lt(J, S))
        img.byte_is(st, lin(12) + J, Lin.atom(("byte", ("member", repr(d.name)), J.key())), "FCI image at 12")
        img.res.compare(solver.entails(s.pc, flit(eq(lin(12) + S + fld(b, "padding").l, n))), "layout-row", B.wr,
                        f"{name}: n == 12 + FCI + padding", pc=s.pc)
        return True
    if name == "FirBuilder":
        m = fld(b, "ssrc_seq")
        K, st = img.fresh("k", m.count())
        e = img.I.seq_elem(m, K)
        base = K.scale(FIR_ENTRY)
        img.be_field(st, base, 4, e.items[0].l, "entry[k].ssrc")
        img.byte_is(st, base + 4, e.items[1].l, "entry[k].sequence")
        for i in (5, 6, 7):
            img.byte_is(st, base + i, lin(0), "entry[k] reserved bits are zero")
        return True
    if name == "SliBuilder":
        v = fld(b, "lost_mbs")
        K, st = img.fresh("k", v.count())
        e = img.I.seq_elem(v, K)
        # 32-bit word: First(13) Number(13) PictureID(6), big-endian
        word = [0] * 32
        for fname, lo, w in SLI_FIELDS:
            val = e.fields[fname]
            bts = BL.to_bits(val.l, INT_BITS[val.ty])
            for i in range(w):
                word[lo + i] = bts[i]
        for i in range(4):
            lo = 8 * (3 - i)
            expect = BL.from_bits(word[lo:lo + 8])
            img.byte_is(st, K.scale(4) + i, expect, f"entry[k] byte {i} of First(13)|Number(13)|PictureID(6)")
        return True
    if name == "RpsiBuilder":
        bs = fld(b, "native_bit_string")
        Lb = bs.length()
        ov = fld(b, "native_bit_overrun").l
        img.byte_is(s, 0, (n - 2 - Lb).scale(8) + ov, "PB = unused trailing bits (zero fill bytes * 8 + ignored bits)")
        img.byte_is(s, 1, fld(b, "payload_type").l, "0 | payload type (7 bits)")
        # all string bytes but the last are copied verbatim
        J = Lin.atom(("k", img.I.fresh("j")))
        st = s.clone()
        st.pc.append(le(0, J))
        st.pc.append(lt(J, Lb - 1))
        img.byte_is(st, lin(2) + J, Lin.atom(("byte", bs.base, (bs.start + J).key())), "bit string bytes")
        # the last string byte keeps its leading 8 - ignored bits; the ignored ones are padding bits, zero (RFC 4585 §6.3.3.2)
        last = Lin.atom(("byte", bs.base, (bs.start + Lb - 1).key()))
        lbits = BL.to_bits(last, 8)
        covered = []
        for c in range(0, 9):
            sc = s.clone()
            sc.pc.append(ge(Lb, 1))
            sc.pc.append(eq(ov, c))
            if not solver.feasible(sc.pc):
                continue
            covered.append(flit(eq(ov, c)))
            expect = BL.from_bits([0] * c + list(lbits[c:])) if c < 8 else lin(0)
            img.byte_is(sc, lin(1) + Lb, expect, f"last string byte with its {c} ignored bit(s) cleared")
        img.res.compare(solver.entails(s.pc, f_or(flit(eq(Lb, 0)), *covered)) if covered else solver.entails(s.pc, flit(eq(Lb, 0))), "layout-row", B.wr,
                        "RpsiBuilder: the ignored-bit count of an accepted non-empty string is one of the cases 0..8 checked", pc=s.pc)
        img.zero_row(lin(2) + Lb, n, "zero fill to 32 bits")
        return True
    if name == "PliBuilder":
        img.res.compare(n == lin(0), "layout-row", B.wr, "PliBuilder: empty FCI")
        img.rows += 1
        return True
    if name == "SdesItemBuilder":
        img.byte_is(s, 0, fld(b, "type_").l, "item type")
        v, p = fld(b, "value"), fld(b, "prefix")
        if solver.entails(s.pc, flit(eq(fld(b, "type_").l, 8))):
            img.byte_is(s, 1, p.length() + v.length() + 1, "PRIV length = 1 + prefix + value")
            img.byte_is(s, 2, p.length(), "prefix length")
            img.copy_row(3, p, "prefix bytes")
            img.copy_row(lin(3) + p.length(), v, "value bytes")
        else:
            img.byte_is(s, 1, v.length(), "value length")
            img.copy_row(2, v, "value bytes")
        return True
    return False


def region_rows(img, B, b, n):
    """variable-stride structures: checked on the region tree"""
    name = B.name
    s = img.s
    writes = list(s.mem.get(BUF, ()))
    probs = []
    regs = regions_of(s.pc, writes, probs)
    if name == "SdesChunkBuilder":
        img.be_field(s, 0, 4, fld(b, "ssrc").l, "chunk SSRC")
        # last region: zero fill, non-empty, ending on a 32-bit boundary == n
        fills = [w for w in writes if w.kind == "fill"]
        ok = bool(fills) and isinstance(fills[-1].payload, IntV) and fills[-1].payload.l == lin(0) and \
            solver.entails(s.pc, f_and(flit(ge(fills[-1].end - fills[-1].start, 1)), flit(eq(fills[-1].end, n)))) and \
            solver.entails(s.pc, flit(eq(Lin.atom(("mod", n.key(), 4)), 0)))
        img.rows += 1
        img.res.compare(ok, "layout-row", B.wr, "SdesChunkBuilder: items are followed by at least one null octet and zeros up to the 32-bit boundary", pc=s.pc)
        loops = [r for r in regs if r.what.startswith("loop")]
        ok2 = not probs and len(loops) == 1 and solver.entails(s.pc, flit(eq(loops[0].lo, 4))) and bool(fills) and \
            solver.entails(s.pc, flit(eq(loops[0].hi, fills[-1].start)))
        img.rows += 1
        img.res.compare(ok2, "layout-row", B.wr, "SdesChunkBuilder: items are laid out contiguously from byte 4 up to the terminator", detail="; ".join(probs)[:300], pc=s.pc)
        return True
    if name == "SdesBuilder":
        ch = fld(b, "chunks")
        header_rows(img, ch.count(), lin(PACKET_TYPES["Sdes"]["pt"]), fld(b, "padding").l, n)
        loops = [r for r in regs if r.what.startswith("loop")]
        P = fld(b, "padding").l
        ok = not probs and len(loops) == 1 and solver.entails(s.pc, f_and(flit(eq(loops[0].lo, 4)), flit(eq(loops[0].hi, n - P))))
        img.rows += 1
        img.res.compare(ok, "layout-row", B.wr, "SdesBuilder: chunks are laid out contiguously in [4, n - padding)", detail="; ".join(probs)[:300], pc=s.pc)
        return True
    if name == "CompoundBuilder":
        hi, why = (None, "")
        if not probs:
            hi, why = frontier(s.pc, regs, lin(0))
        ok = hi is not None and solver.entails(s.pc, flit(eq(hi, n)))
        img.rows += 1
        img.res.compare(ok, "layout-row", B.wr, "CompoundBuilder: member images are concatenated in order over [0, n)", detail=("; ".join(probs) or why)[:300], pc=s.pc)
        return True
    return False


def run(ctx, res):
    F = ctx.F
    D = Disc(F)
    builders = discover(F)
    res.floor("builders", len(builders), 18)
    # the image is that of "the requested configuration", i.e. of what the public setters were given: the setter rules of
    # C20 for every builder (a FIR entry must carry the sequence number given last for its SSRC, a list its insertion order)
    from .c20 import setter_rules, builder_adts
    _ns, _nc, _ = setter_rules(F, D, res, [a for a in builder_adts(F, D)])
    res.floor("(setter, field) pairs checked", _ns, 80)
    per = {}
    total_rows = 0
    for B in builders:
        if B.name == "PacketBuilder":
            continue      # forwards to the member builders (C14)
        S = Summary(F, B, exact=(B.kind != "fci"))
        if S.error:
            res.unmodelled(B.cs, S.error)
            continue
        rows = 0
        for wc in S.cases:
            for sp_, fn_, what_ in wc.unmodelled:
                res.unmodelled(fn_, what_, sp_)
            for s2, r in wc.outs:
                img = Img(res, S.I, s2, B, wc.n, B.cs)
                done = rows_for(img, B, S.b, wc.n)
                done = region_rows(img, B, S.b, wc.n) or done
                if not done and B.name != "NackBuilder":
                    from .c16 import RULES as _TABLE
                    res.extra_type(B.name, "builder has layout rows in the RFC table", _TABLE.keys(), [x.name for x in builders])
                rows += img.rows
        if B.name == "NackBuilder":
            rows += nack_rows(res, F, D, S)
            from .c05 import nack_encoder
            nack_encoder(F, D, res)     # a new word only when the distance exceeds 16: the greedy (= minimal) word list
        res.programs += 1
        per[B.name] = rows
        total_rows += rows
    res.floor("layout rows compared", total_rows, 250)
    res.analysed = {"rows_per_builder": per}
    res.trusted.append("the RFC layout transcription in rtcpverif/spec.py and rules/c07.py")
    res.assumptions.append("NACK: minimum number of words — decided as the step relation of the word generator (a requested number at distance "
                           "1..=16 from the current PID sets its bit, a new word is started only beyond 16, nothing is dropped); that this greedy "
                           "cover is minimal is the usual exchange argument for interval covering, on paper")


def nack_rows(res, F, D, S):
    """word k of the FCI is item k of the word generator; each word is BE16 PID, BE16 BLP"""
    n = 0
    enc = D.by_signature(["u16", "u16"], "[u8; 4]", "feedback::nack::")
    res.ob(len(enc) == 1, "anchor", "nack::encode_entry", "the NACK word encoder exists")
    if enc:
        I = Interp(F)
        base = IntV(Lin.atom(("sym", "pid", "u16")), "u16")
        mask = IntV(Lin.atom(("sym", "blp", "u16")), "u16")
        for s, k, r in I.inline(enc[0], None, State(), [base, mask]):
            okr = isinstance(r, ArrV) and len(r.items) == 4
            exp = [be_byte(base.l, 2, 0), be_byte(base.l, 2, 1), be_byte(mask.l, 2, 0), be_byte(mask.l, 2, 1)]
            for i in range(4):
                good = okr and isinstance(r.items[i], IntV) and solver.entails(s.pc, flit(eq(r.items[i].l, exp[i])))
                res.compare(good, "layout-row", enc[0], f"NACK word byte {i} is the big-endian byte of (PID, BLP): {exp[i]}", detail=repr(r)[:200])
                n += 1
    for wc in S.cases:
        for s2, r in wc.outs:
            ws = s2.mem.get(BUF, ())
            good = len(ws) == 1 and ws[0].q is not None and ws[0].kind == "copy" and \
                solver.entails(s2.pc + [le(0, Lin.atom(ws[0].q[0])), lt(Lin.atom(ws[0].q[0]), ws[0].q[1])],
                               f_and(flit(eq(ws[0].start, Lin.atom(ws[0].q[0]).scale(4))), flit(eq(ws[0].end - ws[0].start, 4))))
            res.compare(good, "layout-row", S.B.wr, "NackBuilder: word k of the generator is written at [4k, 4k+4)", detail=repr(ws)[:300], pc=s2.pc)
            n += 1
    return n
