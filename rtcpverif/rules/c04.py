"""C04 — BYE and APP packets survive a build-then-parse round trip.

The BYE/APP parser and accessors are interpreted over the builder's write log for symbolic numbers of
sources, reason length, payload length and padding: every rejecting path is refuted; sources (count and
element k), reason bytes (absent iff none was set), subtype, name (zero-filled), payload and padding
are entailed equal to what was configured."""
from .. import solver
from ..analysis import Disc, PARSER_TRAIT
from ..lin import Lin, eq, f_and, f_not, f_or, flit, ge, gt, le, lin, lt, ne, show_formula, show_pc
from ..roundtrip import Trip, acceptance, elements
from ..values import *
from ..wsumm import BUF, discover
from .c02 import check_padding


def view_is_copy_of(T, s, view, src, what, res, fn):
    """bytes of the returned view are the bytes of the builder's slice, same length"""
    if not isinstance(view, SliceV):
        res.compare(False, "field-recovery", fn, f"{what}: a byte view is returned", detail=repr(view)[:200])
        return
    ok_len = solver.entails(s.pc, flit(eq(view.length(), src.length())))
    J = Lin.atom(("k", T.I.fresh("j")))
    s1 = s.clone()
    s1.pc.append(le(0, J))
    s1.pc.append(lt(J, src.length()))
    ok_bytes = True
    if solver.feasible(s1.pc):
        got = T.I.read_byte(s1, view.base, view.start + J)
        want = Lin.atom(("byte", src.base, (src.start + J).key()))
        ok_bytes = isinstance(got, IntV) and solver.entails(s1.pc, flit(eq(got.l, want)))
    res.compare(ok_len and ok_bytes, "field-recovery", fn, f"{what}: same length and same bytes as configured", detail=f"{view!r}"[:200], pc=s.pc)


def run(ctx, res):
    F = ctx.F
    D = Disc(F)
    bs = {B.name: B for B in discover(F)}
    parsers = {a.split("::")[-1]: D.impl_item(PARSER_TRAIT, a, "parse") for a in D.impls_of(PARSER_TRAIT)}
    # "the configured value" is what the public setter was given: the setter rules (frame / rebuild / collection idioms,
    # C20) for the builders this property speaks about
    from .c20 import setter_rules
    _adts = sorted(B.adt for B in bs.values() if B.name in ('ByeBuilder', 'AppBuilder'))
    _ns, _nc, _ = setter_rules(F, D, res, _adts)
    res.floor("(setter, field) pairs of this property's builders checked", _ns, 10)
    n = [0]
    # ------------------------------------------------------------------ BYE
    B = bs.get("ByeBuilder")
    res.ob(B is not None and "Bye" in parsers, "anchor", "ByeBuilder", "builder and parser exist")
    if B and "Bye" in parsers:
        T = Trip(F, B, parsers["Bye"])
        res.programs += 1
        n[0] += acceptance(res, T, "Bye")
        b = T.S.b
        srcs, reason, P = b.fields["sources"], b.fields["reason"], b.fields["padding"].l
        for wc, s2, live, unm in T.cases:
            for s, v in live:
                if v.variant != "Ok":
                    continue
                pv = v.fields["0"]
                check_padding(res, T, s, pv, P, "Bye", n)
                for s3, it in T.call(s, pv, "ssrcs") or []:
                    el = elements(T.I, s3, it)
                    if el is None:
                        res.compare(False, "element-match", T.method(pv.adt, "ssrcs"), "Bye::ssrcs() is an iterator", detail=repr(it)[:200])
                        continue
                    N, K, els = el
                    n[0] += 1
                    res.compare(solver.entails(s3.pc, flit(eq(N, srcs.count()))), "element-match", T.method(pv.adt, "ssrcs"), "Bye: as many sources are read as were added", pc=s3.pc)
                    for s4, x in els:
                        n[0] += 1
                        want = T.I.seq_elem(srcs, K)
                        res.compare(isinstance(x, IntV) and solver.entails(s4.pc, flit(eq(x.l, want.l))), "element-match", T.method(pv.adt, "ssrcs"),
                                    "Bye: source k read == source k added", detail=repr(x)[:200], pc=s4.pc)
                for s3, r in T.call(s, pv, "reason") or []:
                    n[0] += 1
                    if solver.entails(s3.pc, flit(eq(reason.length(), 0))):
                        res.compare(isinstance(r, StructV) and r.variant == "None", "field-recovery", T.method(pv.adt, "reason"), "Bye::reason() is None when no reason was set", detail=repr(r)[:200], pc=s3.pc)
                    else:
                        if isinstance(r, StructV) and r.variant == "Some":
                            view_is_copy_of(T, s3, r.fields["0"], reason, "Bye::reason()", res, T.method(pv.adt, "reason"))
                        else:
                            res.compare(False, "field-recovery", T.method(pv.adt, "reason"), "Bye::reason() returns the configured reason", detail=repr(r)[:200], pc=s3.pc)
    # ------------------------------------------------------------------ APP
    B = bs.get("AppBuilder")
    res.ob(B is not None and "App" in parsers, "anchor", "AppBuilder", "builder and parser exist")
    if B and "App" in parsers:
        T = Trip(F, B, parsers["App"])
        res.programs += 1
        n[0] += acceptance(res, T, "App")
        b = T.S.b
        P = b.fields["padding"].l
        for wc, s2, live, unm in T.cases:
            for s, v in live:
                if v.variant != "Ok":
                    continue
                pv = v.fields["0"]
                check_padding(res, T, s, pv, P, "App", n)
                for s3, r in T.call(s, pv, "ssrc") or []:
                    n[0] += 1
                    res.compare(isinstance(r, IntV) and solver.entails(s3.pc, flit(eq(r.l, b.fields["ssrc"].l))), "field-recovery", T.method(pv.adt, "ssrc"), "App::ssrc() returns the configured SSRC", detail=repr(r), pc=s3.pc)
                # subtype via the header accessor
                sub = [it["def"] for it in F.traits["RtcpPacketParserExt"]["items"] if it["name"] == "subtype"]
                for s3, k3, r in T.I.inline(sub[0], {"gargs": [D.ty_index_of_adt(pv.adt)]}, s.clone(), [pv]) if sub else []:
                    n[0] += 1
                    res.compare(isinstance(r, IntV) and solver.entails(s3.pc, flit(eq(r.l, b.fields["subtype"].l))), "field-recovery", sub[0], "App::subtype() returns the configured subtype", detail=repr(r), pc=s3.pc)
                for s3, r in T.call(s, pv, "name") or []:
                    n[0] += 1
                    nm = b.fields["name"]
                    okn = isinstance(r, SliceV) and solver.entails(s3.pc, flit(eq(r.length(), 4)))
                    if okn:
                        for i in range(4):
                            got = T.I.read_byte(s3, r.base, r.start + i)
                            for cond, want in ((flit(lt(lin(i), nm.length())), Lin.atom(("byte", nm.base, (nm.start + i).key()))), (flit(ge(lin(i), nm.length())), lin(0))):
                                for s4 in T.I.assume(s3, cond):
                                    okn = okn and isinstance(got, IntV) and solver.entails(s4.pc, flit(eq(T.I.read_byte(s4, r.base, r.start + i).l, want)))
                    res.compare(bool(okn), "field-recovery", T.method(pv.adt, "name"), "App::name() is the configured name, zero-filled to 4 bytes", detail=repr(r)[:200], pc=s3.pc)
                for s3, r in T.call(s, pv, "data") or []:
                    n[0] += 1
                    view_is_copy_of(T, s3, r, b.fields["data"], "App::data()", res, T.method(pv.adt, "data"))
    res.floor("round-trip comparisons", n[0], 30)
    res.analysed = {"comparisons": n[0]}
