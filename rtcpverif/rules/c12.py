"""C12 — generic dispatch and conversions agree with the typed parsers.

The generic parser and every conversion are interpreted with the typed parsers left uninterpreted
(`T::parse(view)` = "Ok(a T built from exactly this view) | Err(its error)"), so each outcome shows
which parser was applied to which bytes and how its result was wrapped or passed through."""
from .. import solver
from ..analysis import Disc, PARSER_TRAIT, PARSED, ERROR_OF, opaque_parse_hook
from ..interp import Interp, State, Unmodelled
from ..lin import Lin, eq, f_and, f_not, f_or, flit, ge, gt, le, lin, lt, ne, show_formula
from ..spec import PACKET_TYPES, UNKNOWN_MIN
from ..values import *
from ..wire import Header, view_byte
from .c01 import input_slice
from .c08 import short, data_view

ERR = "RtcpParseError"


def same_view(pc, a, b):
    return isinstance(a, SliceV) and isinstance(b, SliceV) and a.base == b.base and \
        solver.entails(pc, f_and(flit(eq(a.start, b.start)), flit(eq(a.end, b.end))))


def by(v):
    x = v.fields.get("__by") if isinstance(v, StructV) else None
    return x.fn if isinstance(x, FnV) else None


def run(ctx, res):
    F = ctx.F
    D = Disc(F)
    parsers = {}          # adt -> parse def
    for adt in D.impls_of(PARSER_TRAIT):
        parsers[adt] = D.impl_item(PARSER_TRAIT, adt, "parse")
    enum_adt = [a for a in parsers if F.adts[a]["is_enum"]]
    res.floor("generic packet enum", len(enum_adt), 1)
    if not enum_adt:
        return
    P = enum_adt[0]
    unknown = [a for a in parsers if short(a) == "Unknown"]
    typed = {a: d for a, d in parsers.items() if short(a) in PACKET_TYPES}
    res.floor("typed parsers", len(typed), 7)
    entry_of = {d: a for a, d in parsers.items() if a != P}
    variants = {}         # variant name -> payload adt
    for vd in F.adts[P]["variants"]:
        t = F.types[vd["fields"][0]["t"]] if vd["fields"] else None
        variants[vd["name"]] = t.get("def") if t else None
    # ---------------------------------------------------------------- (a) dispatch
    I = Interp(F)
    I.call_hook = opaque_parse_hook(F, entry_of)
    inp = input_slice()
    H = Header(inp)
    outs = I.run(parsers[P], [inp])
    from ..core import arithmetic
    arithmetic(res, I, parsers[P])
    seen_ok, seen_err = set(), set()
    n = 0
    for s, k, v in outs:
        if k != "val" or not isinstance(v, StructV):
            continue
        n += 1
        if v.variant == "Ok":
            pk = v.fields["0"]
            okk = isinstance(pk, StructV) and pk.adt == P
            payload = pk.fields.get("0") if okk else None
            if not (okk and isinstance(payload, StructV) and payload.variant == PARSED):
                res.ob(False, "dispatch-arm", parsers[P], "every accepted outcome wraps the value returned by a typed parser", detail=repr(v)[:300], pc=s.pc)
                continue
            padt = payload.adt
            res.ob(variants.get(pk.variant) == padt and by(payload) == parsers.get(padt), "dispatch-arm", parsers[P],
                   f"variant {pk.variant} holds the result of its own payload type's parser", detail=f"payload parsed by {by(payload)}", pc=s.pc)
            res.ob(same_view(s.pc, field_of(payload, SliceV, "data"), inp), "dispatch-arm", parsers[P],
                   f"{short(padt)}::parse is applied to the unchanged input", pc=s.pc)
            name = short(padt)
            if name in PACKET_TYPES:
                goal = f_and(flit(ge(H.len, UNKNOWN_MIN)), flit(eq(H.ptype(), PACKET_TYPES[name]["pt"])))
            else:
                goal = f_and(flit(ge(H.len, UNKNOWN_MIN)), *[flit(ne(H.ptype(), r["pt"])) for r in PACKET_TYPES.values()])
            res.ob(solver.entails(s.pc, goal), "dispatch-arm", parsers[P], f"{name} is selected exactly by its RFC packet type: {show_formula(goal)}", pc=s.pc)
            seen_ok.add(padt)
        else:
            e = v.fields["0"]
            if isinstance(e, StructV) and e.variant == ERROR_OF:
                padt = entry_of.get(by(e))
                res.ob(same_view(s.pc, e.fields["view"], inp), "dispatch-arm", parsers[P], "the typed parser's error is for the unchanged input", pc=s.pc)
                name = short(padt) if padt else "?"
                if name in PACKET_TYPES:
                    goal = f_and(flit(ge(H.len, UNKNOWN_MIN)), flit(eq(H.ptype(), PACKET_TYPES[name]["pt"])))
                else:
                    goal = f_and(flit(ge(H.len, UNKNOWN_MIN)), *[flit(ne(H.ptype(), r["pt"])) for r in PACKET_TYPES.values()])
                res.ob(solver.entails(s.pc, goal), "dispatch-arm", parsers[P], f"error of {name}::parse is passed through only for its own packet type", pc=s.pc)
                seen_err.add(padt)
            else:
                # the generic parser's own error: only the too-short one
                goal = flit(lt(H.len, UNKNOWN_MIN))
                res.ob(isinstance(e, StructV) and e.variant == "Truncated" and solver.entails(s.pc, goal), "dispatch-arm", parsers[P],
                       "the generic parser fails on its own only for inputs shorter than a header", detail=repr(e)[:200], pc=s.pc)
    for a in list(typed) + unknown:
        res.ob(a in seen_ok and a in seen_err, "dispatch-exhaustive", parsers[P], f"{short(a)} is reachable through the generic parser (value and error)")
    # ---------------------------------------------------------------- (b) conversions
    n_conv = 0
    for tgt_adt, tgt_parse in typed.items():
        tname = short(tgt_adt)
        tpt = PACKET_TYPES[tname]["pt"]
        for cd, tgt, by_ref, tr in D.conversions_from(P) + [c for u in unknown for c in D.conversions_from(u)]:
            if tgt != tgt_adt or tr != "std::convert::TryFrom":
                continue
            b = F.bodies[cd]
            src_adt = F.types[F.strip_ref(b["params"][0]["t"])]["def"]
            if src_adt == P:
                cases = list(variants.items())
            else:
                cases = [(None, src_adt)]
            for vname, padt in cases:
                I = Interp(F)
                I.call_hook = opaque_parse_hook(F, entry_of)
                st = State()
                pv = I.symbolic(D.ty_index_of_adt(padt), ("src",))
                srcv = StructV(P, vname, {"0": pv}) if vname else pv
                try:
                    couts = I.inline(cd, None, st, [srcv])
                except Unmodelled as ex:
                    res.unmodelled(cd, str(ex))
                    continue
                for sp, fn, what in I.unmodelled:
                    res.unmodelled(fn, what, sp)
                for s, k, r in couts:
                    n_conv += 1
                    label = f"{short(src_adt)}{'::' + vname if vname else ''} -> {tname}{' (by ref)' if by_ref else ''}"
                    if padt == tgt_adt:
                        okc = isinstance(r, StructV) and r.variant == "Ok" and r.fields["0"] is pv or \
                            (isinstance(r, StructV) and r.variant == "Ok" and repr(r.fields["0"]) == repr(pv))
                        res.ob(bool(okc), "conversion-shape", cd, f"{label}: matching variant returns the already parsed value", detail=repr(r)[:200], pc=s.pc)
                    elif short(padt) == "Unknown":
                        inner = r.fields.get("0") if isinstance(r, StructV) else None
                        good = isinstance(inner, StructV) and inner.variant in (PARSED, ERROR_OF) and by(inner) == tgt_parse and \
                            same_view(s.pc, inner.fields.get("data") or inner.fields.get("view"), field_of(pv, SliceV, "data")) and \
                            ((r.variant == "Ok") == (inner.variant == PARSED))
                        res.ob(bool(good), "conversion-shape", cd, f"{label}: an unknown packet is re-parsed by {tname}::parse on exactly its bytes", detail=repr(r)[:200], pc=s.pc)
                    else:
                        e = r.fields.get("0") if isinstance(r, StructV) and r.variant == "Err" else None
                        good = False
                        if isinstance(e, StructV) and e.variant == "PacketTypeMismatch":
                            a, q = e.fields["actual"], e.fields["requested"]
                            dv = data_view(pv)
                            if isinstance(a, IntV) and isinstance(q, IntV) and dv is not None:
                                good = solver.entails(s.pc, f_and(flit(eq(a.l, view_byte(dv, 1))), flit(eq(q.l, tpt))))
                        res.ob(good, "conversion-shape", cd, f"{label}: a different known variant gives PacketTypeMismatch{{actual: its type byte, requested: {tpt}}}", detail=repr(r)[:200], pc=s.pc)
    res.floor("conversion cases (target x source variant x by-value/by-ref)", n_conv, 7 * (8 + 1) * 2)
    # ---------------------------------------------------------------- (c) try_as forwards to TryFrom<&Self>; Unknown exposes its input
    n_fw = 0
    for src_adt in [P] + unknown:
        for it in D.inherent(src_adt):
            if it["name"] != "try_as":
                continue
            body = F.bodies[it["def"]]["body"]
            calls = []
            from ..analysis import walk_exprs
            walk_exprs(body, lambda e: calls.append(e) if e.get("k") == "Call" else None)
            # `P::try_from(self)`, or the same through the blanket `TryInto` impl (`self.try_into()`)
            conv = [c for c in calls if c.get("fn") in ("std::convert::TryFrom::try_from", "std::convert::TryInto::try_into")]
            okf = len(calls) == 1 and len(conv) == 1 and len(conv[0]["args"]) == 1 and _is_self(conv[0]["args"][0])
            res.ob(okf, "conversion-shape", it["def"], f"{short(src_adt)}::try_as::<P>() is exactly P::try_from(self)")
            n_fw += 1
    for u in unknown:
        I = Interp(F)
        outs = I.run(parsers[u], [inp])
        for s, k, v in outs:
            if k == "val" and isinstance(v, StructV) and v.variant == "Ok":
                uv = v.fields["0"]
                for it in D.inherent(u):
                    if it["name"] == "data":
                        for s2, k2, r in I.inline(it["def"], None, s.clone(), [uv]):
                            res.ob(same_view(s2.pc, r, inp), "conversion-shape", it["def"], "Unknown::data() is the unchanged input", pc=s2.pc)
                            n_fw += 1
    res.floor("forwarding / exposure checks", n_fw, 3)
    res.analysed = {"dispatch_outcomes": n, "conversion_cases": n_conv, "typed_parsers": sorted(short(a) for a in typed)}


def _is_self(e):
    while e["k"] in ("Use", "Borrow", "Deref"):
        e = e.get("src") or e.get("arg")
    return e["k"] == "Var" and e["name"] == "self"
