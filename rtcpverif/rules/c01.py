"""C01 — parsing untrusted bytes never panics and always terminates.

Every partial operation met while interpreting (a) each parsing entry point on an arbitrary byte
string and (b) every public method, conversion and iterator on every value an entry point can
return (under exactly the facts established on the path that constructed the value — the type
invariant) is an obligation; every loop needs a ranking argument; every stateful iterator needs an
inductive state invariant and a progress measure bounded by the input length."""
from ..analysis import Disc, Explorer, validated_recurrence
from ..interp import Interp, Unmodelled
from ..lin import Lin, show_formula
from ..values import *

FLOOR_ENTRIES = 16      # 9 RtcpPacketParser impls, 5 FciParser impls, Compound, ReportBlock (+ SDES sub-parsers are private)
FLOOR_METHODS = 120
FLOOR_OBLIGATIONS = 600


def input_slice(name="D"):
    return SliceV(name, 0, Lin.atom(("len", name)))


def construction_discipline(F, entries):
    """ADTs whose every value is built on a path of their own entry point (struct literal sites only in
    the entry function, a derived Clone, or — for an enum of views — a From impl wrapping a view)"""
    from ..analysis import literal_sites
    sites = literal_sites(F)
    ok, bad = set(), {}
    for d, adt, kind in entries:
        allowed = {d}
        extra = []
        for s in sites.get(adt, ()):
            if s == d:
                continue
            b = F.bodies[s]
            derived = b["sp"][5] == 1 and b["name"] == "clone"
            wrap = F.adts[adt]["is_enum"] and b["name"] == "from" and "std::convert::From<" in s
            if not (derived or wrap):
                extra.append(s)
        if extra:
            bad[adt] = extra
        else:
            ok.add(adt)
    return ok, bad


def analyse_entry(F, d, adt, on_value=None, on_method=None, covered=(), entry_of=None):
    I = Interp(F)
    X = Explorer(F, I)
    X.covered_elsewhere = set(covered) - {adt}
    X.on_value, X.on_method = on_value, on_method
    outs = I.run(d, [input_slice()])
    if entry_of:
        # after the entry itself: calls into other (separately analysed) entry points are opaque
        from ..analysis import opaque_parse_hook
        I.call_hook = opaque_parse_hook(F, {k: v for k, v in entry_of.items() if v in X.covered_elsewhere})
    vr = validated_recurrence(I, d)
    if vr is not None:
        X.validated[adt] = vr
    n_ok = 0
    for s, kind, v in outs:
        if kind == "val" and isinstance(v, StructV) and v.variant == "Ok":
            n_ok += 1
            X.explore(s, v.fields["0"], (adt.split("::")[-1],))
    return I, X, outs, n_ok


def run(ctx, res):
    F = ctx.F
    D = Disc(F)
    entries = D.parse_entries()
    res.floor("parsing entry points", len(entries), FLOOR_ENTRIES)
    n_methods = 0
    n_iters = 0
    n_loops = 0
    exempt = 0
    per_entry = {}
    covered, undisciplined = construction_discipline(F, entries)
    for adt, where in undisciplined.items():
        res.ob(False, "construction-discipline", adt, "values of a parsed view are only constructed by its parser", detail=f"also constructed in {where}")
    for adt in covered:
        res.ob(True, "construction-discipline", adt, "values of a parsed view are only constructed by its parser (struct literal sites enumerated crate-wide)")
    for d, adt, kind in entries:
        try:
            I, X, outs, n_ok = analyse_entry(F, d, adt, covered=covered, entry_of={e[0]: e[1] for e in entries if e[2] != 'inherent'})
        except Unmodelled as ex:
            res.unmodelled(d, str(ex))
            continue
        per_entry[d] = {"outcomes": len(outs), "ok_outcomes": n_ok, "obligations": len(I.obligations),
                        "methods_run": X.method_runs, "iterators": len(X.iter_reports)}
        n_methods += X.method_runs
        for o in I.obligations:
            ok = o.ok
            if not ok and o.kind == "panic-reachable" and o.stack and all(D.documented_panic(f) for f in o.stack):
                exempt += 1
                ok = True
            res.ob(ok, o.kind, o.fn, o.goal, o.span, detail=o.note, pc=o.pc, entry=d)
        for sp, fn, what in I.unmodelled:
            res.unmodelled(fn, what, sp)
        for path, why in X.skipped:
            res.unmodelled("/".join(path), why)
        for r in I.loop_reports:
            n_loops += 1
            res.ob(bool(r.ranked), "loop-rank", r.fn, f"loop terminates: {r.measure}", r.span, entry=d)
        for rep in X.iter_reports:
            n_iters += 1
            fn = D.impl_item("std::iter::Iterator", rep.adt, "next")
            res.ob(rep.progress_ok, "iter-progress", fn,
                   "every step that yields an item strictly increases a lexicographic measure over the iterator state that is bounded by the input length",
                   detail=f"measures per yielding path: {rep.progress}; state invariant: {rep.invariant[:6]}", entry=d)
            if rep.chain is not None:
                res.ob(bool(rep.chain_ok), "recurrence-agreement", fn,
                       "iterator advances exactly as the validation loop did (offset' = offset + validated length) or stops",
                       detail=rep.chain, entry=d)
    res.floor("public methods / conversions run on parsed values", n_methods, FLOOR_METHODS)
    res.floor("obligations generated", res.obligations, FLOOR_OBLIGATIONS)
    res.analysed = {"entry_points": per_entry, "loops_ranked": n_loops, "stateful_iterators": n_iters,
                    "documented_panic_exemptions": exempt}
    res.assumptions += ["allocation failure and stack exhaustion are out of scope",
                        "a panic!() inside a method whose documentation has a '# Panic' section, reached by calling that method directly, is exempt"]
