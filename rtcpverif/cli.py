"""./check <property id> [--tier quick|thorough] [--replay <file>]"""
import argparse
import importlib
import json
import os
import sys
import time
import traceback

from . import core, facts

LEVELS = {
    "C01": "proof", "C02": "translation_validation", "C03": "translation_validation", "C04": "translation_validation",
    "C05": "translation_validation", "C06": "proof", "C07": "translation_validation", "C08": "proof",
    "C09": "translation_validation", "C10": "proof", "C11": "proof", "C12": "proof", "C13": "proof", "C14": "proof",
    "C15": "proof", "C16": "proof", "C17": "proof", "C18": "proof", "C19": "proof", "C20": "proof",
}


class Ctx:
    def __init__(self, F, tier, seed):
        self.F, self.tier, self.seed = F, tier, seed


def arithmetic_unused(res):
    """Every rule reasons about the mathematical value of the integer expressions it interprets.  Where the code may
    overflow (it then panics in a debug build and wraps in a release build) that value is not the one computed, so an
    undischarged overflow / division obligation met while analysing for this property is reported under it as well."""
    from . import interp
    seen = set()
    for I in interp.REGISTRY:
        for o in I.obligations:
            if o.ok or not (o.kind.startswith("overflow") or o.kind == "div-zero"):
                continue
            k = (o.kind, o.fn, str(o.goal))
            if k in seen:
                continue
            seen.add(k)
            res.ob(False, o.kind, o.fn, o.goal, o.span, detail="arithmetic may overflow here (debug: panic, release: wrap-around): "
                   "the value the rule reasons about is not the one the program computes", pc=o.pc, entry=o.entry)


def main(argv=None):
    ap = argparse.ArgumentParser()
    ap.add_argument("prop")
    ap.add_argument("--tier", default=os.environ.get("VERIF_TIER", "quick"))
    ap.add_argument("--replay")
    a = ap.parse_args(argv)
    seed = int(os.environ.get("VERIF_SEED", "0") or 0)
    t0 = time.time()
    if a.replay:
        with open(a.replay) as fh:
            r = json.load(fh)
        print("replaying", r["key"], "—", r["rule"], "in", r["function"])
        a.prop = r["property"]
    prop = a.prop.upper()
    tier = "thorough" if a.tier == "thorough" else "quick"
    res = core.Result(prop, LEVELS.get(prop, "other"))
    try:
        F = facts.load()
        mod = importlib.import_module(f"rtcpverif.rules.{prop.lower()}")
        ctx = Ctx(F, tier, seed)
        mod.run(ctx, res)
        if tier == "thorough" and hasattr(mod, "thorough"):
            mod.thorough(ctx, res)
        if tier == "thorough" and not os.environ.get("RTCP_NO_CONTROLS"):
            from . import controls
            controls.run(ctx, res, prop)
    except facts.FactsError as ex:
        res.violations.append(core.Violation(prop, "extraction", "cargo +nightly check", "facts extracted from /repo's working tree",
                                             detail=str(ex)[-1500:]))
    except Exception as ex:  # fail closed: an internal error is never a pass
        traceback.print_exc()
        res.violations.append(core.Violation(prop, "internal-error", type(ex).__name__, "the analysis completed", detail=str(ex)[:500]))
    if a.replay:
        want = json.load(open(a.replay))["key"]
        hit = [v for v in res.violations if v.key() == want]
        for v in hit:
            print("REPRODUCED:", v.human())
            print("  path condition:", v.pc[:3000])
        if not hit:
            print("not reproduced on the current tree")
    code = core.finish(res, tier, seed, t0)
    sys.exit(code)


if __name__ == "__main__":
    main()
