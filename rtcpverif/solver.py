"""Entailment over linear integer arithmetic: the decision procedure of the numeric domain.

unsat(lits): True only if the conjunction is proven unsatisfiable over the integers
(Fourier-Motzkin with gcd tightening after equality substitution, congruence rewriting of
`mod`/`div` atoms with the residues derivable from the equalities, case-splitting of
disequalities).  "False" means *not proven*, never "satisfiable".
"""
from math import gcd

from .lin import (CNT_BOUNDS, SYM_BOUNDS, INT_MAX, INT_MIN, key_signed, LEN_MAX, Lin, atoms_deep, dnf, f_not, lin, lit_atoms, neg_lit, sub_lins)

STATS = {"unsat_calls": 0, "fm_runs": 0, "memo_hits": 0, "giveups": 0}
_MEMO = {}
FM_ROW_LIMIT = 3000


# ---------------------------------------------------------------- axioms
def atom_axioms(atoms, present):
    """range/definition axioms for a set of atoms; `present` = all atoms in the query"""
    ax = []
    for a in atoms:
        A = Lin.atom(a)
        k = a[0]
        if k == "sym":
            ax.append(("le", lin(INT_MIN.get(a[2], 0)) - A))
            ax.append(("le", A - min(INT_MAX.get(a[2], 2**64 - 1), SYM_BOUNDS.get(a, 2**130))))
        elif k == "len":
            ax.append(("le", -A))
            ax.append(("le", A - LEN_MAX))
        elif k == "cnt":
            ax.append(("le", -A))
            ax.append(("le", A - CNT_BOUNDS.get(a[1], LEN_MAX)))
        elif k == "byte":
            ax.append(("le", -A))
            ax.append(("le", A - 255))
        elif k == "mod":
            ax.append(("le", -A))
            ax.append(("le", A - (a[2] - 1)))
            d = ("div", a[1], a[2])
            if d in present:
                t = Lin.from_key(a[1])
                ax.append(("eq", t - Lin.atom(d, a[2]) - A))
        elif k == "div":
            m = ("mod", a[1], a[2])
            t = Lin.from_key(a[1])
            if not key_signed(a[1]):
                ax.append(("le", -A))       # t >= 0 (every atom is non-negative), so is its quotient
            if m not in present:
                ax.append(("le", A.scale(a[2]) - t))
                ax.append(("le", t - A.scale(a[2]) - (a[2] - 1)))
        elif k == "sl":
            ax.append(("le", -A))
            ax.append(("le", A - (2 ** (a[3] - a[2]) - 1)))
            # t = 2^hi * (t div 2^hi) + 2^lo * sl + (t mod 2^lo)
            d = ("div", a[1], 1 << a[3])
            m = ("mod", a[1], 1 << a[2])
            if d in present and m in present:
                t = Lin.from_key(a[1])
                ax.append(("eq", t - Lin.atom(d, 1 << a[3]) - A.scale(1 << a[2]) - Lin.atom(m)))
        elif k == "k":
            ax.append(("le", -A))
        elif k == "elem":
            ax.append(("le", lin(INT_MIN.get(a[4], 0)) - A))
            ax.append(("le", A - INT_MAX.get(a[4], 2**64 - 1)))
        elif k == "ps":
            ax.append(("le", -A))
            ax.append(("le", A - LEN_MAX))
            kk = Lin.from_key(a[3])
            if kk.is_const() and kk.c == 0:
                ax.append(("eq", A))
        elif k == "opq":
            ax.append(("le", lin(INT_MIN.get(a[2], 0)) - A))
            ax.append(("le", A - INT_MAX.get(a[2], 2**64 - 1)))
    return ax


# ---------------------------------------------------------------- congruences
def _moduli(atoms):
    ms = set()
    for a in atoms:
        if a[0] in ("mod", "div"):
            ms.add(a[2])
    return ms


def _residues(eqs, m):
    """atom -> residue mod m derivable from the equalities (Lin == 0)"""
    res = {}
    rows = []
    for L in eqs:
        sa = L.single_atom() if L.c == 0 else None
        # (mod(t, m') == r) with m | m'  ==>  t ≡ r (mod m)
        if len(L.t) == 1:
            (a, c), = L.t.items()
            if a[0] == "mod" and a[2] % m == 0 and abs(c) == 1:
                r = (-L.c * c)
                rows.append(Lin.from_key(a[1]) - r)
                continue
        # congruence view of the row: (t mod m') ≡ t (mod m) when m | m'
        if any(a[0] == "mod" and a[2] % m == 0 for a in L.t):
            L2 = Lin(None, L.c)
            for a, c in L.t.items():
                if a[0] == "mod" and a[2] % m == 0:
                    L2 = L2 + Lin.from_key(a[1]).scale(c)
                else:
                    L2 = L2 + Lin({a: c})
            rows.append(L2)
        rows.append(L)
    changed = True
    while changed:
        changed = False
        for L in rows:
            acc = L.c % m
            unknown = None
            n_unknown = 0
            for a, c in L.t.items():
                cm = c % m
                if cm == 0:
                    continue
                if a in res:
                    acc = (acc + cm * res[a]) % m
                else:
                    n_unknown += 1
                    unknown = (a, cm)
                    if n_unknown > 1:
                        break
            if n_unknown == 1:
                a, cm = unknown
                if gcd(cm, m) == 1:
                    inv = pow(cm, -1, m)
                    r = (-acc * inv) % m
                    if res.get(a) != r:
                        res[a] = r
                        changed = True
    return res


def _reduce_mod(L, m, res, allres):
    """canonical representative of L modulo m"""
    out = Lin(None, L.c % m)
    for a, c in L.t.items():
        c %= m
        if c == 0:
            continue
        if a[0] == "mod" and a[2] % m == 0:
            # (t mod m') ≡ t (mod m) when m | m'
            out = out + _reduce_mod(Lin.from_key(a[1]), m, res, allres).scale(c)
            continue
        a2 = _rewrite_atom(a, allres)
        if isinstance(a2, int):
            out = out + (a2 * c)
        elif a2 in res:
            out = out + (res[a2] * c)
        elif a in res:
            out = out + (res[a] * c)
        else:
            out = out + Lin({a2: c})
    r = Lin(None, out.c % m)
    r.t = {a: c % m for a, c in out.t.items() if c % m}
    return r


def _rewrite_atom(a, allres):
    k = a[0]
    if k == "mod" and a[2] in allres:
        inner = _reduce_mod(Lin.from_key(a[1]), a[2], allres[a[2]], allres)
        if inner.is_const():
            return inner.c % a[2]
        return ("mod", inner.key(), a[2])
    return a


def _rewrite_lin(L, allres):
    out = Lin(None, L.c)
    hit = False
    for a, c in L.t.items():
        if a[0] == "mod":
            a2 = _rewrite_atom(a, allres)
            if a2 != a:
                hit = True
            if isinstance(a2, int):
                out = out + a2 * c
            else:
                out = out + Lin({a2: c})
        else:
            out = out + Lin({a: c})
    return out if hit else L


# ---------------------------------------------------------------- Fourier-Motzkin
def _tighten(t, c):
    g = 0
    for v in t.values():
        g = gcd(g, v)
    if g > 1:
        t = {k: v // g for k, v in t.items()}
        c = -((-c) // g)  # ceil(c/g)
    return t, c


def _propagate(rows):
    """integer bound propagation (presolve): returns True if some variable's interval becomes empty, else the
    list of derived single-variable rows"""
    lb, ub = {}, {}
    for t, c in rows:
        if len(t) == 1:
            (x, a), = t.items()
            if a > 0:
                v = (-c) // a
                if x not in ub or v < ub[x]:
                    ub[x] = v
            elif a < 0:
                v = -((-c) // (-a))       # x >= ceil(c / -a)
                if x not in lb or v > lb[x]:
                    lb[x] = v
    multi = [(t, c) for t, c in rows if len(t) > 1]
    for _ in range(8):
        changed = False
        for t, c in multi:
            for x, a in t.items():
                rest = c
                okb = True
                for y, b in t.items():
                    if y is x:
                        continue
                    if b > 0:
                        if y not in lb:
                            okb = False
                            break
                        rest += b * lb[y]
                    else:
                        if y not in ub:
                            okb = False
                            break
                        rest += b * ub[y]
                if not okb:
                    continue
                # a*x + rest <= 0
                if a > 0:
                    v = (-rest) // a
                    if x not in ub or v < ub[x]:
                        ub[x] = v
                        changed = True
                else:
                    v = -((-rest) // (-a))
                    if x not in lb or v > lb[x]:
                        lb[x] = v
                        changed = True
                if x in lb and x in ub and lb[x] > ub[x]:
                    return True
        if not changed:
            break
    for x in lb:
        if x in ub and lb[x] > ub[x]:
            return True
    out = []
    for x, v in ub.items():
        out.append(({x: 1}, -v))
    for x, v in lb.items():
        out.append(({x: -1}, v))
    return out


def _fm_unsat(rows):
    """rows: list of (dict atom->int, const) meaning sum + const <= 0"""
    STATS["fm_runs"] += 1
    rows = [({k: v for k, v in t.items() if v}, c) for t, c in rows]
    pr = _propagate(rows)
    if pr is True:
        return True
    rows = rows + pr
    cur = {}
    for t, c in rows:
        t = {k: v for k, v in t.items() if v}
        if not t:
            if c > 0:
                return True
            continue
        t, c = _tighten(t, c)
        key = frozenset(t.items())
        old = cur.get(key)
        if old is None or old[1] < c:
            cur[key] = (t, c)
    while True:
        if not cur:
            return False
        # contradiction between opposite rows is found by elimination; pick best variable
        cnt = {}
        for t, _ in cur.values():
            for k, v in t.items():
                p = cnt.get(k)
                if p is None:
                    p = cnt[k] = [0, 0]
                if v > 0:
                    p[0] += 1
                else:
                    p[1] += 1
        var = min(cnt, key=lambda k: cnt[k][0] * cnt[k][1] - cnt[k][0] - cnt[k][1])
        pos, negs, rest = [], [], {}
        for key, (t, c) in cur.items():
            v = t.get(var, 0)
            if v > 0:
                pos.append((t, c))
            elif v < 0:
                negs.append((t, c))
            else:
                rest[key] = (t, c)
        if len(rest) + len(pos) * len(negs) > FM_ROW_LIMIT:
            STATS["giveups"] += 1
            return False
        for tp, cp in pos:
            a = tp[var]
            for tn, cn in negs:
                b = -tn[var]
                g = gcd(a, b)
                ma, mb = b // g, a // g
                t = {}
                for k, v in tp.items():
                    if k != var:
                        t[k] = v * ma
                for k, v in tn.items():
                    if k != var:
                        nv = t.get(k, 0) + v * mb
                        if nv:
                            t[k] = nv
                        else:
                            t.pop(k, None)
                c = cp * ma + cn * mb
                if not t:
                    if c > 0:
                        return True
                    continue
                t, c = _tighten(t, c)
                key = frozenset(t.items())
                old = rest.get(key)
                if old is None or old[1] < c:
                    rest[key] = (t, c)
        cur = rest


def _solve(les, eqs, nes):
    """les/eqs/nes: lists of Lin.  True if unsat proven."""
    # Gaussian elimination on equalities with a unit coefficient
    eqs = list(eqs)
    les = list(les)
    nes = list(nes)
    pending = []
    rounds = 0
    while True:
        r = _eliminate(eqs, les, nes, pending)
        if r is True:
            return True
        eqs, les, nes, pending = r
        # a pair L <= 0, -L <= 0 that appears only after the substitutions is an equality too: eliminating it keeps
        # the integrality information (gcd test, unit pivots) that Fourier-Motzkin would lose
        rounds += 1
        if rounds > 4 or len(les) < 2:
            break
        keys = {}
        for L in les:
            if L.t:
                keys.setdefault(L.key(), L)
        found = []
        for k, L in keys.items():
            nk = (-L).key()
            if nk in keys and k < nk:
                found.append(L)
        if not found:
            break
        drop = set()
        for L in found:
            drop.add(L.key())
            drop.add((-L).key())
        les = [L for L in les if L.key() not in drop]
        eqs = found
    return _solve_tail(les, nes, pending)


def _eliminate(eqs, les, nes, pending):
    while eqs:
        L = eqs.pop()
        if not L.t:
            if L.c != 0:
                return True
            continue
        # integer solvability: gcd of coefficients must divide the constant
        g = 0
        for v in L.t.values():
            g = gcd(g, v)
        if L.c % g != 0:
            return True
        if g > 1:
            L = Lin({k: v // g for k, v in L.t.items()}, L.c // g)
        piv = None
        for a, c in L.t.items():
            if c == 1 or c == -1:
                piv = (a, c)
                break
        if piv is None:
            pending.append(L)
            continue
        a, c = piv
        # a = -(L - c*a)/c
        rest = L - Lin.atom(a, c)
        repl = rest.scale(-1) if c == 1 else rest
        m = {a: repl}
        eqs = [x.subst(m) for x in eqs]
        pending = [x.subst(m) for x in pending]
        les = [x.subst(m) for x in les]
        nes = [x.subst(m) for x in nes]
    return eqs, les, nes, pending


def _solve_tail(les, nes, pending):
    for L in pending:
        les.append(L)
        les.append(-L)
    rows = [(dict(L.t), L.c) for L in les]
    # disequalities: constant ones decide immediately, others are case-split
    live = []
    for L in nes:
        if not L.t:
            if L.c == 0:
                return True
            continue
        live.append(L)
    if len(live) > 6:
        live = live[:6]

    def rec(i, acc):
        if _fm_unsat(acc):
            return True
        if i == len(live):
            return False
        L = live[i]
        lo = (dict(L.t), L.c + 1)  # L <= -1
        hi = ({k: -v for k, v in L.t.items()}, -L.c + 1)  # L >= 1
        return rec(i + 1, acc + [lo]) and rec(i + 1, acc + [hi])

    if not live:
        return _fm_unsat(rows)
    return rec(0, rows)


_IN_CONGRUENCE = [False]
_CONG_LITS = {}


def _byte_congruence(les, eqs, nes, atoms):
    """memory cells are functions of their address: for two byte atoms of one buffer whose (symbolic) offsets the
    literals force to be equal, the bytes are equal.  Returns extra equalities (Lin == 0)."""
    if _IN_CONGRUENCE[0] or __import__("os").environ.get("RTCP_NO_CONG"):
        return []
    cells = {}
    for a in atoms:
        if a[0] == "byte":
            off = Lin.from_key(a[2]) if not isinstance(a[2], tuple) or (a[2] and not isinstance(a[2][0], str)) else None
            if off is not None and not off.is_const():
                cells.setdefault(repr(a[1]), []).append((a, off))
    out = []
    eqkeys = None
    for group in cells.values():
        if len(group) < 2 or len(group) > 6:
            continue
        for i in range(len(group)):
            for j in range(i):
                (a1, o1), (a2, o2) = group[i], group[j]
                d = o1 - o2
                if d.is_const():
                    continue
                # two spellings of one address differ by something the literals tie to a length (`len - 1` vs a header
                # expression): without a length atom in the difference there is nothing that could make it vanish
                # (an equality literal that *is* the difference needs no query at all)
                if eqkeys is None:
                    eqkeys = {L.key() for L in eqs}
                if d.key() in eqkeys or (-d).key() in eqkeys:
                    out.append(Lin.atom(a1) - Lin.atom(a2))
                    continue
                if not any(x[0] == "len" for x in atoms_deep(d)):
                    continue
                # only the literals connected to the two offsets matter (and the sliced query is memoised)
                key = (o1.key(), o2.key())
                lits = _CONG_LITS.get(id(les))
                if lits is None:
                    lits = [("le", L) for L in les] + [("eq", L) for L in eqs] + [("ne", L) for L in nes]
                    _CONG_LITS.clear()
                    _CONG_LITS[id(les)] = lits
                _IN_CONGRUENCE[0] = True
                try:
                    same = conj_unsat(lits, [("ne", d)])
                finally:
                    _IN_CONGRUENCE[0] = False
                if same:
                    out.append(Lin.atom(a1) - Lin.atom(a2))
    return out


def unsat(lits):
    """lits: iterable of literals (le/eq/ne/b/forall).  True iff proven unsatisfiable."""
    STATS["unsat_calls"] += 1
    les, eqs, nes = [], [], []
    bools = {}
    for l in lits:
        k = l[0]
        if k == "le":
            if not l[1].t:
                if l[1].c > 0:
                    return True
                continue
            les.append(l[1])
        elif k == "eq":
            if not l[1].t:
                if l[1].c != 0:
                    return True
                continue
            eqs.append(l[1])
        elif k == "ne":
            if not l[1].t:
                if l[1].c == 0:
                    return True
                continue
            nes.append(l[1])
        elif k == "b":
            if bools.get(l[1], l[2]) != l[2]:
                return True
            bools[l[1]] = l[2]
    if not (les or eqs or nes):
        return False
    # canonical form of every mod atom ((t + j*m) mod m == t mod m) before looking for syntactic matches
    ms0 = set()
    for L in les + eqs + nes:
        for a in atoms_deep(L):
            if a[0] == "mod":
                ms0.add(a[2])
    if ms0:
        empty = {m: {} for m in ms0}
        les = [_rewrite_lin(L, empty) for L in les]
        eqs = [_rewrite_lin(L, empty) for L in eqs]
        nes = [_rewrite_lin(L, empty) for L in nes]
    # a pair L <= 0, -L <= 0 is the equality L == 0 (needed by the congruence reasoning, which reads equalities)
    if len(les) > 1:
        keys = {L.key() for L in les}
        for L in list(les):
            if (-L).key() in keys and L.key() < (-L).key():
                eqs.append(L)
    key = (frozenset(les), frozenset(eqs), frozenset(nes))
    r = _MEMO.get(key)
    if r is not None:
        STATS["memo_hits"] += 1
        return r
    atoms = set()
    for L in les:
        atoms_deep(L, atoms)
    for L in eqs:
        atoms_deep(L, atoms)
    for L in nes:
        atoms_deep(L, atoms)
    cong = _byte_congruence(les, eqs, nes, atoms)
    if cong:
        eqs = eqs + cong
    # link div/mod pairs: when a div atom is present make sure its mod partner is as well
    extra_eqs = []
    for a in list(atoms):
        if a[0] == "sl":
            atoms.add(("div", a[1], 1 << a[3]))
            atoms.add(("mod", a[1], 1 << a[2]))
    for a in list(atoms):
        if a[0] == "div":
            m = ("mod", a[1], a[2])
            if m not in atoms:
                atoms.add(m)
        elif a[0] == "mod":
            # t = m*(t div m) + (t mod m): lets "t - t mod m != 0" conclude "t >= m"
            atoms.add(("div", a[1], a[2]))
    ax = atom_axioms(atoms, atoms)
    for l in ax:
        if l[0] == "le":
            les.append(l[1])
        else:
            eqs.append(l[1])
    # an inequality that meets the opposite range axiom is an equality (`x mod 4 <= 0` with `0 <= x mod 4`): the
    # congruence reasoning below reads equalities
    if len(les) > 1:
        keys2 = {L.key() for L in les}
        have_eq = {L.key() for L in eqs}
        for L in list(les):
            if len(L.t) == 1 and (-L).key() in keys2 and L.key() < (-L).key() and L.key() not in have_eq and (-L).key() not in have_eq:
                eqs.append(L)
    # congruence rewriting
    ms = _moduli(atoms)
    if ms:
        allres = {m: _residues(eqs, m) for m in ms}
        if any(allres.values()) or True:
            les = [_rewrite_lin(L, allres) for L in les]
            eqs = [_rewrite_lin(L, allres) for L in eqs]
            nes = [_rewrite_lin(L, allres) for L in nes]
            # new mod atoms produced by the rewriting need their range axioms
            new_atoms = set()
            for L in les + eqs + nes:
                for a in L.t:
                    if a not in atoms:
                        new_atoms.add(a)
            if new_atoms:
                for l in atom_axioms(new_atoms, atoms | new_atoms):
                    if l[0] == "le":
                        les.append(l[1])
                    else:
                        eqs.append(l[1])
    r = _solve(les, eqs, nes)
    _MEMO[key] = r
    return r


# ---------------------------------------------------------------- relevance slicing + entailment
def _slice(pc, seed_atoms):
    """literals of pc transitively connected to seed_atoms through shared atoms"""
    if not pc:
        return []
    info = []
    for l in pc:
        info.append(lit_atoms(l))
    want = set(seed_atoms)
    picked = [False] * len(pc)
    changed = True
    while changed:
        changed = False
        for i, at in enumerate(info):
            if not picked[i] and at and not want.isdisjoint(at):
                picked[i] = True
                want |= at
                changed = True
    return [l for i, l in enumerate(pc) if picked[i]]


def conj_unsat(pc, conj):
    if not conj:
        return unsat(list(pc))
    seeds = set()
    for l in conj:
        seeds |= lit_atoms(l)
    rel = _slice(pc, seeds)
    return unsat(rel + list(conj))


def entails(pc, f):
    """pc (list of literals) |- formula f"""
    nf = f_not(f)
    if nf == ("false",):
        return True
    try:
        cs = dnf(nf)
    except OverflowError:
        return False
    for conj in cs:
        if not conj_unsat(pc, conj):
            return False
    return True


def entails_lit(pc, l):
    return conj_unsat(pc, [neg_lit(l)])


def feasible(pc, conj=()):
    """False only if pc ∧ conj is proven contradictory"""
    if conj:
        return not conj_unsat(pc, conj)
    return not unsat(pc)


def upper_bound(pc, L, candidates):
    """smallest candidate b with pc |- L <= b, else None"""
    for b in sorted(candidates):
        if entails_lit(pc, ("le", lin(L) - b)):
            return b
    return None
