"""Contract models for standard-library callees the pinned tree does not use itself but an edit of it plausibly would
(Option/Result combinators, integer helper methods on every integer type, non-panicking slice accessors).  Each model is
exact (the value of the call as a function of its arguments); anything not listed here or in stdmodel stays `unmodelled`
and fails closed."""
from . import solver
from .lin import (FALSE, INT_BITS, INT_MAX, INT_MIN, SIGNED, TRUE, Lin, eq, f_and, f_not, f_or, flit, ge, gt, le, lin, lt, ne)
from .values import *

INT_TYPES = ("u8", "u16", "u32", "u64", "u128", "usize", "i8", "i16", "i32", "i64", "i128", "isize")


def install(M):
    """M: the StdModel instance"""
    X = Ext(M)
    t = M.table
    opt = "std::option::Option::<T>::"
    res = "std::result::Result::<T, E>::"
    t.update({
        opt + "map_or": X.opt_map_or,
        opt + "map_or_else": X.opt_map_or_else,
        opt + "unwrap_or_else": X.opt_unwrap_or_else,
        opt + "unwrap_or_default": X.opt_unwrap_or_default,
        opt + "and_then": X.opt_and_then,
        opt + "ok_or": X.opt_ok_or,
        opt + "ok_or_else": X.opt_ok_or_else,
        opt + "filter": X.opt_filter,
        opt + "is_some_and": X.opt_is_some_and,
        opt + "is_none_or": X.opt_is_none_or,
        opt + "or": X.opt_or,
        opt + "or_else": X.opt_or_else,
        opt + "as_ref": M.m_identity,
        opt + "as_deref": M.m_identity,
        "std::option::Option::<&T>::copied": M.m_identity,
        "std::option::Option::<&T>::cloned": M.m_identity,
        "std::option::Option::<&mut T>::copied": M.m_identity,
        res + "map_err": X.res_map_err,
        res + "ok": X.res_ok,
        res + "err": X.res_err,
        res + "and_then": X.res_and_then,
        res + "unwrap_or": X.res_unwrap_or,
        res + "unwrap_or_else": X.res_unwrap_or_else,
        res + "unwrap_or_default": X.res_unwrap_or_default,
        res + "map_or": X.res_map_or,
        res + "is_ok_and": X.res_is_ok_and,
        res + "as_ref": M.m_identity,
        "std::cmp::Ord::max": X.i_max, "std::cmp::Ord::min": X.i_min,
        "std::cmp::max": X.i_max, "std::cmp::min": X.i_min,
        "std::cmp::Ord::clamp": X.i_clamp,
        "core::slice::<impl [T]>::get": X.sl_get,
        "core::slice::<impl [T]>::first": X.sl_first,
        "core::slice::<impl [T]>::split_at": X.sl_split_at,
        "core::slice::<impl [T]>::split_at_mut": X.sl_split_at,
        "core::slice::<impl [T]>::split_first": X.sl_split_first,
        "core::slice::<impl [T]>::split_last": X.sl_split_last,
        "core::slice::<impl [T]>::get_mut": lambda e, st, a: X.sl_ref(e, st, a, "get"),
        "core::slice::<impl [T]>::last_mut": lambda e, st, a: X.sl_ref(e, st, a, "last"),
        "core::slice::<impl [T]>::first_mut": lambda e, st, a: X.sl_ref(e, st, a, "first"),
        "core::slice::<impl [T]>::to_vec": X.sl_to_vec,
        "std::slice::<impl [T]>::to_vec": X.sl_to_vec,
        "std::vec::Vec::<T, A>::as_slice": M.m_identity,
        "std::vec::Vec::<T, A>::as_mut_slice": M.m_identity,
        "core::array::<impl [T; N]>::as_slice": M.m_identity,
        "std::mem::size_of": X.size_of,
        "core::bool::<impl bool>::then": X.b_then,
        "core::bool::<impl bool>::then_some": X.b_then_some,
        opt + "take": X.opt_take,
        opt + "replace": X.opt_replace,
        "std::iter::Iterator::take": X.it_take,
        "std::iter::Iterator::zip": X.it_zip,
        "std::iter::Iterator::for_each": X.it_for_each,
        "std::ops::RangeInclusive::<Idx>::new": X.range_inclusive_new,
        "std::ops::RangeInclusive::<Idx>::contains": X.range_contains,
        "std::ops::Range::<Idx>::contains": X.range_contains,
        "std::ops::RangeInclusive::<Idx>::is_empty": X.range_is_empty,
        "std::ops::Range::<Idx>::is_empty": X.range_is_empty,
        "std::mem::take": X.mem_take,
        "std::mem::replace": X.mem_replace,
        "core::slice::<impl [T]>::split_first_mut": lambda e, st, a: X.sl_split_first(e, st, a, mutable=True),
        "core::slice::<impl [T]>::split_last_mut": lambda e, st, a: X.sl_split_last(e, st, a, mutable=True),
        "core::slice::<impl [T]>::iter_mut": X.sl_iter_mut,
        "core::str::<impl str>::bytes": X.str_bytes,
        "std::iter::Iterator::take_while": X.it_take_while,
        "std::iter::Iterator::collect": M.m_from_iter,
        "std::array::<impl std::convert::TryFrom<&[T]> for [T; N]>::try_from": X.arr_try_from,
        "std::array::<impl std::convert::TryFrom<&'a [T]> for &'a [T; N]>::try_from": X.arr_try_from,
        "std::iter::Iterator::rev": X.it_rev,
        "std::iter::Iterator::skip": X.it_skip,
        "std::iter::Iterator::last": X.it_last,
        "std::iter::Iterator::sum": X.it_sum,
        "std::iter::Iterator::try_fold": X.it_try_fold,
        "std::iter::Iterator::nth": X.it_nth,
        "std::iter::Iterator::cloned": lambda e, st, a: M.adapt("copied", e, st, a),
        "std::iter::DoubleEndedIterator::next_back": X.it_next_back,
        "std::iter::Iterator::any": lambda e, st, a: X.it_search(e, st, a, "bool"),
        "std::iter::Iterator::all": lambda e, st, a: X.it_search(e, st, a, "bool"),
        "std::iter::Iterator::position": lambda e, st, a: X.it_search(e, st, a, "index"),
        "std::iter::Iterator::rposition": lambda e, st, a: X.it_search(e, st, a, "index"),
        "std::iter::Iterator::find": lambda e, st, a: X.it_search(e, st, a, "elem"),
        "<std::slice::Iter<'a, T> as std::iter::Iterator>::find": lambda e, st, a: X.it_search(e, st, a, "elem"),
        "<std::slice::Iter<'a, T> as std::iter::Iterator>::any": lambda e, st, a: X.it_search(e, st, a, "bool"),
        "<std::slice::Iter<'a, T> as std::iter::Iterator>::all": lambda e, st, a: X.it_search(e, st, a, "bool"),
        "<std::slice::Iter<'a, T> as std::iter::Iterator>::position": lambda e, st, a: X.it_search(e, st, a, "index"),
        "<std::slice::Iter<'a, T> as std::iter::Iterator>::rposition": lambda e, st, a: X.it_search(e, st, a, "index"),
        "core::slice::ascii::<impl [u8]>::is_ascii": M.m_is_ascii,
        "std::str::from_utf8": X.str_from_utf8,
    })
    if "core::slice::<impl [T]>::last" in t:
        base_last = t["core::slice::<impl [T]>::last"]
        t["core::slice::<impl [T]>::last"] = lambda e, st, a: X.sl_last(e, st, a, base_last)
    base = dict(t)
    for w in INT_TYPES:
        p = f"core::num::<impl {w}>::"
        t[p + "wrapping_add"] = lambda e, st, a: X.i_wrapping(e, st, a, "add")
        t[p + "wrapping_sub"] = lambda e, st, a: X.i_wrapping(e, st, a, "sub")
        t[p + "wrapping_mul"] = lambda e, st, a: X.i_wrapping(e, st, a, "mul")
        t[p + "checked_add"] = lambda e, st, a: X.i_checked(e, st, a, "add")
        t[p + "checked_sub"] = lambda e, st, a: X.i_checked(e, st, a, "sub")
        t[p + "checked_mul"] = lambda e, st, a: X.i_checked(e, st, a, "mul")
        t[p + "saturating_add"] = lambda e, st, a: X.i_saturating(e, st, a, "add")
        t[p + "saturating_sub"] = lambda e, st, a: X.i_saturating(e, st, a, "sub")
        t[p + "saturating_mul"] = lambda e, st, a: X.i_saturating(e, st, a, "mul")
        t[p + "checked_div"] = lambda e, st, a: X.i_checked_div(e, st, a, "Div")
        t[p + "checked_rem"] = lambda e, st, a: X.i_checked_div(e, st, a, "Rem")
        t[p + "wrapping_shl"] = lambda e, st, a: X.i_wrapping_shift(e, st, a, "Shl")
        t[p + "wrapping_shr"] = lambda e, st, a: X.i_wrapping_shift(e, st, a, "Shr")
        t[p + "checked_shl"] = lambda e, st, a: X.i_checked_shift(e, st, a, "Shl")
        t[p + "checked_shr"] = lambda e, st, a: X.i_checked_shift(e, st, a, "Shr")
        t[p + "abs_diff"] = X.i_abs_diff
        t[p + "min"] = X.i_min
        t[p + "max"] = X.i_max
        t[p + "pow"] = X.i_pow
        t[p + "div_ceil"] = X.i_div_ceil
        t[p + "next_multiple_of"] = X.i_next_multiple_of
        t[p + "is_multiple_of"] = X.i_is_multiple_of
        t[p + "div_euclid"] = lambda e, st, a: X.i_euclid(e, st, a, "Div")
        t[p + "rem_euclid"] = lambda e, st, a: X.i_euclid(e, st, a, "Rem")
        t[p + "leading_zeros"] = M.m_opaque_int
        t[p + "leading_ones"] = M.m_opaque_int
        t[p + "trailing_ones"] = M.m_opaque_int
        t[p + "count_zeros"] = M.m_opaque_int
        t[p + "is_power_of_two"] = X.opaque_bool
        t[p + "to_be_bytes"] = M.m_to_be_bytes
        t[p + "from_be_bytes"] = M.m_from_be_bytes
        t[p + "to_le_bytes"] = M.m_to_le_bytes
        t[p + "from_le_bytes"] = M.m_from_le_bytes
        t[p + "to_ne_bytes"] = M.m_opaque
        t[p + "trailing_zeros"] = M.m_opaque_int
        t[p + "count_ones"] = M.m_opaque_int
        t[f"std::cmp::impls::<impl std::cmp::Ord for {w}>::cmp"] = X.i_cmp
        t[f"std::cmp::impls::<impl std::cmp::PartialOrd for {w}>::partial_cmp"] = lambda e, st, a: X.i_cmp(e, st, a, partial=True)
    t["std::cmp::Ord::cmp"] = X.i_cmp
    t["std::cmp::PartialOrd::partial_cmp"] = lambda e, st, a: X.i_cmp(e, st, a, partial=True)
    for k, v in base.items():
        if k.startswith("core::num::"):
            t[k] = v          # the models the pinned tree already relies on stay as they are
    return X


class Ext:
    def __init__(self, M):
        self.M = M
        self.I = M.I

    # ------------------------------------------------------------ helpers
    def _apply(self, s, f, args, e, wrap=None):
        out = []
        for s2, k, v in self.I.apply_fn(s, f, args, e):
            out.append((s2, k, wrap(v) if (wrap and k == "val") else v))
        return out

    def _opt(self, st, v, e):
        return self.M._variant(st, v, ("Some", "None"), e)

    def _res(self, st, v, e):
        return self.M._variant(st, v, ("Ok", "Err"), e)

    def _bool_split(self, st, v):
        """[(state, bool)] for a BoolV"""
        if not isinstance(v, BoolV):
            return None
        out = [(s, True) for s in self.I.assume(st, v.f)]
        out += [(s, False) for s in self.I.assume(st, f_not(v.f))]
        return out

    # ------------------------------------------------------------ Option
    def opt_map_or(self, e, st, a):
        out = []
        for s, sv in self._opt(st, a[0], e):
            if sv.variant == "Some":
                out += self._apply(s, a[2], [sv.fields["0"]], e)
            else:
                out.append((s, "val", a[1]))
        return out

    def opt_map_or_else(self, e, st, a):
        out = []
        for s, sv in self._opt(st, a[0], e):
            if sv.variant == "Some":
                out += self._apply(s, a[2], [sv.fields["0"]], e)
            else:
                out += self._apply(s, a[1], [], e)
        return out

    def opt_unwrap_or_else(self, e, st, a):
        out = []
        for s, sv in self._opt(st, a[0], e):
            if sv.variant == "Some":
                out.append((s, "val", sv.fields["0"]))
            else:
                out += self._apply(s, a[1], [], e)
        return out

    def opt_unwrap_or_default(self, e, st, a):
        out = []
        for s, sv in self._opt(st, a[0], e):
            out.append((s, "val", sv.fields["0"] if sv.variant == "Some" else self.M.default_of(s, e["t"])))
        return out

    def opt_and_then(self, e, st, a):
        out = []
        for s, sv in self._opt(st, a[0], e):
            if sv.variant == "Some":
                out += self._apply(s, a[1], [sv.fields["0"]], e)
            else:
                out.append((s, "val", NONE))
        return out

    def opt_ok_or(self, e, st, a):
        return [(s, "val", ok(sv.fields["0"]) if sv.variant == "Some" else err(a[1])) for s, sv in self._opt(st, a[0], e)]

    def opt_ok_or_else(self, e, st, a):
        out = []
        for s, sv in self._opt(st, a[0], e):
            if sv.variant == "Some":
                out.append((s, "val", ok(sv.fields["0"])))
            else:
                out += self._apply(s, a[1], [], e, err)
        return out

    def opt_filter(self, e, st, a):
        out = []
        for s, sv in self._opt(st, a[0], e):
            if sv.variant == "None":
                out.append((s, "val", NONE))
                continue
            for s2, k, v in self.I.apply_fn(s, a[1], [sv.fields["0"]], e):
                if k != "val":
                    out.append((s2, k, v))
                    continue
                sp = self._bool_split(s2, v)
                if sp is None:
                    return None
                out += [(s3, "val", sv if b else NONE) for s3, b in sp]
        return out

    def _opt_pred(self, e, st, a, on_none):
        out = []
        for s, sv in self._opt(st, a[0], e):
            if sv.variant == "None":
                out.append((s, "val", BTRUE if on_none else BFALSE))
            else:
                out += self._apply(s, a[1], [sv.fields["0"]], e)
        return out

    def opt_is_some_and(self, e, st, a):
        return self._opt_pred(e, st, a, False)

    def opt_is_none_or(self, e, st, a):
        return self._opt_pred(e, st, a, True)

    def opt_or(self, e, st, a):
        return [(s, "val", sv if sv.variant == "Some" else a[1]) for s, sv in self._opt(st, a[0], e)]

    def opt_or_else(self, e, st, a):
        out = []
        for s, sv in self._opt(st, a[0], e):
            if sv.variant == "Some":
                out.append((s, "val", sv))
            else:
                out += self._apply(s, a[1], [], e)
        return out

    # ------------------------------------------------------------ Result
    def res_map_err(self, e, st, a):
        out = []
        for s, sv in self._res(st, a[0], e):
            if sv.variant == "Err":
                out += self._apply(s, a[1], [sv.fields["0"]], e, err)
            else:
                out.append((s, "val", sv))
        return out

    def res_ok(self, e, st, a):
        return [(s, "val", some(sv.fields["0"]) if sv.variant == "Ok" else NONE) for s, sv in self._res(st, a[0], e)]

    def res_err(self, e, st, a):
        return [(s, "val", some(sv.fields["0"]) if sv.variant == "Err" else NONE) for s, sv in self._res(st, a[0], e)]

    def res_and_then(self, e, st, a):
        out = []
        for s, sv in self._res(st, a[0], e):
            if sv.variant == "Ok":
                out += self._apply(s, a[1], [sv.fields["0"]], e)
            else:
                out.append((s, "val", sv))
        return out

    def res_unwrap_or(self, e, st, a):
        return [(s, "val", sv.fields["0"] if sv.variant == "Ok" else a[1]) for s, sv in self._res(st, a[0], e)]

    def res_unwrap_or_else(self, e, st, a):
        out = []
        for s, sv in self._res(st, a[0], e):
            if sv.variant == "Ok":
                out.append((s, "val", sv.fields["0"]))
            else:
                out += self._apply(s, a[1], [sv.fields["0"]], e)
        return out

    def res_unwrap_or_default(self, e, st, a):
        return [(s, "val", sv.fields["0"] if sv.variant == "Ok" else self.M.default_of(s, e["t"])) for s, sv in self._res(st, a[0], e)]

    def res_map_or(self, e, st, a):
        out = []
        for s, sv in self._res(st, a[0], e):
            if sv.variant == "Ok":
                out += self._apply(s, a[2], [sv.fields["0"]], e)
            else:
                out.append((s, "val", a[1]))
        return out

    def res_is_ok_and(self, e, st, a):
        out = []
        for s, sv in self._res(st, a[0], e):
            if sv.variant == "Ok":
                out += self._apply(s, a[1], [sv.fields["0"]], e)
            else:
                out.append((s, "val", BFALSE))
        return out

    # ------------------------------------------------------------ integers
    def _ints(self, a, n=2):
        vs = []
        for v in a[:n]:
            if isinstance(v, RefV):
                return None
            if not isinstance(v, IntV):
                return None
            vs.append(v)
        return vs

    def _arith(self, x, y, op):
        if op == "add":
            return x.l + y.l
        if op == "sub":
            return x.l - y.l
        if x.l.is_const():
            return y.l.scale(x.l.c)
        if y.l.is_const():
            return x.l.scale(y.l.c)
        return None

    def _rng(self, r, ty):
        return f_and(flit(ge(r, INT_MIN[ty])), flit(le(r, INT_MAX[ty])))

    def i_wrapping(self, e, st, a, op):
        vs = self._ints(a)
        if vs is None:
            return None
        x, y = vs
        r = self._arith(x, y, op)
        if r is None:
            return [(st, "val", self.I.fresh_int("wmul", x.ty))]
        mn, m = INT_MIN[x.ty], 1 << INT_BITS[x.ty]
        if solver.entails(st.pc, self._rng(r, x.ty)):
            return [(st, "val", IntV(r, x.ty))]
        return [(st, "val", IntV(Lin.atom(("mod", (r - mn).key(), m)) + mn, x.ty))]

    def i_checked(self, e, st, a, op):
        vs = self._ints(a)
        if vs is None:
            return None
        x, y = vs
        r = self._arith(x, y, op)
        if r is None:
            return [(st, "val", some(self.I.fresh_int("cmul", x.ty))), (st.clone(), "val", NONE)]
        f = self._rng(r, x.ty)
        out = [(s, "val", some(IntV(r, x.ty))) for s in self.I.assume(st, f)]
        out += [(s, "val", NONE) for s in self.I.assume(st, f_not(f))]
        return out

    def i_saturating(self, e, st, a, op):
        vs = self._ints(a)
        if vs is None:
            return None
        x, y = vs
        r = self._arith(x, y, op)
        if r is None:
            return [(st, "val", self.I.fresh_int("smul", x.ty))]
        mn, mx = INT_MIN[x.ty], INT_MAX[x.ty]
        out = [(s, "val", IntV(r, x.ty)) for s in self.I.assume(st, self._rng(r, x.ty))]
        out += [(s, "val", IntV(mx, x.ty)) for s in self.I.assume(st, flit(gt(r, mx)))]
        out += [(s, "val", IntV(mn, x.ty)) for s in self.I.assume(st, flit(lt(r, mn)))]
        return out

    def i_checked_div(self, e, st, a, op):
        vs = self._ints(a)
        if vs is None:
            return None
        x, y = vs
        out = [(s, "val", NONE) for s in self.I.assume(st, flit(eq(y.l, 0)))]
        for s in self.I.assume(st, flit(ne(y.l, 0))):
            for s2, v in self.I.binop(s, op, x, y, e, x.ty):
                out.append((s2, "val", some(v)))
        return out

    def i_checked_shift(self, e, st, a, op):
        vs = self._ints(a)
        if vs is None:
            return None
        x, y = vs
        w = INT_BITS[x.ty]
        out = [(s, "val", NONE) for s in self.I.assume(st, flit(ge(y.l, w)))]
        for s in self.I.assume(st, flit(lt(y.l, w))):
            for s2, v in self.I.binop(s, op, x, y, e, x.ty):
                out.append((s2, "val", some(v)))
        return out

    def i_wrapping_shift(self, e, st, a, op):
        """`x.wrapping_shl(n)` shifts by n mod width: decided by cases when the path condition confines n to a few
        values (that is where a shift by exactly the width silently becomes no shift at all)"""
        vs = self._ints(a)
        if vs is None or vs[0].ty in SIGNED:
            return None
        x, y = vs
        w = INT_BITS[x.ty]
        lo = 0
        hi = None
        for k in range(0, 2 * w + 2):
            if solver.entails(st.pc, flit(le(y.l, k))):
                hi = k
                break
        if hi is None or hi > 40:
            return None
        while lo < hi and solver.entails(st.pc, flit(ge(y.l, lo + 1))):
            lo += 1
        out = []
        for c in range(lo, hi + 1):
            for s in self.I.assume(st, flit(eq(y.l, c))):
                out.append((s, "val", self.I.const_shift(s, op, x, c % w, x.ty, w)))
        return out

    def i_euclid(self, e, st, a, op):
        vs = self._ints(a)
        if vs is None or vs[0].ty in SIGNED:
            return None
        return [(s, "val", v) for s, v in self.I.binop(st, op, vs[0], vs[1], e, vs[0].ty)]

    def i_abs_diff(self, e, st, a):
        vs = self._ints(a)
        if vs is None:
            return None
        x, y = vs
        uty = x.ty.replace("i", "u") if x.ty in SIGNED else x.ty
        out = [(s, "val", IntV(x.l - y.l, uty)) for s in self.I.assume(st, flit(ge(x.l, y.l)))]
        out += [(s, "val", IntV(y.l - x.l, uty)) for s in self.I.assume(st, flit(lt(x.l, y.l)))]
        return out

    def _deref_int(self, st, v):
        if isinstance(v, RefV):
            v = self.I.read_loc(st, v.key, v.path)
        return v if isinstance(v, IntV) else None

    def i_max(self, e, st, a):
        x, y = self._deref_int(st, a[0]), self._deref_int(st, a[1])
        if x is None or y is None:
            return None
        out = [(s, "val", x) for s in self.I.assume(st, flit(gt(x.l, y.l)))]      # max returns the second when equal
        out += [(s, "val", y) for s in self.I.assume(st, flit(le(x.l, y.l)))]
        return out

    def i_min(self, e, st, a):
        x, y = self._deref_int(st, a[0]), self._deref_int(st, a[1])
        if x is None or y is None:
            return None
        out = [(s, "val", x) for s in self.I.assume(st, flit(le(x.l, y.l)))]
        out += [(s, "val", y) for s in self.I.assume(st, flit(gt(x.l, y.l)))]
        return out

    def i_cmp(self, e, st, a, partial=False):
        x, y = self._deref_int(st, a[0]), self._deref_int(st, a[1])
        if x is None or y is None:
            return None
        out = []
        for name, f in (("Less", lt(x.l, y.l)), ("Equal", eq(x.l, y.l)), ("Greater", gt(x.l, y.l))):
            v = StructV("std::cmp::Ordering", name, {})
            out += [(s, "val", some(v) if partial else v) for s in self.I.assume(st, flit(f))]
        return out

    def i_clamp(self, e, st, a):
        x, lo, hi = (self._deref_int(st, v) for v in a[:3])
        if x is None or lo is None or hi is None:
            return None
        out = []
        for s in self.I.oblige(st, flit(le(lo.l, hi.l)), "std-precondition", e, "clamp: min <= max"):
            out += [(s2, "val", lo) for s2 in self.I.assume(s, flit(lt(x.l, lo.l)))]
            out += [(s2, "val", hi) for s2 in self.I.assume(s, flit(gt(x.l, hi.l)))]
            out += [(s2, "val", x) for s2 in self.I.assume(s, f_and(flit(ge(x.l, lo.l)), flit(le(x.l, hi.l))))]
        return out

    def i_pow(self, e, st, a):
        vs = self._ints(a)
        if vs is None:
            return None
        x, y = vs
        if x.l.is_const() and y.l.is_const() and 0 <= y.l.c <= 200:
            r = x.l.c ** y.l.c
            return [(s, "val", IntV(r, x.ty)) for s in self.I.oblige(st, self._rng(lin(r), x.ty), "overflow-mul", e)]
        if y.l.is_const() and y.l.c == 1:
            return [(st, "val", x)]
        if y.l.is_const() and y.l.c == 0:
            return [(st, "val", IntV(1, x.ty))]
        self.I.note("nonlinear", e, f"{x.l} pow {y.l}")
        return [(st, "val", self.I.fresh_int("pow", x.ty))]

    def i_div_ceil(self, e, st, a):
        vs = self._ints(a)
        if vs is None or vs[0].ty in SIGNED:
            return None
        x, y = vs
        out = []
        for s in self.I.oblige(st, flit(ne(y.l, 0)), "div-zero", e):
            if y.l.is_const():
                c = y.l.c
                out.append((s, "val", IntV(Lin.atom(("div", (x.l + (c - 1)).key(), c)) if c > 1 else x.l, x.ty)))
            else:
                out.append((s, "val", self.I.fresh_int("divceil", x.ty)))
        return out

    def i_next_multiple_of(self, e, st, a):
        vs = self._ints(a)
        if vs is None or vs[0].ty in SIGNED:
            return None
        x, y = vs
        out = []
        for s in self.I.oblige(st, flit(ne(y.l, 0)), "div-zero", e):
            if y.l.is_const():
                c = y.l.c
                up = x.l + (c - 1)
                r = up - Lin.atom(("mod", up.key(), c)) if c > 1 else x.l
                for s2 in self.I.oblige(s, flit(le(r, INT_MAX[x.ty])), "overflow-add", e):
                    out.append((s2, "val", IntV(r, x.ty)))
            else:
                out.append((s, "val", self.I.fresh_int("nextmul", x.ty)))
        return out

    def i_is_multiple_of(self, e, st, a):
        vs = self._ints(a)
        if vs is None or vs[0].ty in SIGNED:
            return None
        x, y = vs
        if y.l.is_const() and y.l.c > 0:
            c = y.l.c
            if c == 1:
                return [(st, "val", BTRUE)]
            return [(st, "val", BoolV(flit(eq(Lin.atom(("mod", x.l.key(), c)), 0))))]
        if y.l.is_const() and y.l.c == 0:
            return [(st, "val", BoolV(flit(eq(x.l, 0))))]
        return [(st, "val", BoolV(flit(("b", self.I.fresh("ismult"), True))))]

    def opaque_bool(self, e, st, a):
        return [(st, "val", BoolV(flit(("b", self.I.fresh("pred"), True))))]

    def size_of(self, e, st, a):
        ga = e.get("gargs") or []
        if ga:
            t = self.I.F.types[ga[0]]
            if t["k"] == "int":
                return [(st, "val", IntV(INT_BITS[t["s"]] // 8, "usize"))]
        return None

    # ------------------------------------------------------------ bool / Option cells / arrays
    def b_then(self, e, st, a):
        sp = self._bool_split(st, a[0])
        if sp is None:
            return None
        out = []
        for s, b in sp:
            if b:
                out += self._apply(s, a[1], [], e, some)
            else:
                out.append((s, "val", NONE))
        return out

    def b_then_some(self, e, st, a):
        sp = self._bool_split(st, a[0])
        if sp is None:
            return None
        return [(s, "val", some(a[1]) if b else NONE) for s, b in sp]

    def opt_take(self, e, st, a):
        r = a[0]
        if not isinstance(r, RefV):
            return None
        out = []
        for s, sv in self._opt(st, self.I.read_loc(st, r.key, r.path), e):
            self.I.write_loc(s, r.key, r.path, NONE)
            out.append((s, "val", sv))
        return out

    def opt_replace(self, e, st, a):
        r = a[0]
        if not isinstance(r, RefV):
            return None
        out = []
        for s, sv in self._opt(st, self.I.read_loc(st, r.key, r.path), e):
            self.I.write_loc(s, r.key, r.path, some(a[1]))
            out.append((s, "val", sv))
        return out

    def arr_try_from(self, e, st, a):
        v = self._slice(st, a[0])
        rt = self.I.F.types[e["t"]]
        if rt.get("def") != "std::result::Result" or not isinstance(v, (SliceV, ArrV)):
            return None
        okt = self.I.F.types[self.I.F.strip_ref(rt["args"][0])]
        if okt["k"] != "array" or okt["len"] is None:
            return None
        n = okt["len"]
        out = []
        for s in self.I.assume(st, flit(eq(v.length(), n))):
            out.append((s, "val", ok(SliceV(v.base, v.start, v.start + n) if isinstance(v, SliceV) else v)))
        for s in self.I.assume(st, flit(ne(v.length(), n))):
            out.append((s, "val", err(Opaque("TryFromSliceError"))))
        return out

    # ------------------------------------------------------------ iterators
    def it_take(self, e, st, a):
        it = self._iter(st, a[0])
        if it is None and isinstance(self._slice(st, a[0]), StructV):
            return None
        if it is None or not isinstance(a[1], IntV):
            return None
        n = self.I.loops.count_of(st, it.seq)
        if n is None:
            return None
        lim = it.pos + a[1].l
        # fewer elements than asked for: `take` changes nothing; otherwise the sequence ends at pos + n
        out = []
        for s in self.I.assume(st, flit(gt(lim, n))):
            out.append((s, "val", it))
        for s in self.I.assume(st, flit(le(lim, n))):
            sq = it.seq
            # canonical form: the first `lim` chunks / bytes of a slice are the chunks / bytes of a shorter slice
            if sq[0] == "chunks" and sq[2].is_const() and sq[2].c > 0:
                sl = sq[1]
                out.append((s, "val", IterV(("chunks", SliceV(sl.base, sl.start, sl.start + lim.scale(sq[2].c)), sq[2]), it.pos)))
            elif sq[0] == "bytes":
                sl = sq[1]
                out.append((s, "val", IterV(("bytes", SliceV(sl.base, sl.start, sl.start + lim)), it.pos)))
            else:
                out.append((s, "val", IterV(("take", sq, lim), it.pos)))
        return out

    def sl_iter_mut(self, e, st, a):
        sl = self._slice(st, a[0])
        if not isinstance(sl, SliceV):
            return None
        return [(st, "val", IterV(("bytes_mut", sl)))]

    def str_bytes(self, e, st, a):
        sl = self._slice(st, a[0])
        if not isinstance(sl, SliceV):
            return None
        return [(st, "val", IterV(("bytes", SliceV(sl.base, sl.start, sl.end))))]

    def it_zip(self, e, st, a):
        ia = self._iter(st, a[0])
        ib = self._iter(st, a[1])
        if ib is None:
            # the argument is IntoIterator: a slice / collection / array
            r = self.M.m_into_iter(e, st, [a[1]])
            if r and len(r) == 1 and isinstance(r[0][2], IterV):
                ib = r[0][2]
        if ia is None or ib is None:
            return None
        L = self.I.loops
        na, nb = L.count_of(st, ia.seq), L.count_of(st, ib.seq)
        if na is None or nb is None:
            return None
        ra, rb = na - ia.pos, nb - ib.pos
        out = []
        for s in self.I.assume(st, flit(le(ra, rb))):
            out.append((s, "val", IterV(("zip", ia.seq, ia.pos, ib.seq, ib.pos, ra))))
        for s in self.I.assume(st, flit(gt(ra, rb))):
            out.append((s, "val", IterV(("zip", ia.seq, ia.pos, ib.seq, ib.pos, rb))))
        return out

    def it_for_each(self, e, st, a):
        ety = None
        if isinstance(a[1], FnV) and a[1].fn in self.I.F.bodies:
            ps = self.I.F.bodies[a[1].fn]["params"]
            if len(ps) >= 2 and ps[1].get("pat"):
                ety = ps[1]["pat"].get("t")

        def step(s, acc, x):
            return [(s2, k, (UNIT if k == "val" else v)) for s2, k, v in self.I.apply_fn(s, a[1], [x], e)]

        r = self.I.loops.py_for(e, st, a[0], UNIT, step, elem_ty=ety, closures=[a[1]])
        if r is None:
            return None
        return [(s, k, (UNIT if k == "val" else v)) for s, k, v, _ in r]

    def it_search(self, e, st, a, kind):
        """any / all / position / rposition: the predicate runs on elements of the sequence (its obligations are collected on a
        generic element, as for `for_each`); which elements satisfy it is not tracked, so the answer is an unknown boolean /
        an unknown index below the element count or None.  A predicate that assigns captured variables is not modelled
        (the search may stop early)."""
        if not (isinstance(a[1], FnV) and a[1].fn in self.I.F.bodies):
            return None
        roots, consts = set(), set()
        self.I.loops._roots(self.I.F.bodies[a[1].fn]["body"], roots, consts)
        if roots:
            return None
        if isinstance(a[0], RefV):
            return None      # the iterator would be left at the match position
        it = self._iter(st, a[0])
        if it is None:
            return None
        n = self.I.loops.count_of(st, it.seq)
        if kind in ("index", "elem") and n is None:
            return None

        def step(s, acc, x):
            return [(s2, k, (UNIT if k == "val" else v)) for s2, k, v in self.I.apply_fn(s, a[1], [x], e)]

        r = self.I.loops.py_for(e, st, a[0], UNIT, step, closures=[a[1]])
        if r is None:
            return None
        out = []
        # a pure predicate searched over a fixed view is a function of (call site, view, captured values): the unknown answer
        # is named after them, so that two evaluations of the same search on the same bytes agree (as is_ascii's does)
        try:
            tag = (e["fn"].split("::")[-1], self.I.span(e), repr(self.I.loops.seq_key(it.seq)), repr(it.pos.key()), repr(a[1].captures) if a[1].captures else "")
        except Exception:
            tag = None
        for s, k, v, _ in r:
            if k != "val":
                out.append((s, k, v))
            elif kind == "bool":
                out.append((s, "val", BoolV(flit(("b", ("search",) + tag if tag else self.I.fresh("pred"), True)))))
            else:
                p = IntV(Lin.atom(("sym", "pos:" + ":".join(tag), "usize")), "usize") if tag else self.I.fresh_int("pos", "usize")
                for s2 in self.I.assume(s, f_and(flit(ge(p.l, it.pos)), flit(lt(p.l, n)))):
                    if kind == "index":
                        out.append((s2, "val", some(IntV(p.l - it.pos, "usize"))))
                    else:
                        for s3, v3 in self.I.loops.elem_of(s2, it.seq, p.l, e):
                            out.append((s3, "val", some(v3)))
                out.append((s, "val", NONE))
        return out

    def str_from_utf8(self, e, st, a):
        """Ok(the same bytes viewed as str) or Err(_): validity is not tracked"""
        v = a[0]
        if isinstance(v, RefV):
            v = self.I.read_loc(st, v.key, v.path)
        if isinstance(v, SliceV):
            # validity is a function of the bytes viewed: one named unknown per view (as is_ascii)
            key = ("is_utf8", v.base, v.start.key(), v.end.key())
            return [(s, "val", StructV("std::result::Result", "Ok", {"0": a[0]})) for s in self.I.assume(st, flit(("b", key, True)))] + \
                   [(s, "val", StructV("std::result::Result", "Err", {"0": Opaque("Utf8Error")})) for s in self.I.assume(st, flit(("b", key, False)))]
        return [(st, "val", StructV("std::result::Result", "Ok", {"0": a[0]})),
                (st, "val", StructV("std::result::Result", "Err", {"0": Opaque("Utf8Error")}))]

    def range_inclusive_new(self, e, st, a):
        return [(st, "val", StructV("std::ops::RangeInclusive", "RangeInclusive", {"start": a[0], "end": a[1]}))]

    def _range_bounds(self, st, r):
        if isinstance(r, RefV):
            r = self.I.read_loc(st, r.key, r.path)
        if not (isinstance(r, StructV) and r.adt in ("std::ops::Range", "std::ops::RangeInclusive")):
            return None
        lo, hi = r.fields.get("start"), r.fields.get("end")
        if not (isinstance(lo, IntV) and isinstance(hi, IntV)):
            return None
        return lo.l, hi.l, r.adt.endswith("RangeInclusive")

    def range_contains(self, e, st, a):
        b = self._range_bounds(st, a[0])
        x = self._deref_int(st, a[1])
        if b is None or x is None:
            return None
        lo, hi, incl = b
        return [(st, "val", BoolV(f_and(flit(ge(x.l, lo)), flit(le(x.l, hi)) if incl else flit(lt(x.l, hi)))))]

    def range_is_empty(self, e, st, a):
        b = self._range_bounds(st, a[0])
        if b is None:
            return None
        lo, hi, incl = b
        return [(st, "val", BoolV(flit(gt(lo, hi)) if incl else flit(ge(lo, hi))))]

    def mem_take(self, e, st, a):
        r = a[0]
        if not isinstance(r, RefV):
            return None
        cur = self.I.read_loc(st, r.key, r.path)
        ga = e.get("gargs") or []
        dflt = self.M.default_of(st, ga[0]) if ga else None
        if dflt is None or isinstance(dflt, Opaque):
            if isinstance(cur, SliceV):
                dflt = SliceV(cur.base, cur.end, cur.end)
            elif isinstance(cur, IntV):
                dflt = IntV(0, cur.ty)
            else:
                return None
        self.I.write_loc(st, r.key, r.path, dflt)
        return [(st, "val", cur)]

    def mem_replace(self, e, st, a):
        r = a[0]
        if not isinstance(r, RefV):
            return None
        cur = self.I.read_loc(st, r.key, r.path)
        self.I.write_loc(st, r.key, r.path, a[1])
        return [(st, "val", cur)]

    def it_take_while(self, e, st, a):
        it = self._iter(st, a[0])
        if it is None:
            return None
        if self.I.loops.count_of(st, it.seq) is None or not (it.pos.is_const() and it.pos.c == 0):
            return None
        seq = ("take_while", it.seq, a[1])
        st.pc.append(le(self.I.loops.count_of(st, seq), self.I.loops.count_of(st, it.seq)))
        return [(st, "val", IterV(seq))]

    def _iter(self, st, v):
        if isinstance(v, RefV):
            v = self.I.read_loc(st, v.key, v.path)
        return v if isinstance(v, IterV) else None

    def _double_ended(self, seq):
        while seq[0] in ("copied", "enumerate", "map", "rev"):
            seq = seq[1]
        return seq[0] in ("coll", "bytes", "items", "chunks")

    def it_rev(self, e, st, a):
        it = self._iter(st, a[0])
        if it is None or not self._double_ended(it.seq) or self.I.loops.count_of(st, it.seq) is None:
            return None
        return [(st, "val", IterV(("rev", it.seq, it.pos)))]

    def it_skip(self, e, st, a):
        it = self._iter(st, a[0])
        if it is None or not isinstance(a[1], IntV):
            return None
        n = self.I.loops.count_of(st, it.seq)
        if n is None:
            return None
        # skipping past the end leaves an exhausted iterator: position min(pos + k, n)
        out = [(s, "val", IterV(it.seq, it.pos + a[1].l)) for s in self.I.assume(st, flit(le(it.pos + a[1].l, n)))]
        out += [(s, "val", IterV(it.seq, n)) for s in self.I.assume(st, flit(gt(it.pos + a[1].l, n)))]
        return out

    def _at(self, e, st, it, idx):
        """Option of the element at absolute index idx of the iterator's sequence"""
        n = self.I.loops.count_of(st, it.seq)
        if n is None:
            return None
        out = []
        for s in self.I.assume(st, f_and(flit(ge(idx, it.pos)), flit(lt(idx, n)))):
            for s2, v in self.I.loops.elem_of(s, it.seq, idx, e):
                out.append((s2, "val", some(v)))
        out += [(s, "val", NONE) for s in self.I.assume(st, f_or(flit(lt(idx, it.pos)), flit(ge(idx, n))))]
        return out

    def it_last(self, e, st, a):
        it = self._iter(st, a[0])
        if it is None:
            return None
        n = self.I.loops.count_of(st, it.seq)
        if n is None:
            return None
        return self._at(e, st, it, n - 1)

    def it_nth(self, e, st, a):
        it = self._iter(st, a[0])
        if it is None or not isinstance(a[1], IntV) or isinstance(a[0], RefV) is False and False:
            return None
        out = self._at(e, st, it, it.pos + a[1].l)
        if out is not None and isinstance(a[0], RefV):
            n = self.I.loops.count_of(st, it.seq)
            for s, k, v in out:
                adv = it.pos + a[1].l + 1 if (isinstance(v, StructV) and v.variant == "Some") else n
                self.I.write_loc(s, a[0].key, a[0].path, IterV(it.seq, adv))
        return out

    def it_sum(self, e, st, a):
        """Iterator::sum for integers, and for Result<integer, E> (the first Err ends the summation)"""
        rt = self.I.F.types[e["t"]]
        ty = self.I.int_ty(e)
        is_res = rt.get("def") == "std::result::Result"
        if is_res:
            okt = self.I.F.types[rt["args"][0]]
            ty = okt["s"] if okt["k"] == "int" else None
        if ty is None:
            return None

        def step(s, acc, x):
            if isinstance(x, RefV):
                x = self.I.read_loc(s, x.key, x.path)
            outs = []
            alts = [(s, x)]
            if is_res:
                alts = []
                for s2, sv in self._res(s, x, e):
                    if sv.variant == "Err":
                        outs.append((s2, "out", sv))
                    else:
                        alts.append((s2, sv.fields["0"]))
            for s2, xv in alts:
                if isinstance(xv, RefV):
                    xv = self.I.read_loc(s2, xv.key, xv.path)
                if not (isinstance(acc, IntV) and isinstance(xv, IntV)):
                    outs.append((s2, "val", Opaque("sum of non-integers")))
                    continue
                outs += [(s3, "val", v) for s3, v in self.I.binop(s2, "Add", acc, IntV(xv.l, acc.ty), e, acc.ty)]
            return outs

        r = self.I.loops.py_for(e, st, a[0], IntV(0, ty), step)
        if r is None:
            return None
        out = []
        for s, k, v, exhausted in r:
            if k != "val":
                out.append((s, k, v))
            elif is_res and exhausted:
                out.append((s, "val", ok(v)))
            else:
                out.append((s, "val", v))
        return out

    def it_try_fold(self, e, st, a):
        """Iterator::try_fold with a Result/Option-returning closure"""
        def step(s, acc, x):
            outs = []
            for s2, k, r in self.I.apply_fn(s, a[2], [acc, x], e):
                if k != "val":
                    outs.append((s2, k, r))
                elif isinstance(r, StructV) and r.variant in ("Ok", "Some"):
                    outs.append((s2, "val", r.fields["0"]))
                elif isinstance(r, StructV) and r.variant in ("Err", "None"):
                    outs.append((s2, "out", r))
                else:
                    return None
            return outs

        rt = self.I.F.types[e["t"]]
        wrap = ok if rt.get("def") == "std::result::Result" else (some if rt.get("def") == "std::option::Option" else None)
        if wrap is None:
            return None
        r = self.I.loops.py_for(e, st, a[0], a[1], lambda s, acc, x: step(s, acc, x) or [(s, "val", Opaque("try_fold"))], closures=[a[2]])
        if r is None:
            return None
        return [(s, k, (wrap(v) if (k == "val" and exhausted) else v)) for s, k, v, exhausted in r]

    def it_next_back(self, e, st, a):
        return None      # would need an end position in IterV: stays unmodelled (fails closed)

    # ------------------------------------------------------------ slices
    def _slice(self, st, v):
        if isinstance(v, RefV):
            v = self.I.read_loc(st, v.key, v.path)
        return v

    def sl_get(self, e, st, a):
        sl, r = self._slice(st, a[0]), a[1]
        n = self.M.length_of(sl)
        if n is None:
            return None
        if isinstance(r, IntV):
            out = []
            for s in self.I.assume(st, flit(lt(r.l, n))):
                for s2, v in self.I.index_read(s, sl, r, e):
                    out.append((s2, "val", some(v)))
            out += [(s, "val", NONE) for s in self.I.assume(st, flit(ge(r.l, n)))]
            return out
        if isinstance(r, StructV) and isinstance(sl, SliceV):
            v = r.variant
            f = r.fields
            try:
                if v == "Range":
                    lo, hi = f["start"].l, f["end"].l
                elif v == "RangeFrom":
                    lo, hi = f["start"].l, n
                elif v == "RangeTo":
                    lo, hi = lin(0), f["end"].l
                elif v == "RangeFull":
                    lo, hi = lin(0), n
                elif v == "RangeInclusive":
                    lo, hi = f["start"].l, f["end"].l + 1
                elif v == "RangeToInclusive":
                    lo, hi = lin(0), f["end"].l + 1
                else:
                    return None
            except AttributeError:
                return None
            good = f_and(flit(le(lo, hi)), flit(le(hi, n)))
            out = [(s, "val", some(SliceV(sl.base, sl.start + lo, sl.start + hi))) for s in self.I.assume(st, good)]
            out += [(s, "val", NONE) for s in self.I.assume(st, f_not(good))]
            return out
        return None

    def sl_ref(self, e, st, a, which):
        """get_mut(i) / first_mut() / last_mut(): Some(reference to that element) when it exists"""
        sl = self._slice(st, a[0])
        if not isinstance(sl, SliceV):
            return None
        n = sl.length()
        if which == "get":
            if not isinstance(a[1], IntV):
                return self.sl_get(e, st, a)          # get_mut(range): a sub-slice
            idx = a[1].l
        else:
            idx = lin(0) if which == "first" else n - 1
        exists = f_and(flit(ge(idx, 0)), flit(lt(idx, n)))
        out = [(s, "val", some(MemRefV(sl, IntV(idx, "usize")))) for s in self.I.assume(st, exists)]
        out += [(s, "val", NONE) for s in self.I.assume(st, f_not(exists))]
        return out

    def sl_first(self, e, st, a):
        sl = self._slice(st, a[0])
        n = self.M.length_of(sl)
        if n is None:
            return None
        out = []
        for s in self.I.assume(st, flit(gt(n, 0))):
            for s2, v in self.I.index_read(s, sl, IntV(0, "usize"), e):
                out.append((s2, "val", some(v)))
        out += [(s, "val", NONE) for s in self.I.assume(st, flit(eq(n, 0)))]
        return out

    def sl_last(self, e, st, a, base):
        sl = self._slice(st, a[0])
        if isinstance(sl, CollV):
            return base(e, st, [sl] + list(a[1:]))
        n = self.M.length_of(sl)
        if n is None:
            return None
        out = []
        for s in self.I.assume(st, flit(gt(n, 0))):
            for s2, v in self.I.index_read(s, sl, IntV(n - 1, "usize"), e):
                out.append((s2, "val", some(v)))
        out += [(s, "val", NONE) for s in self.I.assume(st, flit(eq(n, 0)))]
        return out

    def sl_split_at(self, e, st, a):
        sl, m = self._slice(st, a[0]), a[1]
        if not isinstance(sl, SliceV) or not isinstance(m, IntV):
            return None
        out = []
        for s in self.I.oblige(st, flit(le(m.l, sl.length())), "slice-range", e, "split_at: mid <= len"):
            out.append((s, "val", TupV([SliceV(sl.base, sl.start, sl.start + m.l), SliceV(sl.base, sl.start + m.l, sl.end)])))
        return out

    def sl_split_first(self, e, st, a, mutable=False):
        sl = self._slice(st, a[0])
        if not isinstance(sl, SliceV):
            return None
        n = sl.length()
        out = []
        for s in self.I.assume(st, flit(gt(n, 0))):
            if mutable:
                out.append((s, "val", some(TupV([MemRefV(sl, IntV(0, "usize")), SliceV(sl.base, sl.start + 1, sl.end)]))))
                continue
            for s2, v in self.I.index_read(s, sl, IntV(0, "usize"), e):
                out.append((s2, "val", some(TupV([v, SliceV(sl.base, sl.start + 1, sl.end)]))))
        out += [(s, "val", NONE) for s in self.I.assume(st, flit(eq(n, 0)))]
        return out

    def sl_split_last(self, e, st, a, mutable=False):
        sl = self._slice(st, a[0])
        if not isinstance(sl, SliceV):
            return None
        n = sl.length()
        out = []
        for s in self.I.assume(st, flit(gt(n, 0))):
            if mutable:
                out.append((s, "val", some(TupV([MemRefV(sl, IntV(n - 1, "usize")), SliceV(sl.base, sl.start, sl.end - 1)]))))
                continue
            for s2, v in self.I.index_read(s, sl, IntV(n - 1, "usize"), e):
                out.append((s2, "val", some(TupV([v, SliceV(sl.base, sl.start, sl.end - 1)]))))
        out += [(s, "val", NONE) for s in self.I.assume(st, flit(eq(n, 0)))]
        return out

    def sl_to_vec(self, e, st, a):
        sl = self._slice(st, a[0])
        if isinstance(sl, SliceV):
            return [(st, "val", sl)]
        return None
