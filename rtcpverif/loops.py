"""Loop summarisation: loops are never unrolled.

* generic `loop`/`while`: loop-carried variables are havocked, candidate invariants from a small
  template family are filtered to the inductive subset (Houdini), the body is interpreted once
  under invariant to discharge its obligations and to collect the exit states; a ranking argument
  is looked for and reported.
* `for x in <abstract sequence>`: the same, with a loop index k (0 <= k < N), closed forms for
  carried variables with constant stride, prefix sums for element-dependent strides, and the
  body's writes generalised to quantified writes.
"""
from . import solver
from .lin import (FALSE, TRUE, Lin, atoms_deep, eq, f_and, f_not, f_or, flit, ge, gt, le, lin, lt, ne,
                  subst_deep, show_lit)
from .values import *


class LoopReport:
    def __init__(self, span, fn, kind):
        self.span, self.fn, self.kind = span, fn, kind
        self.invariants = []
        self.ranked = None
        self.measure = None
        self.bound = None
        self.carried = []     # [(atom, init Lin)] integer loop-carried symbols left havocked
        self.backs = []       # [(pc delta literals, {atom: new Lin})] one per back-edge path
        self.exit_kinds = []  # kinds of the non-back-edge exits ('ret', 'brk', ...), with the returned value
        self.inv_lits = []

    def __repr__(self):
        return f"loop@{self.span} [{self.kind}] inv={self.invariants} rank={self.measure}"


def _strip(e):
    while e["k"] in ("Use", "NeverToAny") or (e["k"] == "Block" and not e["b"]["stmts"] and e["b"]["expr"]):
        e = e["src"] if e["k"] != "Block" else e["b"]["expr"]
    return e


UNROLL_MAX = 8


class Loops:
    def __init__(self, I):
        self.I = I
        self.psfuns = {}

    # ------------------------------------------------------------------ syntactic helpers
    def _roots(self, e, acc, consts):
        if isinstance(e, dict):
            k = e.get("k")
            if k in ("Assign", "AssignOp"):
                self._root_of(e["lhs"], acc)
            elif k == "Borrow" and e.get("mut"):
                self._root_of(e["arg"], acc)
            elif k == "Lit" and e.get("kind") == "int":
                try:
                    consts.add(int(e["v"]))
                except ValueError:
                    pass
            elif k == "Call" and e.get("local") and (e.get("resolved") or e.get("fn")) in self.I.F.bodies:
                pass
            for v in e.values():
                if isinstance(v, (dict, list)):
                    self._roots(v, acc, consts)
        elif isinstance(e, list):
            for v in e:
                self._roots(v, acc, consts)

    def _root_of(self, e, acc):
        while True:
            k = e["k"]
            if k in ("Field", "Index"):
                e = e["lhs"]
            elif k == "Deref":
                e = e["arg"]
            elif k in ("Use",):
                e = e["src"]
            elif k == "Borrow":
                e = e["arg"]
            else:
                break
        if e["k"] in ("Var", "Upvar"):
            acc.add(e["var"])

    # ------------------------------------------------------------------ havoc
    def _havoc(self, v, name, syms, lab):
        """returns a havocked copy; syms gets (atom-or-boolkey, path, init value)"""
        if isinstance(v, IntV):
            a = ("sym", f"{name}@{lab}", v.ty)
            syms.append((a, v))
            return IntV(Lin.atom(a), v.ty)
        if isinstance(v, BoolV):
            key = f"{name}@{lab}"
            syms.append((("bool", key), v))
            return BoolV(flit(("b", key, True)))
        if isinstance(v, StructV):
            return StructV(v.adt, v.variant, {k: self._havoc(x, f"{name}.{k}", syms, lab) for k, x in v.fields.items()})
        if isinstance(v, TupV):
            return TupV([self._havoc(x, f"{name}.{i}", syms, lab) for i, x in enumerate(v.items)])
        if isinstance(v, IterV):
            a = ("sym", f"{name}.pos@{lab}", "usize")
            syms.append((a, IntV(v.pos, "usize")))
            return IterV(v.seq, Lin.atom(a))
        if isinstance(v, SliceV):
            # a slice variable reassigned by the loop (`rest = &rest[n..]`): the same buffer with unknown bounds
            a1 = ("sym", f"{name}.start@{lab}", "usize")
            a2 = ("sym", f"{name}.end@{lab}", "usize")
            syms.append((a1, IntV(v.start, "usize")))
            syms.append((a2, IntV(v.end, "usize")))
            return SliceV(v.base, Lin.atom(a1), Lin.atom(a2), is_str=getattr(v, "is_str", False))
        return v

    def _collect_lens(self, st, frame):
        out = []
        seen = set()

        def walk(v, depth=0):
            if depth > 4:
                return
            if isinstance(v, SliceV):
                L = v.length()
                if L.key() not in seen:
                    seen.add(L.key())
                    out.append(L)
            elif isinstance(v, StructV):
                for x in v.fields.values():
                    walk(x, depth + 1)
            elif isinstance(v, TupV):
                for x in v.items:
                    walk(x, depth + 1)
            elif isinstance(v, RefV):
                walk(self.I.read_loc(st, v.key, v.path), depth + 1)

        for k, v in st.env.items():
            if k[0] == frame:
                walk(v)
        return out

    def _flatten(self, v, name, out):
        """(path-name, value) for int/bool leaves, same naming as _havoc"""
        if isinstance(v, (IntV, BoolV)):
            out.append((name, v))
        elif isinstance(v, StructV):
            for k, x in v.fields.items():
                self._flatten(x, f"{name}.{k}", out)
        elif isinstance(v, TupV):
            for i, x in enumerate(v.items):
                self._flatten(x, f"{name}.{i}", out)
        elif isinstance(v, IterV):
            out.append((f"{name}.pos", IntV(v.pos, "usize")))
        elif isinstance(v, SliceV):
            out.append((f"{name}.start", IntV(v.start, "usize")))
            out.append((f"{name}.end", IntV(v.end, "usize")))

    # ------------------------------------------------------------------ generic loop
    def loop(self, e, st, for_ctx=None):
        """for_ctx: None or dict(k=atom, N=Lin, bind=callable(state)->list of states with element bound, body=expr)"""
        I = self.I
        label = e.get("label")
        body = e["body"] if for_ctx is None else for_ctx["body"]
        lab = f"L{I.span(e).rsplit('/', 1)[-1]}"
        if any(r.span == I.span(e) and r.fn == (I.stack[-1] if I.stack else "?") for r in I.loop_reports):
            lab += f"#{next(I.counter)}"
        vars_, consts = set(), set()
        self._roots(body, vars_, consts)
        if for_ctx is not None:
            # closures of the sequence's adaptors (map, take_while ...) run once per element: what they assign is carried too
            def seq_closures(x):
                if isinstance(x, FnV) and x.fn in I.F.bodies:
                    self._roots(I.F.bodies[x.fn]["body"], vars_, consts)
                elif isinstance(x, tuple):
                    for y in x:
                        seq_closures(y)
            seq_closures(for_ctx["seq"])
        # carried env keys
        keys = []
        for var in sorted(vars_):
            key = (st.frame, var)
            v = st.env.get(key)
            if v is None:
                continue
            if isinstance(v, RefV):
                key = v.key
                v = st.env.get(key)
                if v is None:
                    continue
            if isinstance(v, (CollV, DynV, FnV, Opaque)):
                continue
            if key not in keys:
                keys.append(key)
        # havoc
        pre = st
        base = st.clone()
        syms = []
        names = {}
        for key in keys:
            nm = self._var_name(body, key[1]) or str(key[1])
            names[key] = nm
            base.env[key] = self._havoc(st.env[key], nm, syms, lab)
        exist_new = tuple(a for a, _ in syms if a[0] == "sym")
        if for_ctx is not None:
            exist_new = exist_new + (for_ctx["k"],)
        base.exist = st.exist + exist_new
        int_syms = [(a, init) for a, init in syms if a[0] == "sym"]
        bool_syms = [(a, init) for a, init in syms if a[0] == "bool"]

        def current(s):
            """name -> current value of each havocked leaf in state s"""
            out = []
            for key in keys:
                self._flatten(s.env.get(key), names[key], out)
            return {f"{n}@{lab}": v for n, v in out}

        def sym_name(a):
            return a[1]

        k_atom = for_ctx["k"] if for_ctx else None
        # ---- carried variables that stay at a constant distance from another one (idx/end pairs):
        #      found by Houdini on the pairwise equalities that hold on entry, then eliminated
        if for_ctx is not None and len(int_syms) > 1:
            pairs = []
            for i, (a, ia) in enumerate(int_syms):
                for b, ib in int_syms[:i]:
                    pairs.append((a, b, eq(Lin.atom(a) - Lin.atom(b), ia.l - ib.l)))
            for _ in range(6):
                I.quiet += 1
                try:
                    s0 = base.clone()
                    s0.pc.extend(c for _, _, c in pairs)
                    s0.pc.append(le(0, Lin.atom(k_atom)))
                    s0.pc.append(lt(Lin.atom(k_atom), for_ctx["N"]))
                    backs0 = self._run_body(body, s0, label, for_ctx)[0]
                finally:
                    I.quiet -= 1
                keep = []
                for a, b, c in pairs:
                    good = bool(backs0)
                    for sb in backs0:
                        cur = current(sb)
                        va, vb = cur.get(sym_name(a)), cur.get(sym_name(b))
                        if not (isinstance(va, IntV) and isinstance(vb, IntV)):
                            good = False
                            break
                        m = {a: va.l, b: vb.l}
                        if not solver.entails_lit(sb.pc, (c[0], subst_deep(c[1], m))):
                            good = False
                            break
                    if good:
                        keep.append((a, b, c))
                if len(keep) == len(pairs):
                    break
                pairs = keep
            elim = {}
            for a, b, c in pairs:
                if a in elim or b in elim:
                    continue
                # a == b + (ia - ib)
                ia = dict(int_syms)[a]
                ib = dict(int_syms)[b]
                elim[a] = Lin.atom(b) + (ia.l - ib.l)
            if elim:
                for key in keys:
                    base.env[key] = self._subst_val(base.env[key], elim)
                int_syms = [(a, i) for a, i in int_syms if a not in elim]
        # ---- trial run: discover strides
        closed = {}
        trial_backs = []
        if for_ctx is not None:
            I.quiet += 1
            try:
                s0 = base.clone()
                s0.pc.append(le(0, Lin.atom(k_atom)))
                s0.pc.append(lt(Lin.atom(k_atom), for_ctx["N"]))
                backs = self._run_body(body, s0, label, for_ctx)[0]
            finally:
                I.quiet -= 1
            trial_backs = backs
            if backs:
                for a, init in int_syms:
                    d = None
                    okc = True
                    for sb in backs:
                        nv = current(sb).get(sym_name(a))
                        if not isinstance(nv, IntV):
                            okc = False
                            break
                        delta = nv.l - Lin.atom(a)
                        if not delta.is_const():
                            okc = False
                            break
                        if d is None:
                            d = delta.c
                        elif d != delta.c:
                            okc = False
                            break
                    if okc and d is not None:
                        closed[a] = (init.l, d)
                # element-dependent strides -> prefix sums
                for a, init in int_syms:
                    if a in closed:
                        continue
                    ps = self._try_prefix_sum(a, init, backs, current, sym_name, for_ctx, base)
                    if ps is not None:
                        closed[a] = ps
        # substitute closed forms
        if closed:
            for_ctx["ps_forms"] = [cf[1] for cf in closed.values() if not isinstance(cf[1], int)]
            m = {}
            for a, cf in closed.items():
                if isinstance(cf[1], int):
                    m[a] = cf[0] + Lin.atom(k_atom, cf[1])
                else:
                    m[a] = cf[0] + cf[1](Lin.atom(k_atom))
            for key in keys:
                base.env[key] = self._subst_val(base.env[key], m)
            int_syms = [(a, i) for a, i in int_syms if a not in closed]
        if for_ctx is not None and trial_backs and int_syms:
            self._tile_accs(for_ctx, trial_backs, int_syms, current, sym_name, base)
        # ---- carried leaves that no iteration changes (the untouched end of a slice whose start advances, a field of a
        #      struct that is rewritten as a whole) keep their entry value: not state of the loop at all
        if for_ctx is None and int_syms:
            I.quiet += 1
            try:
                trial0 = self._run_body(body, base.clone(), label, None)[0]
            except Exception:
                trial0 = []
            finally:
                I.quiet -= 1
            same = {}
            for a, init in int_syms:
                if trial0 and all(isinstance(current(sb).get(sym_name(a)), IntV) and current(sb)[sym_name(a)].l == Lin.atom(a) for sb in trial0):
                    same[a] = init.l
            if same and len(same) < len(int_syms):
                for key in keys:
                    base.env[key] = self._subst_val(base.env[key], same)
                int_syms = [(a, i) for a, i in int_syms if a not in same]
        # ---- candidate invariants
        cands = []
        lens = self._collect_lens(st, st.frame)
        for a, init in int_syms:
            A = Lin.atom(a)
            cands.append(ge(A, init.l))
            cands.append(le(A, init.l))
            for L in lens:
                cands.append(le(A, L))
                cands.append(lt(A, L))
            for c in sorted(consts):
                if 0 < c <= 0xffff:
                    cands.append(le(A, c))
                    cands.append(le(A, c + 1))
            cands.append(eq(Lin.atom(("mod", (A - init.l).key(), 4)), 0))
            # stays at or below the next 32-bit boundary of its initial value
            cands.append(le(A, init.l + 3 - Lin.atom(("mod", (init.l + 3).key(), 4))))
        for i, (a, ia) in enumerate(int_syms):
            for b, ib in int_syms[:i]:
                cands.append(eq(Lin.atom(a) - Lin.atom(b), ia.l - ib.l))
        # a reassigned slice stays a slice: start <= end
        for a, ia in int_syms:
            if a[1].split("@")[0].endswith(".start"):
                for b, ib in int_syms:
                    if b[1] == a[1].replace(".start@", ".end@"):
                        cands.append(le(Lin.atom(a), Lin.atom(b)))
        # bounds the body itself compares a carried variable against (x < E on a back-edge path, E loop
        # invariant): candidates x < E and x <= E
        if for_ctx is None and int_syms:
            hav = {a for a, _ in int_syms}
            I.quiet += 1
            try:
                trial = self._run_body(body, base.clone(), label, None)[0]
            except Exception:
                trial = []
            finally:
                I.quiet -= 1
            seen_c = set()
            for sb in trial:
                for l in sb.pc[len(base.pc):]:
                    if l[0] != "le":
                        continue
                    ats = atoms_deep(l[1])
                    mine = [a for a in l[1].t if a in hav]
                    if len(mine) != 1 or l[1].t[mine[0]] <= 0 or (ats & hav) != {mine[0]}:
                        continue
                    if any(x[0] in ("opq",) for x in ats):
                        continue
                    for c in (l, ("le", l[1] - 1)):
                        k = (c[0], c[1].key())
                        if k not in seen_c:
                            seen_c.add(k)
                            cands.append(c)
        for a, init in bool_syms:
            pass
        # candidates must hold on entry
        entry_map = {a: init.l for a, init in int_syms}
        cands = [c for c in cands if solver.entails_lit(st.pc, (c[0], subst_deep(c[1], entry_map)))]
        # ---- Houdini
        rounds = 0
        while True:
            rounds += 1
            I.quiet += 1
            try:
                s0 = base.clone()
                s0.pc.extend(cands)
                if for_ctx is not None:
                    s0.pc.append(le(0, Lin.atom(k_atom)))
                    s0.pc.append(lt(Lin.atom(k_atom), for_ctx["N"]))
                backs = self._run_body(body, s0, label, for_ctx)[0]
            finally:
                I.quiet -= 1
            keep = []
            for c in cands:
                good = True
                for sb in backs:
                    cur = current(sb)
                    m = {}
                    for a, _ in int_syms:
                        nv = cur.get(sym_name(a))
                        if isinstance(nv, IntV):
                            m[a] = nv.l
                        else:
                            m[a] = Lin.atom(("opq", I.fresh("lost"), a[2]))
                    if not solver.entails_lit(sb.pc, (c[0], subst_deep(c[1], m))):
                        good = False
                        break
                if good:
                    keep.append(c)
            if len(keep) == len(cands) or rounds > 8:
                cands = keep
                break
            cands = keep
        # ---- final pass
        rep = LoopReport(I.span(e), I.stack[-1] if I.stack else "?", "for" if for_ctx else "loop")
        rep.invariants = [show_lit(c) for c in cands]
        s0 = base.clone()
        s0.pc.extend(cands)
        if for_ctx is not None:
            s0.pc.append(le(0, Lin.atom(k_atom)))
            s0.pc.append(lt(Lin.atom(k_atom), for_ctx["N"]))
        n_mem = {b: len(ws) for b, ws in s0.mem.items()}
        backs, exits = self._run_body(body, s0, label, for_ctx)
        if for_ctx is not None and for_ctx.get("ref") is not None:
            # traversal through a borrowed iterator: the body itself must not advance it (one element per iteration)
            r_ = for_ctx["ref"]
            want = for_ctx["pos0"] + Lin.atom(k_atom) + 1
            for sb in backs:
                cur_it = I.read_loc(sb, r_.key, r_.path)
                if not (isinstance(cur_it, IterV) and self.seq_key(cur_it.seq) == self.seq_key(for_ctx["seq"]) and
                        solver.entails(sb.pc, flit(eq(cur_it.pos, want)))):
                    I.unmodelled_at(e, "the loop body advances the iterator it traverses")
                    break
        # a havocked slice variable must still be a slice of the same buffer at every back edge
        for key in keys:
            v0 = base.env.get(key)
            if isinstance(v0, SliceV) and isinstance(pre.env.get(key), SliceV):
                for sb in backs:
                    v1 = sb.env.get(key)
                    if not (isinstance(v1, SliceV) and v1.base == v0.base):
                        I.unmodelled_at(e, "a loop reassigns a slice variable to a view of another buffer")
                        break
        rep.inv_lits = list(cands)
        rep.carried = [(a, init.l) for a, init in int_syms]
        for sb in backs:
            cur = current(sb)
            rep.backs.append((list(sb.pc[len(base.pc) + len(cands):]),
                              {a: (cur.get(sym_name(a)).l if isinstance(cur.get(sym_name(a)), IntV) else None) for a, _ in int_syms}))
        rep.exit_kinds = [(kind, v, list(sx.pc[len(base.pc) + len(cands):])) for sx, kind, v in exits]
        rep.exit_vals = []
        for sx, kind, v in exits:
            cur = current(sx)
            rep.exit_vals.append({a: (cur.get(sym_name(a)).l if isinstance(cur.get(sym_name(a)), IntV) else None) for a, _ in int_syms})
        # ---- ranking
        if for_ctx is None:
            self._rank(rep, backs, int_syms, cands, current, sym_name)
        else:
            rep.ranked = True
            rep.measure = f"iterator over a finite sequence of {for_ctx['N']} elements"
        self.last_report = rep
        if not I.quiet:
            I.loop_reports.append(rep)
        # a loop whose every iteration writes [x+S, x+S+w) and advances x by w writes [x0+S, x_exit+S)
        if for_ctx is None and len(backs) == 1 and int_syms:
            sb = backs[0]
            cur = current(sb)
            from .interp import Write
            for b, wl in sb.mem.items():
                new = wl[n_mem.get(b, 0):]
                if len(new) != 1 or new[0].q is not None or new[0].kind not in ("bytes", "fill"):
                    continue
                w = new[0]
                for a, init in int_syms:
                    A = Lin.atom(a)
                    nv = cur.get(sym_name(a))
                    if not isinstance(nv, IntV):
                        continue
                    S = w.start - A
                    width = w.end - w.start
                    if a in atoms_deep(S) or not width.is_const():
                        continue
                    if not solver.entails(sb.pc, flit(eq(nv.l, A + width))):
                        continue
                    vals = w.payload if w.kind == "bytes" else [w.payload]
                    if not all(isinstance(x, IntV) and x.l.is_const() and x.l.c == vals[0].l.c for x in vals):
                        continue
                    for sx, _, _ in exits:
                        I.write(sx, b, Write(init.l + S, Lin.atom(a) + S, "fill", vals[0], span=w.span, fn=w.fn))
                    break
        # collection pushes made by the iterations are visible after the loop (any number of them)
        if for_ctx is None and backs:
            tiled = self._tiling(pre, backs, int_syms, current, sym_name)
            for sx, _, _ in exits:
                for sb in backs:
                    for seqk, recs in sb.colls.items():
                        old = len(pre.colls.get(seqk, ()))
                        have = sx.colls.get(seqk, ())
                        for r in recs[old:]:
                            if r not in have:
                                have = have + (r,)
                        sx.colls[seqk] = have
                    for seqk, b in sb.tiles.items():
                        if seqk not in pre.colls:
                            sx.tiles.setdefault(seqk, b)
                for seqk, b in tiled.items():
                    if b is None:
                        sx.tiles.pop(seqk, None)
                    elif not pre.colls.get(seqk):
                        sx.tiles[seqk] = b     # (base, first start, end after the last element [the carried variable at exit], exact)
        outs = []
        for s, kind, v in exits:
            if kind == "brk" and v[0] == label:
                outs.append((s, "val", v[1]))
            else:
                outs.append((s, kind, v))
        if for_ctx is not None:
            outs.extend(self._for_exit(pre, base, backs, keys, closed, cands, int_syms, for_ctx, n_mem, e))
        return outs

    def _first_slice(self, v, depth=0):
        if isinstance(v, SliceV):
            return v
        if isinstance(v, StructV) and depth < 3:
            for x in v.fields.values():
                r = self._first_slice(x, depth + 1)
                if r is not None:
                    return r
        return None

    def _tiling(self, pre, backs, int_syms, current, sym_name):
        """collections that receive exactly one element per iteration whose view [s, e) lies inside the
        range the loop's offset variable advances over in that iteration (s >= S + o, e <= S + o'):
        views pushed by different iterations are pairwise disjoint pieces of one buffer.  seq -> base | None"""
        out = {}
        for sb in backs:
            cur = current(sb)
            for seqk, recs in sb.colls.items():
                if seqk not in pre.colls:
                    continue  # created inside the iteration: local to it
                new = recs[len(pre.colls.get(seqk, ())):]
                if not new:
                    continue
                if len(new) != 1 or out.get(seqk, "") is None:
                    out[seqk] = None
                    continue
                sl = self._first_slice(new[0][1])
                base = None
                if sl is not None:
                    for a, init in int_syms:
                        nv = cur.get(sym_name(a))
                        if not isinstance(nv, IntV):
                            continue
                        A = Lin.atom(a)
                        S = sl.start - A
                        if a in atoms_deep(S):
                            continue
                        if solver.entails(sb.pc, f_and(flit(le(sl.end, S + nv.l)), flit(le(sl.start, sl.end)))):
                            base = sl.base
                            break
                if base is None or (out.get(seqk) is not None and out[seqk][0] != base):
                    out[seqk] = None
                else:
                    # exact consecutive tiling: each view is exactly [S + o, S + o')
                    exact = solver.entails(sb.pc, f_and(flit(eq(sl.start, S + A)), flit(eq(sl.end, S + nv.l))))
                    prev = out.get(seqk)
                    out[seqk] = (base, S + init.l, S + A, exact and (prev is None or prev[3]))
        return out

    def _var_name(self, body, var):
        found = [None]

        def walk(e):
            if found[0]:
                return
            if isinstance(e, dict):
                if e.get("k") in ("Var", "Upvar") and e.get("var") == var:
                    found[0] = e["name"]
                    return
                for v in e.values():
                    if isinstance(v, (dict, list)):
                        walk(v)
            elif isinstance(e, list):
                for v in e:
                    walk(v)

        walk(body)
        return found[0]

    def _subst_val(self, v, m):
        if isinstance(v, IntV):
            return IntV(subst_deep(v.l, m), v.ty)
        if isinstance(v, StructV):
            return StructV(v.adt, v.variant, {k: self._subst_val(x, m) for k, x in v.fields.items()})
        if isinstance(v, TupV):
            return TupV([self._subst_val(x, m) for x in v.items])
        if isinstance(v, IterV):
            return IterV(v.seq, subst_deep(v.pos, m))
        if isinstance(v, SliceV):
            return SliceV(v.base, subst_deep(v.start, m), subst_deep(v.end, m), v.is_str)
        return v

    def _ps_split(self, s0, for_ctx):
        """prefix-sum strides: PS(k+1) = PS(k) + F(e_k), PS(k+1) <= PS(N); F is defined by cases on the
        element, so the state is partitioned by those cases (the body would split on them anyway)"""
        forms = for_ctx.get("ps_forms") or []
        states = [s0]
        rests = []
        K = Lin.atom(for_ctx["k"])
        for form in forms:
            pk, pk1, pn = form(K), form(K + 1), form(for_ctx["N"])
            nxt = []
            for s in states:
                s.pc.append(le(pk1, pn))
                s.pc.append(le(pk, pk1))
                if len(form.cases) == 1 and not form.cases[0][0]:
                    s.pc.append(eq(pk1, pk + form.cases[0][1]))
                    nxt.append(s)
                    continue
                for cond, delta in form.cases:
                    s1 = s.clone()
                    s1.pc.extend(cond)
                    s1.pc.append(eq(pk1, pk + delta))
                    if solver.feasible(s1.pc):
                        nxt.append(s1)
                # paths on which the iteration leaves the loop early are taken from an unsplit copy
                # (its back edges are discarded: the case states above cover them)
                if not getattr(s, "_rest", False):
                    r = s.clone()
                    rests.append(r)
            states = nxt
            # a sum over elements that are consecutive views of one buffer (tiling ghost fact of the collection):
            # each element contributes (at most) its own extent, so the total is bounded by / equal to the extent tiled
            tf = self._ps_tile_facts(states, form, for_ctx)
            if tf:
                for s in states + rests:
                    s.pc.extend(tf)
                for_ctx.setdefault("exit_facts", []).extend(tf)
        return states, rests

    def _tile_accs(self, for_ctx, trial_backs, int_syms, current, sym_name, base):
        """accumulators over a collection of consecutive views of one buffer whose every step adds (at most) the extent
        of the element visited: the running total is bounded by the buffer, and equals the extent tiled at the end"""
        seq = for_ctx["seq"]
        while seq[0] in ("copied", "map", "enumerate"):
            seq = seq[1]
        if seq[0] != "coll" or not (for_ctx["pos0"].is_const() and for_ctx["pos0"].c == 0):
            return
        tinfo = base.tiles.get(seq[1].seq)
        if not tinfo:
            return
        gk = ("ghost-elem", for_ctx["k"][1])
        for a, init in int_syms:
            bounded, exact = True, bool(tinfo[3])
            for sb in trial_backs:
                sl = self._first_slice(sb.env.get(gk))
                nv = current(sb).get(sym_name(a))
                if sl is None or not isinstance(nv, IntV):
                    bounded = False
                    break
                d = nv.l - Lin.atom(a)
                if not solver.entails(sb.pc, f_and(flit(ge(d, 0)), flit(le(d, sl.length())))):
                    bounded = False
                    break
                if exact and not solver.entails(sb.pc, flit(eq(d, sl.length()))):
                    exact = False
            if bounded:
                for_ctx.setdefault("tile_accs", []).append((a, init.l, tinfo, exact))

    def _ps_tile_facts(self, states, form, for_ctx):
        seq = for_ctx["seq"]
        while seq[0] in ("copied", "map", "enumerate"):
            seq = seq[1]
        if seq[0] != "coll" or not states:
            return None
        tinfo = states[0].tiles.get(seq[1].seq)
        if not tinfo or not (for_ctx["pos0"].is_const() and for_ctx["pos0"].c == 0):
            return None
        K = Lin.atom(for_ctx["k"])
        pk, pk1, pn = form(K), form(K + 1), form(for_ctx["N"])
        bounded, exact = True, bool(tinfo[3])
        for s in states:
            for s1, v in self.elem_of(s.clone(), seq, K):
                sl = self._first_slice(v)
                if sl is None:
                    return None
                d = pk1 - pk
                if not solver.entails(s1.pc, f_and(flit(ge(d, 0)), flit(le(d, sl.length())))):
                    bounded = False
                if exact and not solver.entails(s1.pc, flit(eq(d, sl.length()))):
                    exact = False
        if not bounded:
            return None
        facts = [le(pn, Lin.atom(("len", tinfo[0])))]
        if exact:
            facts.append(eq(pn, tinfo[2] - tinfo[1]))
        return facts

    def _run_body(self, body, s0, label, for_ctx):
        """returns (back-edge states, exits [(state, kind, value)])"""
        I = self.I
        backs, exits = [], []
        starts = [s0]
        if for_ctx is not None:
            starts = []
            cases, rests = self._ps_split(s0, for_ctx)
            for sx in cases:
                starts.extend((x, False) for x in for_ctx["bind"](sx))
            any_multi = any(len(f.cases) > 1 or f.cases[0][0] for f in (for_ctx.get("ps_forms") or []))
            if any_multi:
                for sx in rests[:1]:
                    starts.extend((x, True) for x in for_ctx["bind"](sx))
        else:
            starts = [(s0, False)]
        for s, rest_only in starts:
            if not rest_only:
                for s2, kind, v in I.ev(body, s):
                    is_back = kind == "val" or (kind == "cont" and (v[0] == label or for_ctx is not None and v[0] == for_ctx.get("label")))
                    if is_back:
                        backs.append(s2)
                    else:
                        exits.append((s2, kind, v))
                continue
            # early-exit paths: found quietly, then re-run (recording obligations) with the exit's own
            # conditions assumed up front so that only that path is followed
            n0 = len(s.pc)
            I.quiet += 1
            try:
                found = [(s2, kind, v) for s2, kind, v in I.ev(body, s.clone())
                         if not (kind == "val" or (kind == "cont" and (v[0] == label or v[0] == for_ctx.get("label"))))]
            finally:
                I.quiet -= 1
            seen_x = set()
            for sx, kx, vx in found:
                key = tuple(_lit_key(l) for l in sx.pc[n0:])
                if key in seen_x:
                    continue
                seen_x.add(key)
                s1 = s.clone()
                s1.pc.extend(l for l in sx.pc[n0:] if l[0] in ("le", "eq", "ne", "b"))
                for s2, kind, v in I.ev(body, s1):
                    is_back = kind == "val" or (kind == "cont" and (v[0] == label or v[0] == for_ctx.get("label")))
                    if not is_back:
                        exits.append((s2, kind, v))
        return backs, exits

    def _rank(self, rep, backs, int_syms, invs, current, sym_name):
        if not backs:
            rep.ranked = True
            rep.measure = "no back edge (body always exits)"
            return
        for a, init in int_syms:
            A = Lin.atom(a)
            inc = dec = True
            for sb in backs:
                nv = current(sb).get(sym_name(a))
                if not isinstance(nv, IntV):
                    inc = dec = False
                    break
                if inc and not solver.entails_lit(sb.pc, ge(nv.l, A + 1)):
                    inc = False
                if dec and not solver.entails_lit(sb.pc, le(nv.l, A - 1)):
                    dec = False
                if not inc and not dec:
                    break
            if dec:
                rep.ranked = True
                rep.measure = f"{a[1]} decreases, bounded below by 0"
                return
            if inc:
                # need an upper bound at loop head on every back-edge path: look for one in the back-edge pcs
                bound = None
                for c in invs:
                    if c[0] == "le" and c[1].t.get(a, 0) > 0:
                        bound = c
                        break
                if bound is None:
                    # a bound established by the body's own guard on every back edge
                    ok = True
                    for sb in backs:
                        found = False
                        for l in sb.pc:
                            if l[0] == "le" and l[1].t.get(a, 0) > 0 and all(x[0] != "sym" or x == a or "@" not in x[1] for x in l[1].t):
                                found = True
                                bound = l
                                break
                        if not found:
                            ok = False
                            break
                    if not ok:
                        bound = None
                if bound is not None:
                    rep.ranked = True
                    rep.measure = f"{a[1]} increases by >= 1 per iteration and {show_lit(bound)}"
                    rep.bound = bound
                    return
        rep.ranked = False
        rep.measure = "no ranking function found"

    # ------------------------------------------------------------------ sequences
    def count_of(self, st, seq):
        k = seq[0]
        if k == "coll":
            return seq[1].count()
        if k == "bytes":
            return seq[1].length()
        if k == "items":
            return lin(len(seq[1]))
        if k == "chunks":
            n = seq[2]
            L = seq[1].length()
            if n.is_const() and n.c > 0:
                if L.is_const():
                    return lin(L.c // n.c)
                return Lin.atom(("div", L.key(), n.c))
            return None
        if k in ("map", "copied", "enumerate"):
            return self.count_of(st, seq[1])
        if k == "rev":
            n = self.count_of(st, seq[1])
            return None if n is None else n - seq[2]
        if k == "range":
            return seq[2] - seq[1]          # built only with end >= start (see stdmodel.m_into_iter / counter_while_loop)
        if k == "take":
            return seq[2]                   # absolute end index, built only when it is below the inner count
        if k == "bytes_mut":
            return seq[1].length()
        if k == "zip":
            return seq[5]                   # the shorter of the two remaining lengths (chosen by a state split at creation)
        if k == "take_while":
            # an unknown number of leading elements (bounded by the inner count, see Loops.assume_count_bounds)
            return Lin.atom(("cnt", ("take_while", self.seq_key(seq))))
        if k == "custom":
            return Lin.atom(("cnt", ("custom", self.val_key(seq[1]))))
        if k == "map_while":
            return Lin.atom(("cnt", ("map_while", self.seq_key(seq))))
        return None

    def val_key(self, v):
        """a hashable, deterministic rendering of an abstract value"""
        if isinstance(v, IntV):
            return ("i", v.l.key())
        if isinstance(v, StructV):
            return ("s", v.adt, v.variant) + tuple((k, self.val_key(x)) for k, x in v.fields.items())
        if isinstance(v, TupV):
            return ("t",) + tuple(self.val_key(x) for x in v.items)
        if isinstance(v, SliceV):
            return ("sl", v.base, v.start.key(), v.end.key())
        if isinstance(v, CollV):
            return ("c", v.seq)
        if isinstance(v, IterV):
            return ("it", self.seq_key(v.seq), v.pos.key())
        if isinstance(v, FnV):
            return ("fn", v.fn)
        if isinstance(v, RefV):
            return ("ref", str(v.key), v.path)
        return ("?", repr(v))

    def seq_ident(self, seq):
        """key of the underlying indexed sequence (enumerate/copied do not change which element is k-th)"""
        while seq[0] in ("enumerate", "copied", "map"):
            seq = seq[1]
        return self.seq_key(seq)

    def seq_key(self, seq):
        out = [seq[0]]
        for x in seq[1:]:
            if isinstance(x, V):
                out.append(self.val_key(x))
            elif isinstance(x, Lin):
                out.append(x.key())
            elif isinstance(x, tuple):
                out.append(self.seq_key(x) if x and isinstance(x[0], str) else tuple(self.val_key(y) if isinstance(y, V) else y for y in x))
            else:
                out.append(x)
        return tuple(out)

    def coll_elem(self, st, coll, k):
        return self.I.seq_elem(coll, k)

    def elem_of(self, st, seq, k, e=None):
        """list of (state, value) for the k-th element (k: Lin) of the sequence"""
        I = self.I
        kind = seq[0]
        if kind == "coll":
            c = seq[1]
            if c.built or c.seq in st.colls:
                return self.built_elem(st, c, k)
            return [(st, I.seq_elem(c, k))]
        if kind == "bytes":
            sl = seq[1]
            return [(st, I.read_byte(st, sl.base, sl.start + k, e))]
        if kind == "items":
            items = seq[1]
            if k.is_const() and 0 <= k.c < len(items):
                return [(st, items[k.c])]
            # symbolic position in a literal array: any of the items
            return [(st.clone(), it) for it in items]
        if kind == "chunks":
            sl, n = seq[1], seq[2]
            if n.is_const():
                start = sl.start + k.scale(n.c)
                return [(st, SliceV(sl.base, start, start + n.c))]
            return [(st, Opaque("chunk of symbolic size"))]
        if kind == "copied":
            return self.elem_of(st, seq[1], k, e)
        if kind == "rev":
            n = self.count_of(st, seq[1])
            return self.elem_of(st, seq[1], n - 1 - k, e)
        if kind == "range":
            return [(st, IntV(seq[1] + k, seq[3]))]
        if kind == "take":
            return self.elem_of(st, seq[1], k, e)
        if kind == "bytes_mut":
            return [(st, MemRefV(seq[1], IntV(k, "usize")))]
        if kind == "zip":
            out = []
            for s1, x in self.elem_of(st, seq[1], seq[2] + k, e):
                for s2, y in self.elem_of(s1, seq[3], seq[4] + k, e):
                    out.append((s2, TupV([x, y])))
            return out
        if kind == "take_while":
            out = []
            for s, v in self.elem_of(st, seq[1], k, e):
                arg = v
                for s2, kd, r in I.apply_fn(s, seq[2], [arg], e or {}):
                    if kd == "val" and isinstance(r, BoolV):
                        for s3 in I.assume(s2, r.f):      # every element that is yielded satisfies the predicate
                            out.append((s3, v))
                    elif kd == "val":
                        out.append((s2, v))
            return out
        if kind == "enumerate":
            return [(s, TupV([IntV(k, "usize"), v])) for s, v in self.elem_of(st, seq[1], k, e)]
        if kind == "map":
            out = []
            for s, v in self.elem_of(st, seq[1], k, e):
                for s2, kd, r in I.apply_fn(s, seq[2], [v], e or {}):
                    if kd == "val":
                        out.append((s2, r))
            return out
        if kind == "map_while":
            out = []
            for s, v in self.elem_of(st, seq[1], k, e):
                for s2, kd, r in I.apply_fn(s, seq[2], [v], e or {}):
                    if kd == "val":
                        if isinstance(r, StructV) and r.variant == "Some":
                            out.append((s2, r.fields["0"]))
                        elif isinstance(r, StructV) and r.variant == "None":
                            pass
                        else:
                            out.append((s2, Opaque("map_while item")))
            return out
        if kind == "custom":
            return [(st, Opaque("item of custom iterator"))]
        return [(st, Opaque("element of " + kind))]

    def built_elem(self, st, c, k):
        """elements of a collection built by pushes recorded in the state: any pushed value, with the facts
        that held when it was pushed (loop-local symbols renamed apart)"""
        I = self.I
        out = []
        if any(how in ("remove", "clear") for pc, v, exist, how in st.colls.get(c.seq, ())):
            from .interp import Unmodelled
            raise Unmodelled("elements of a collection after remove()/clear()")
        for pc, v, exist, how in st.colls.get(c.seq, ()):
            m = {}
            for a in exist:
                if a[0] == "sym":
                    m[a] = Lin.atom(("sym", a[1] + "'" + str(next(I.counter)), a[2]))
                elif a[0] == "k":
                    m[a] = Lin.atom(("k", a[1] + "'" + str(next(I.counter))))
            s = st.clone()
            have = set(map(_lit_key, s.pc))
            for l in pc:
                l2 = (l[0], subst_deep(l[1], m)) if l[0] in ("le", "eq", "ne") else l
                if _lit_key(l2) not in have:
                    s.pc.append(l2)
            if not solver.feasible(s.pc):
                continue
            out.append((s, self._subst_val(v, m) if m else v))
        if not c.built:
            out.append((st, I.seq_elem(c, k)))
        return out

    # ------------------------------------------------------------------ for loops
    def for_loop(self, e, st):
        I = self.I
        outs = []
        arm = e["arms"][0]
        loop = _strip(arm["body"])
        if loop["k"] != "Loop":
            raise Exception("for-loop desugaring shape")
        m = loop["body"]
        while m["k"] != "Match":
            if m["k"] == "Block":
                b = m["b"]
                m = b["expr"] if b["expr"] else b["stmts"][0]["e"]
            elif m["k"] in ("Use", "NeverToAny"):
                m = m["src"]
            else:
                raise Exception("for-loop desugaring shape: " + m["k"])
        some_arm = [a for a in m["arms"] if a["pat"].get("variant") == "Some"][0]
        elem_pat = some_arm["pat"]["subs"][0]["p"]
        body = some_arm["body"]
        for s, kind, itv in I.ev(e["scrut"], st):
            if kind != "val":
                outs.append((s, kind, itv))
                continue
            ref = None
            if isinstance(itv, RefV):
                ref = itv
                itv = I.read_loc(s, ref.key, ref.path)
            if not isinstance(itv, IterV):
                I.unmodelled_at(e, f"for loop over {itv!r}")
                continue
            outs.extend(self._for_core(e, s, itv, ref, elem_pat, body, loop.get("label")))
        return outs

    def while_let_next(self, e):
        """`while let Some(p) = it.next() { body }` (loop { if let Some(p) = it.next() { body } else { break } }):
        (iterator place expression, element pattern, body) or None"""
        b = _strip(e["body"])
        while b["k"] == "Block" and not b["b"]["stmts"] and b["b"]["expr"]:
            b = _strip(b["b"]["expr"])
        if b["k"] != "If" or b["cond"]["k"] != "LetExpr" or not b.get("else"):
            return None
        c = b["cond"]
        call = _strip(c["e"])
        pat = c["pat"]
        if call["k"] != "Call" or call.get("fn") != "std::iter::Iterator::next" or len(call["args"]) != 1:
            return None
        if pat.get("k") != "Variant" or pat.get("variant") != "Some" or len(pat.get("subs") or []) != 1:
            return None
        # the else branch must be a bare `break` of this very loop
        x = _strip(b["else"])
        while x["k"] in ("Block", "NeverToAny"):
            if x["k"] == "NeverToAny":
                x = _strip(x["src"])
                continue
            st_, ex_ = x["b"]["stmts"], x["b"]["expr"]
            if len(st_) == 1 and ex_ is None:
                x = _strip(st_[0]["e"])
            elif not st_ and ex_ is not None:
                x = _strip(ex_)
            else:
                return None
        if x["k"] != "Break" or x.get("value") is not None or x.get("label") != e.get("label"):
            return None
        return call["args"][0], pat["subs"][0]["p"], b["then"]

    def counter_while(self, e):
        """`while i < E { body; i += 1 }` with i a local not otherwise assigned in the body, no `continue`, and E not
        depending on anything the body assigns: (var id, bound expr, body statements without the increment, body block)"""
        b = _strip(e["body"])
        while b["k"] == "Block" and not b["b"]["stmts"] and b["b"]["expr"]:
            b = _strip(b["b"]["expr"])
        if b["k"] != "If" or not b.get("else"):
            return None
        c = _strip(b["cond"])
        if c["k"] != "Binary" or c["op"] not in ("Lt", "Gt"):
            return None
        lhs, rhs = (_strip(c["lhs"]), c["rhs"]) if c["op"] == "Lt" else (_strip(c["rhs"]), c["lhs"])
        desc = False
        if lhs["k"] != "Var" and c["op"] == "Gt" and _strip(c["lhs"])["k"] == "Var":
            # `while v > E { body; v -= 1 }`: the same traversal counted downwards
            lhs, rhs, desc = _strip(c["lhs"]), c["rhs"], True
        if lhs["k"] != "Var":
            return None
        var = lhs["var"]
        # else branch: a bare break of this loop
        x = _strip(b["else"])
        while x["k"] in ("Block", "NeverToAny"):
            if x["k"] == "NeverToAny":
                x = _strip(x["src"])
                continue
            st_, ex_ = x["b"]["stmts"], x["b"]["expr"]
            if len(st_) == 1 and ex_ is None:
                x = _strip(st_[0]["e"])
            elif not st_ and ex_ is not None:
                x = _strip(ex_)
            else:
                return None
        if x["k"] != "Break" or x.get("value") is not None or x.get("label") != e.get("label"):
            return None
        then = _strip(b["then"])
        if then["k"] != "Block":
            return None
        stmts, tail = list(then["b"]["stmts"]), then["b"]["expr"]
        last = None
        if tail is not None:
            last, rest_stmts, rest_tail = _strip(tail), stmts, None
        elif stmts and stmts[-1].get("k") == "Expr":
            last, rest_stmts, rest_tail = _strip(stmts[-1]["e"]), stmts[:-1], None
        else:
            return None

        def is_incr(x):
            if desc:
                if x["k"] == "AssignOp" and x["op"] == "SubAssign":
                    l, r = _strip(x["lhs"]), _strip(x["rhs"])
                    return l["k"] == "Var" and l["var"] == var and r["k"] == "Lit" and r.get("kind") == "int" and int(r["v"]) == 1 and not r.get("neg")
                if x["k"] == "Assign":
                    l, r = _strip(x["lhs"]), _strip(x["rhs"])
                    if l["k"] == "Var" and l["var"] == var and r["k"] == "Binary" and r["op"] == "Sub":
                        a, b2 = _strip(r["lhs"]), _strip(r["rhs"])
                        return a["k"] == "Var" and a["var"] == var and b2["k"] == "Lit" and b2.get("kind") == "int" and int(b2["v"]) == 1
                return False
            if x["k"] == "AssignOp" and x["op"] == "AddAssign":
                l, r = _strip(x["lhs"]), _strip(x["rhs"])
                return l["k"] == "Var" and l["var"] == var and r["k"] == "Lit" and r.get("kind") == "int" and int(r["v"]) == 1 and not r.get("neg")
            if x["k"] == "Assign":
                l, r = _strip(x["lhs"]), _strip(x["rhs"])
                if l["k"] == "Var" and l["var"] == var and r["k"] == "Binary" and r["op"] == "Add":
                    a, b2 = _strip(r["lhs"]), _strip(r["rhs"])
                    return a["k"] == "Var" and a["var"] == var and b2["k"] == "Lit" and b2.get("kind") == "int" and int(b2["v"]) == 1
            return False

        if not is_incr(last):
            return None
        body = dict(then)
        body["b"] = dict(then["b"])
        body["b"]["stmts"] = rest_stmts
        body["b"]["expr"] = rest_tail
        # the body must not touch the counter, nor anything the bound depends on, nor `continue` this loop
        assigned, consts = set(), set()
        self._roots(body, assigned, consts)
        used = set()

        def vars_of(x):
            if isinstance(x, dict):
                if x.get("k") in ("Var", "Upvar"):
                    used.add(x["var"])
                for v in x.values():
                    if isinstance(v, (dict, list)):
                        vars_of(v)
            elif isinstance(x, list):
                for v in x:
                    vars_of(v)

        vars_of(rhs)
        if var in assigned or (used & assigned) or var in used:
            return None
        bad = []

        def scan(x):
            if isinstance(x, dict):
                if x.get("k") == "Continue" and x.get("label") == e.get("label"):
                    bad.append(x)
                if x.get("k") == "Closure":
                    return
                for v in x.values():
                    if isinstance(v, (dict, list)):
                        scan(v)
            elif isinstance(x, list):
                for v in x:
                    scan(v)

        scan(body)
        if bad:
            return None
        return (var, rhs, body, True) if desc else (var, rhs, body)

    def counter_while_loop(self, e, st):
        """a counting `while` loop as a traversal of the range [i0, E): outcomes, or None when the shape does not apply"""
        I = self.I
        m = self.counter_while(e)
        if m is None:
            return None
        desc = len(m) == 4
        var, bound, body = m[:3]
        key = (st.frame, var)
        cur = st.env.get(key)
        if not isinstance(cur, IntV):
            return None
        I.quiet += 1
        try:
            probe = I.ev(bound, st.clone())
        finally:
            I.quiet -= 1
        if len(probe) != 1 or probe[0][1] != "val" or not isinstance(probe[0][2], IntV):
            return None
        outs = []
        for s, kind, bv in I.ev(bound, st):
            if kind != "val" or not isinstance(bv, IntV):
                outs.append((s, kind, bv))
                continue
            i0, E, ty = cur.l, bv.l, cur.ty
            if desc:
                # v takes the values i0, i0 - 1, ..., E + 1 and is E afterwards
                for s1 in I.assume(s, flit(le(i0, E))):
                    outs.append((s1, "val", UNIT))
                for s1 in I.assume(s, flit(gt(i0, E))):
                    itv = IterV(("rev", ("range", E + 1, i0 + 1, ty), lin(0)))

                    def at_exit_d(sx, key=key, E=E, ty=ty):
                        sx.env[key] = IntV(E, ty)

                    outs.extend(self._for_core(e, s1, itv, None, None, body, e.get("label"), bind_var=key, at_exit=at_exit_d))
                continue
            for s1 in I.assume(s, flit(le(E, i0))):
                outs.append((s1, "val", UNIT))            # the guard fails at once: nothing happens
            for s1 in I.assume(s, flit(gt(E, i0))):
                itv = IterV(("range", i0, E, ty))

                def at_exit(sx, key=key, E=E, ty=ty):
                    sx.env[key] = IntV(E, ty)

                outs.extend(self._for_core(e, s1, itv, None, None, body, e.get("label"), bind_var=key, at_exit=at_exit))
        return outs

    def while_let_loop(self, e, st):
        """outcomes when the loop is a traversal of a std sequence through an explicit `next()`, else None"""
        I = self.I
        m = self.while_let_next(e)
        if m is None:
            return None
        arg, elem_pat, body = m
        I.quiet += 1
        try:
            probe = I.ev(arg, st.clone())
        finally:
            I.quiet -= 1
        if len(probe) != 1 or probe[0][1] != "val" or not isinstance(probe[0][2], RefV):
            return None
        ref = probe[0][2]
        itv = I.read_loc(probe[0][0], ref.key, ref.path)
        if not isinstance(itv, IterV) or itv.seq[0] == "custom" or self.count_of(st, itv.seq) is None:
            return None
        outs = []
        for s, kind, r in I.ev(arg, st):
            if kind != "val":
                outs.append((s, kind, r))
                continue
            outs.extend(self._for_core(e, s, itv, r, elem_pat, body, e.get("label")))
        return outs

    def _for_core(self, e, s, itv, ref, elem_pat, body, label_, bind_var=None, at_exit=None, elem_ty=None, forced_N=None):
        I = self.I
        outs = []
        N = self.count_of(s, itv.seq)
        if N is None:
            I.unmodelled_at(e, f"for loop over sequence without count {itv.seq!r}")
            return outs
        N = N - itv.pos
        if forced_N is not None:
            N = lin(forced_N) if forced_N >= 0 else N
        elif not N.is_const() and itv.seq[0] != "custom" and solver.entails_lit(s.pc, le(N, UNROLL_MAX)):
            # a traversal of provably at most UNROLL_MAX elements whose summary would leave carried values havocked (a
            # bit mask built one shift at a time) is executed exactly, once per possible element count
            from .interp import Unmodelled
            I.quiet += 1
            self.last_report = None
            try:
                self._for_core(e, s.clone(), itv, ref, elem_pat, body, label_, bind_var, at_exit, elem_ty, forced_N=-1)
            except Unmodelled:
                pass
            finally:
                I.quiet -= 1
            rp = self.last_report
            if rp is not None and rp.carried:
                for c in range(0, UNROLL_MAX + 1):
                    for sc in I.assume(s, flit(eq(N, c))):
                        outs.extend(self._for_core(e, sc, itv, ref, elem_pat, body, label_, bind_var, at_exit, elem_ty, forced_N=c))
                return outs
        if solver.entails_lit(s.pc, le(N, 0)):
            # no element: the body is not executed
            if at_exit is not None:
                at_exit(s)
            outs.append((s, "val", UNIT))
            return outs
        seq = itv.seq
        pos0 = itv.pos
        if N.is_const() and 0 < N.c <= UNROLL_MAX and seq[0] != "custom":
            # a traversal with a small constant number of elements is executed element by element: this is exact
            # (no summarisation is involved), e.g. assembling a big-endian value from the 2 or 4 bytes of a fixed slice
            states = [s]
            for k in range(N.c):
                nxt = []
                for st_ in states:
                    for s1, u_, v in self._elem_with_base(st_, seq, pos0 + k, e):
                        s1 = s1 if s1 is not st_ else st_.clone()
                        if ref is not None:
                            I.write_loc(s1, ref.key, ref.path, IterV(seq, pos0 + k + 1))
                        if bind_var is not None:
                            s1.env[bind_var] = v
                        else:
                            I.bind(s1, elem_pat, v)
                        for s2, kind, val in I.ev(body, s1):
                            if kind == "val" or (kind == "cont" and val[0] == label_):
                                nxt.append(s2)
                            elif kind == "brk" and val[0] == label_:
                                outs.append((s2, "val", val[1]))
                            else:
                                outs.append((s2, kind, val))
                states = nxt
                if len(states) > 256:
                    states = None
                    break
            if states is not None:
                for st_ in states:
                    if at_exit is not None:
                        at_exit(st_)
                    outs.append((st_, "val", UNIT))
                return outs
            outs = []
        kname = I.fresh("k")
        katom = ("k", kname)
        K = Lin.atom(katom)

        def bind(s0, seq=seq, K=K, pos0=pos0, ref=ref, kname=kname):
            res = []
            for s1, u_, v in self._elem_with_base(s0, seq, pos0 + K, e):
                s1 = s1 if s1 is not s0 else s0.clone()
                if ref is not None:
                    # `for x in it.by_ref()`: inside the body the underlying iterator has consumed element k
                    I.write_loc(s1, ref.key, ref.path, IterV(seq, pos0 + K + 1))
                if bind_var is not None:
                    if isinstance(v, Opaque) and isinstance(elem_ty, int):
                        v = I.symbolic(elem_ty, (), (self.seq_key(seq), (pos0 + K).key()))
                    s1.env[bind_var] = v          # a counter variable / the element of an analyser-bodied traversal
                else:
                    if isinstance(v, Opaque) and isinstance(elem_pat.get("t"), int):
                        # an abstract sequence (custom iterator): its k-th item is a symbolic value of the item type
                        v = I.symbolic(elem_pat["t"], (), (self.seq_key(seq), (pos0 + K).key()))
                    I.bind(s1, elem_pat, v)
                s1.env[("ghost-elem", kname)] = u_       # the element of the underlying sequence (before map adaptors)
                for a_, i0_, tinfo_, _ in ctx.get("tile_accs", ()):
                    sl_ = self._first_slice(u_)
                    if sl_ is not None:
                        s1.pc.append(le(Lin.atom(a_) - i0_ + sl_.length(), Lin.atom(("len", tinfo_[0]))))
                res.extend(self.instantiate_forall(s1, seq, pos0 + K))
            return res

        ctx = {"k": katom, "N": N, "bind": bind, "body": body, "label": label_, "seq": seq, "ref": ref, "pos0": pos0, "at_exit": at_exit}
        fake = {"k": "Loop", "label": label_, "body": body, "sp": e["sp"], "t": e["t"]}
        outs.extend(self.loop(fake, s, for_ctx=ctx))
        return outs

    def instantiate_forall(self, s, seq, idx):
        """facts recorded by an earlier complete traversal of the same sequence (forall k. C1(e_k) | C2(e_k) ...)
        instantiated at element idx; alternatives partition the state"""
        sk = self.seq_ident(seq)
        states = [s]
        for l in list(s.pc):
            if l[0] != "forall" or l[1] != sk:
                continue
            m = {l[2]: idx}
            nxt = []
            for st in states:
                for conj in l[3]:
                    inst = [_subst_lit(x, m) for x in conj]
                    have = set(map(_lit_key, st.pc))
                    s1 = st.clone()
                    for x in inst:
                        if _lit_key(x) not in have:
                            s1.pc.append(x)
                    if solver.unsat([x for x in s1.pc if x[0] == "b"]):
                        continue
                    if solver.feasible(s1.pc):
                        nxt.append(s1)
            states = nxt
        return states

    def _for_exit(self, pre, base, backs, keys, closed, invs, int_syms, ctx, n_mem, e):
        """state after the iterator is exhausted"""
        I = self.I
        katom, N = ctx["k"], ctx["N"]
        s = pre.clone()
        mN = {katom: N}
        # carried variables: closed forms at k = N, others stay havocked with their invariants
        for key in keys:
            s.env[key] = self._subst_val(base.env[key], mN)
        s.exist = base.exist
        for c in invs:
            s.pc.append(c)
        s.pc.append(le(0, N))
        if ctx.get("at_exit") is not None:
            ctx["at_exit"](s)
        for a_, i0_, tinfo_, exact_ in ctx.get("tile_accs", ()):
            s.pc.append(le(Lin.atom(a_) - i0_, Lin.atom(("len", tinfo_[0]))))
            if exact_:
                s.pc.append(eq(Lin.atom(a_) - i0_, tinfo_[2] - tinfo_[1]))
        have = set(map(_lit_key, s.pc))
        for c in ctx.get("exit_facts") or []:
            if _lit_key(c) not in have:
                have.add(_lit_key(c))
                s.pc.append(c)
        # an exhausted by_ref iterator
        if ctx.get("ref") is not None:
            r = ctx["ref"]
            I.write_loc(s, r.key, r.path, IterV(ctx["seq"], ctx["pos0"] + N))
        # quantified facts and effects of the iterations
        if backs:
            from .interp import Write
            conds = []
            for sb in backs:
                new = [l for l in sb.pc[len(base.pc):] if l[0] in ("le", "eq", "ne") and self._mentions_elem_only(l, katom, int_syms)]
                # facts about a sequence that belongs to element k (nested traversal)
                new += [l for l in sb.pc[len(base.pc):] if l[0] == "forall" and katom in _seq_atoms(l[1])]
                new += [l for l in sb.pc[len(base.pc):] if l[0] == "b" and isinstance(l[1], tuple) and katom in _seq_atoms(l[1])]
                conds.append(new)
            if conds and all(conds):
                s.pc.append(("forall", self.seq_ident(ctx["seq"]), katom, conds))
                if ctx["seq"][0] == "range" and ctx["seq"][1].is_const() and ctx["seq"][1].c == 0:
                    # a counting loop from 0 that visits element k of a collection in iteration k, for every element:
                    # the same facts hold of that collection's elements (later traversals of it instantiate them)
                    for sq in self._indexed_collections(conds, katom):
                        if solver.entails_lit(s.pc, eq(N, Lin.atom(("cnt", sq)))):
                            s.pc.append(("forall", ("coll", ("c", sq)), katom, conds))
            # writes: generalise each body write over k
            per_back = []
            for sb in backs:
                ws = {}
                for b, wl in sb.mem.items():
                    ws[b] = wl[n_mem.get(b, 0):]
                per_back.append((sb, ws))
            # identical effects on several paths (paths that only differ in facts) collapse to one
            def wkey(ws):
                return repr(sorted((repr(b), [repr(w) for w in wl]) for b, wl in ws.items() if wl))

            groups = {}
            for sb, ws in per_back:
                groups.setdefault(wkey(ws), []).append((sb, ws))
            bases = set()
            for _, ws in per_back:
                bases |= set(b for b, wl in ws.items() if wl)
            simple = len(groups) == 1 and not ctx.get("ps_forms") and \
                all(w.q is None and w.kind != "loop" for _, ws in per_back for wl in ws.values() for w in wl)
            if simple:
                sb, ws = per_back[0]
                for b, wl in ws.items():
                    for w in wl:
                        # the same constant byte(s) written at A + k*w for k in [0, N): the fill of [A, A + N*w)
                        width = w.end - w.start
                        vals = w.payload if w.kind == "bytes" else ([w.payload] if w.kind == "fill" else None)
                        if vals and width.is_const() and width.c > 0 and all(isinstance(x, IntV) and x.l.is_const() and x.l.c == vals[0].l.c for x in vals):
                            A = subst_deep(w.start, {katom: lin(0)})
                            if w.start - A == Lin.atom(katom, width.c):
                                I.write(s, b, Write(A, A + N.scale(width.c), "fill", vals[0], span=w.span, fn=w.fn))
                                continue
                        I.write(s, b, Write(w.start, w.end, w.kind, w.payload, q=(katom, N), span=w.span, fn=w.fn))
            else:
                # a structured node: for every k in [0,N), on the path whose condition holds of element k, these writes
                for b in bases:
                    paths = []
                    for key, members in groups.items():
                        sb, ws = members[0]
                        if len(groups) == 1:
                            cond = []
                        else:
                            cond = [l for l in sb.pc[len(base.pc):] if l[0] in ("le", "eq", "ne", "b")]
                        paths.append((cond, list(ws.get(b, ())), list(sb.pc)))
                    I.write(s, b, Write(lin(0), lin(0), "loop", paths, q=(katom, N), span=I.span(e), fn=I.stack[-1] if I.stack else None))
            # pushes
            for sb in backs:
                for seqk, recs in sb.colls.items():
                    old = len(pre.colls.get(seqk, ()))
                    have = s.colls.get(seqk, ())
                    for r in recs[old:]:
                        if r not in have:
                            have = have + (r,)
                    s.colls[seqk] = have
        if not solver.feasible(s.pc):
            return []
        return [(s, "val", UNIT)]

    def _indexed_collections(self, conds, katom):
        """names of the collections whose element number `katom` the literals talk about (and no other element)"""
        kk = Lin.atom(katom).key()
        seqs, other = set(), []

        def rec(x):
            if isinstance(x, tuple):
                if len(x) >= 4 and x[0] == "elem" and isinstance(x[1], str):
                    (seqs if x[2] == kk else other).append(x[1]) if False else (seqs.add(x[1]) if x[2] == kk else other.append(x[1]))
                for y in x:
                    rec(y)
            elif isinstance(x, Lin):
                rec(x.key())
            elif isinstance(x, list):
                for y in x:
                    rec(y)

        rec(conds)
        return [q for q in seqs if q not in other]

    def _mentions_elem_only(self, l, katom, int_syms):
        ats = atoms_deep(l[1])
        hav = {a for a, _ in int_syms}
        if ats & hav:
            return False
        if any(a[0] == "ps" for a in ats):
            return False
        if katom in ats and not any(a[0] == "sym" and "@" in a[1] for a in ats):
            return True     # a fact about position k itself (e.g. "k is the last index") on this path
        return any(a[0] in ("elem", "byte") or (a[0] == "len" and isinstance(a[1], tuple)) for a in ats)

    def _elem_lit(self, l, katom):
        """a literal about the k-th element (not merely about the index range)"""
        ats = atoms_deep(l[1])
        if katom not in ats:
            return False
        return any(a[0] in ("elem", "byte", "ps") or (a[0] in ("len", "cnt") and isinstance(a[1], tuple)) for a in ats)

    def _try_prefix_sum(self, a, init, backs, current, sym_name, ctx, base):
        """stride depends on the element only: carried = init + PS(seq, F, k)"""
        hav = None
        cases = []
        katom = ctx["k"]
        import os
        dbg = os.environ.get("RTCP_DEBUG_PS")
        for sb in backs:
            nv = current(sb).get(sym_name(a))
            if dbg:
                print("PS?", a, "->", nv, file=__import__("sys").stderr)
            if not isinstance(nv, IntV):
                return None
            delta = nv.l - Lin.atom(a)
            ats = atoms_deep(delta)
            for x in ats:
                if x[0] == "sym" and "@" in x[1]:
                    return None
            cond = [l for l in sb.pc[len(base.pc):] if l[0] in ("le", "eq", "ne") and self._elem_lit(l, katom)]
            cases.append((cond, delta))
        ph = {katom: Lin.atom(("k", "*"))}
        canon = []
        for cond, delta in cases:
            cs = sorted(repr((l[0], subst_deep(l[1], ph).key())) for l in cond if katom in atoms_deep(l[1]))
            canon.append((tuple(cs), repr(subst_deep(delta, ph).key())))
        # identical deltas on every path: the conditions do not matter
        if len({c[1] for c in canon}) == 1:
            canon = [((), canon[0][1])]
            cases = [([], cases[0][1])]
        import hashlib
        fid = "F" + hashlib.sha1(repr(tuple(sorted(canon))).encode()).hexdigest()[:8]
        # the same function of the element as an earlier traversal of this sequence?  (pointwise equality,
        # decided on the back-edge states, which carry the element facts)
        seqk0 = self.seq_ident(ctx["seq"])
        if ctx["seq"][0] == "range" and ctx["seq"][1].is_const() and ctx["seq"][1].c == 0:
            # a counting loop from 0 over all elements of one collection: the sum is a prefix sum over that collection
            sqs = self._indexed_collections([[("eq", d)] for _, d in cases] + [c for c, _ in cases], katom)
            if len(sqs) == 1 and solver.entails_lit(base.pc, eq(ctx["N"], Lin.atom(("cnt", sqs[0])))):
                seqk0 = ("coll", ("c", sqs[0]))
        for ofid, of in self.psfuns.items():
            if ofid == fid:
                continue
            # same sequence, possibly of a different element of an enclosing traversal (index atoms renamed)
            ko, kn = _k_order(of["seq"]), _k_order(seqk0)
            if len(ko) != len(kn):
                continue
            ren = {a: Lin.atom(b) for a, b in zip(ko, kn)}
            from .lin import _subst_seq
            if (_subst_seq(of["seq"], ren) if ren else of["seq"]) != seqk0:
                continue
            m = dict(ren)
            m[of["k"]] = Lin.atom(katom)
            same = True
            for sb in backs:
                nv = current(sb).get(sym_name(a))
                delta = nv.l - Lin.atom(a)
                for ocond, odelta in of["cases"]:
                    oc = [(l[0], subst_deep(l[1], m)) for l in ocond]
                    if not solver.feasible(sb.pc, oc):
                        continue
                    if not solver.entails(sb.pc + oc, flit(eq(delta, subst_deep(odelta, m)))):
                        same = False
                        break
                if not same:
                    break
            if same:
                fid = ofid
                cases = [([(l[0], subst_deep(l[1], m)) for l in oc_], subst_deep(od_, m)) for oc_, od_ in of["cases"]]
                break
        if fid not in self.psfuns:
            self.psfuns[fid] = {"k": katom, "cases": cases, "seq": seqk0}
        seqk = seqk0

        def form(K):
            if K.is_const() and K.c == 0:
                return lin(0)
            return Lin.atom(("ps", seqk, fid, K.key()))

        form.cases = cases
        form.fid = fid
        form.seqk = seqk
        return (init.l, form)

    # ------------------------------------------------------------------ explicit next / fold / drain
    def iter_next(self, e, st, it):
        I = self.I
        ref = None
        if isinstance(it, RefV):
            ref = it
            it = I.read_loc(st, ref.key, ref.path)
        if isinstance(it, StructV):
            # a crate-local iterator: call its own next
            tgt = None
            for im in I.F.impls:
                if im["trait"] == "std::iter::Iterator" and I.F.ty_key(im["self"]) == it.adt:
                    for x in im["items"]:
                        if x["name"] == "next":
                            tgt = x["def"]
            if tgt:
                return I.inline(tgt, None, st, [ref if ref is not None else it])
            return None
        if not isinstance(it, IterV):
            return None
        N = self.count_of(st, it.seq)
        if N is None:
            return None
        out = []
        for s in I.assume(st, flit(lt(it.pos, N))):
            for s2, v in self.elem_of(s, it.seq, it.pos, e):
                if ref is not None:
                    I.write_loc(s2, ref.key, ref.path, IterV(it.seq, it.pos + 1))
                out.append((s2, "val", some(v)))
        for s in I.assume(st, flit(ge(it.pos, N))):
            out.append((s, "val", NONE))
        return out

    def drain(self, st, it, e):
        """obligations of producing an arbitrary element of the iterator (results discarded)"""
        I = self.I
        if not isinstance(it, IterV):
            return []
        N = self.count_of(st, it.seq)
        if N is None:
            I.unmodelled_at(e, f"drain {it.seq!r}")
            return []
        K = Lin.atom(("k", I.fresh("k")))
        s = st.clone()
        s.pc.append(le(0, K))
        s.pc.append(lt(K, N))
        if not solver.feasible(s.pc):
            return []
        return self.elem_of(s, it.seq, it.pos + K, e)

    def py_for(self, e, st, it, init, step, elem_ty=None, closures=()):
        """A traversal whose body is given by the analyser instead of by source code (fold, sum, try_fold ...):
        `step(state, acc, elem)` returns outcomes (state, "val", new acc) or (state, "out", final value).  It goes through
        the ordinary for-loop machinery (closed forms, prefix sums, quantified facts, early exits, tiling).
        Returns [(state, acc after the last element or the early-out value, exhausted?)] or None."""
        I = self.I
        if isinstance(it, RefV):
            it = I.read_loc(st, it.key, it.path)
        if isinstance(it, StructV):
            it = IterV(("custom", it))
        if not isinstance(it, IterV) or self.count_of(st, it.seq) is None:
            return None
        n = next(I.counter)
        acc_key, elem_key = (st.frame, f"__acc{n}"), (st.frame, f"__elem{n}")
        label = f"pyfor{n}"
        st = st.clone()
        st.env[acc_key] = init

        def fn(s):
            outs = []
            for s2, kind, v in step(s, s.env[acc_key], s.env.get(elem_key)):
                if kind == "val":
                    s2.env[acc_key] = v
                    outs.append((s2, "val", UNIT))
                elif kind == "out":
                    outs.append((s2, "brk", (label, StructV("<pyfor>", "Out", {"0": v}))))
                else:
                    outs.append((s2, kind, v))
            return outs

        # bodies of the closures the step calls: their assignments to captured variables are carried state of the loop
        cbodies = [I.F.bodies[c.fn]["body"] for c in closures if isinstance(c, FnV) and c.fn in I.F.bodies]
        body = {"k": "PyBody", "t": e.get("t"), "sp": e.get("sp"), "fn": fn, "closures": cbodies,
                "scan": {"k": "Assign", "lhs": {"k": "Var", "var": acc_key[1], "name": "acc"}, "rhs": {"k": "Lit", "kind": "int", "v": "0", "neg": False}}}
        res = []
        for s, kind, v in self._for_core(e, st, it, None, None, body, label, bind_var=elem_key, elem_ty=elem_ty):
            if kind != "val":
                res.append((s, kind, v, None))
                continue
            if isinstance(v, StructV) and v.adt == "<pyfor>":
                res.append((s, "val", v.fields["0"], False))
            else:
                res.append((s, "val", s.env.get(acc_key), True))
            s.env.pop(acc_key, None)
            s.env.pop(elem_key, None)
        return res

    def _elem_with_base(self, st, seq, k, e):
        """(state, element of the underlying sequence, element after the map/copied adaptors)"""
        if seq[0] == "copied":
            return self._elem_with_base(st, seq[1], k, e)
        if seq[0] == "map":
            out = []
            for s, u, v in self._elem_with_base(st, seq[1], k, e):
                for s2, kd, r in self.I.apply_fn(s, seq[2], [v], e or {}):
                    if kd == "val":
                        out.append((s2, u, r))
            return out
        return [(s, v, v) for s, v in self.elem_of(st, seq, k, e)]

    def fold(self, e, st, it, init, f):
        """Iterator::fold: summarised like a for loop with one carried accumulator"""
        I = self.I
        if isinstance(it, RefV):
            it = I.read_loc(st, it.key, it.path)
        if not isinstance(it, IterV):
            return None
        N = self.count_of(st, it.seq)
        if N is None:
            return None
        # accumulator havocked; the closure's obligations are checked for an arbitrary element
        K = Lin.atom(("k", I.fresh("k")))
        s = st.clone()
        s.pc.append(le(0, K))
        s.pc.append(lt(K, N))
        acc = init
        if isinstance(init, IntV):
            acc = IntV(Lin.atom(("sym", I.fresh("acc") + "@fold", init.ty)), init.ty)
        # sum over elements that are disjoint views of one buffer: partial sums of (at most) their
        # lengths are bounded by the buffer's length
        tile_base = None
        bseq = it.seq
        while bseq[0] in ("map", "copied"):
            bseq = bseq[1]
        if bseq[0] == "coll" and isinstance(init, IntV) and init.l.is_const() and init.l.c == 0 and it.pos.is_const() and it.pos.c == 0:
            tile_info = st.tiles.get(bseq[1].seq)
            tile_base = tile_info[0] if tile_info else None
        bounded = tile_base is not None
        exact = bool(bounded and tile_info[3])
        for s1, u, v in self._elem_with_base(s, it.seq, it.pos + K, e):
            sl = self._first_slice(u) if bounded else None
            if bounded and sl is None:
                bounded = False
            if bounded:
                # ghost: the partial sum before this element plus this element's extent fits the buffer
                s1.pc.append(le(acc.l + sl.length(), Lin.atom(("len", tile_base))))
            for s2, kd, r in I.apply_fn(s1, f, [acc, v], e):
                if bounded and kd == "val":
                    if not (isinstance(r, IntV) and solver.entails(s2.pc, f_and(flit(le(r.l - acc.l, sl.length())), flit(ge(r.l, acc.l))))):
                        bounded = False
                    if exact and not (isinstance(r, IntV) and solver.entails(s2.pc, flit(eq(r.l - acc.l, sl.length())))):
                        exact = False
        res = init
        if isinstance(init, IntV):
            res = IntV(Lin.atom(("sym", I.fresh("fold"), init.ty)), init.ty)
            if bounded:
                out = st.clone()
                out.pc.append(le(res.l, Lin.atom(("len", tile_base))))
                if exact:
                    # every element contributes exactly its own extent and the elements tile [lo, hi): the sum is hi - lo
                    out.pc.append(eq(res.l, tile_info[2] - tile_info[1]))
                return [(out, "val", res)]
        return [(st, "val", res)]


def _k_order(seq):
    """index atoms ('k', name) in order of first appearance inside a (nested) sequence key"""
    out = []

    def rec(x):
        if isinstance(x, tuple):
            if len(x) == 2 and x[0] == "k" and isinstance(x[1], str):
                if x not in out:
                    out.append(x)
                return
            for y in x:
                rec(y)

    rec(seq)
    return out


def _seq_atoms(seq):
    """atoms occurring in the Lin keys nested in a sequence key"""
    from .lin import _seq_lins
    out = set()
    for k in _seq_lins(seq):
        atoms_deep(Lin.from_key(k), out)
    return out


def _subst_lit(x, m):
    from .lin import _subst_seq
    if x[0] in ("le", "eq", "ne"):
        return (x[0], subst_deep(x[1], m))
    if x[0] == "b" and isinstance(x[1], tuple):
        return ("b", _subst_seq(x[1], m), x[2])
    if x[0] == "forall":
        return ("forall", _subst_seq(x[1], m), x[2], [[_subst_lit(y, m) for y in conj] for conj in x[3]])
    return x


def _lit_key(l):
    if l[0] in ("le", "eq", "ne"):
        return (l[0], l[1].key())
    return repr(l)
