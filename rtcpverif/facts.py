"""Fact extraction: run the rustc_private driver on /repo's working tree and load the JSON dump.

The dump is cached by a hash of the crate's manifest and sources so that the twenty checks on one
tree extract once.  Every (re)extraction runs `cargo +nightly check` in a way that forces rustc to
recompile the crate (fingerprints deleted) and asserts that the dump carries this run's nonce.
"""
import fcntl
import hashlib
import json
import os
import shutil
import subprocess
import sys
import time

VERIF = os.path.dirname(os.path.dirname(os.path.abspath(__file__)))
REPO = os.environ.get("RTCP_REPO", "/repo")
CACHE = os.path.join(VERIF, ".cache")
DRIVER_DIR = os.path.join(VERIF, "driver")
DRIVER_BIN = os.path.join(DRIVER_DIR, "target", "release", "rtcp-facts")


class FactsError(Exception):
    pass


def _files(repo):
    out = []
    for f in ("Cargo.toml", "Cargo.lock"):
        p = os.path.join(repo, f)
        if os.path.exists(p):
            out.append(p)
    for root, dirs, files in os.walk(os.path.join(repo, "src")):
        dirs.sort()
        for f in sorted(files):
            if f.endswith(".rs"):
                out.append(os.path.join(root, f))
    return sorted(out)


def tree_hash(repo=REPO):
    h = hashlib.sha256()
    for p in _files(repo):
        h.update(os.path.relpath(p, repo).encode())
        h.update(b"\0")
        with open(p, "rb") as fh:
            h.update(fh.read())
        h.update(b"\0")
    with open(os.path.join(DRIVER_DIR, "src", "main.rs"), "rb") as fh:
        h.update(fh.read())
    return h.hexdigest()[:20]


def code_hash():
    """hash of the analyser itself (summaries cache key)"""
    h = hashlib.sha256()
    for root, dirs, files in os.walk(os.path.join(VERIF, "rtcpverif")):
        dirs.sort()
        for f in sorted(files):
            if f.endswith(".py"):
                with open(os.path.join(root, f), "rb") as fh:
                    h.update(fh.read())
    for root, dirs, files in os.walk(os.path.join(VERIF, "spec")):
        dirs.sort()
        for f in sorted(files):
            if f.endswith(".py"):
                with open(os.path.join(root, f), "rb") as fh:
                    h.update(fh.read())
    return h.hexdigest()[:16]


def _env_offline():
    env = dict(os.environ)
    env["CARGO_NET_OFFLINE"] = "true"
    return env


def build_driver():
    src = os.path.join(DRIVER_DIR, "src", "main.rs")
    if os.path.exists(DRIVER_BIN) and os.path.getmtime(DRIVER_BIN) >= os.path.getmtime(src):
        return
    r = subprocess.run(
        ["cargo", "+nightly", "build", "--release", "--offline"],
        cwd=DRIVER_DIR, env=_env_offline(), capture_output=True, text=True)
    if r.returncode != 0:
        raise FactsError("driver build failed:\n" + r.stderr[-4000:])


def _sysroot():
    return subprocess.run(["rustc", "+nightly", "--print", "sysroot"], capture_output=True, text=True,
                          check=True).stdout.strip()


def extract(repo=REPO, crate="rtcp_types", extra_args=("--lib",), tag=None):
    """returns the path of the fact file for repo's current working tree"""
    os.makedirs(os.path.join(CACHE, "facts"), exist_ok=True)
    h = tree_hash(repo) if tag is None else tag
    out = os.path.join(CACHE, "facts", f"{crate}.{h}.json")
    lock = open(os.path.join(CACHE, "extract.lock"), "w")
    fcntl.flock(lock, fcntl.LOCK_EX)
    try:
        if os.path.exists(out):
            return out
        build_driver()
        tgt = os.path.join(CACHE, "target")
        os.makedirs(tgt, exist_ok=True)
        # force recompilation of the crate itself; dependencies stay cached
        fp = os.path.join(tgt, "debug", ".fingerprint")
        if os.path.isdir(fp):
            for d in os.listdir(fp):
                if d.startswith("rtcp-types-") or d.startswith("rtcp_types-") or d.startswith("witness"):
                    shutil.rmtree(os.path.join(fp, d), ignore_errors=True)
        tmp = os.path.join(CACHE, "facts", f"tmp.{os.getpid()}")
        shutil.rmtree(tmp, ignore_errors=True)
        os.makedirs(tmp)
        nonce = f"{os.getpid()}-{time.time_ns()}"
        env = _env_offline()
        env.update({
            "LD_LIBRARY_PATH": os.path.join(_sysroot(), "lib") + ":" + env.get("LD_LIBRARY_PATH", ""),
            "RTCP_FACTS_OUT": tmp,
            "RTCP_FACTS_CRATE": crate,
            "RTCP_FACTS_NONCE": nonce,
            "RUSTFLAGS": "-Zmir-opt-level=0 -Awarnings",
            "RUSTC_WORKSPACE_WRAPPER": DRIVER_BIN,
            "CARGO_TARGET_DIR": tgt,
        })
        r = subprocess.run(["cargo", "+nightly", "check", "--offline", *extra_args], cwd=repo, env=env,
                           capture_output=True, text=True)
        produced = os.path.join(tmp, f"{crate}.facts.json")
        if r.returncode != 0 or not os.path.exists(produced):
            shutil.rmtree(tmp, ignore_errors=True)
            raise FactsError("fact extraction failed (does the tree compile?):\n" + r.stderr[-6000:])
        with open(produced) as fh:
            d = json.load(fh)
        if d.get("nonce") != nonce:
            raise FactsError("stale fact file: nonce mismatch")
        os.replace(produced, out)
        shutil.rmtree(tmp, ignore_errors=True)
        # keep the cache small: drop fact files other than the 40 most recent (about 2 MB each)
        fdir = os.path.join(CACHE, "facts")
        olds = sorted((f for f in os.listdir(fdir) if f.endswith(".json")),
                      key=lambda f: os.path.getmtime(os.path.join(fdir, f)))
        for f in olds[:-40]:
            os.remove(os.path.join(fdir, f))
        return out
    finally:
        fcntl.flock(lock, fcntl.LOCK_UN)
        lock.close()


class Facts:
    def __init__(self, path):
        with open(path) as fh:
            d = json.load(fh)
        self.path = path
        self.raw = d
        self.crate = d["crate"]
        self.files = d["files"]
        self.types = d["types"]
        self.bodies = {}
        for b in d["bodies"]:
            if b["def"] in self.bodies:
                raise FactsError("duplicate body key " + b["def"])
            self.bodies[b["def"]] = b
        if len(self.bodies) != d["n_body_owners"]:
            raise FactsError(f"coverage: {len(self.bodies)} bodies dumped, compiler has {d['n_body_owners']} owners")
        self.mir = {m["def"]: m for m in d["mir"]}
        self.adts = {a["def"]: a for a in d["adts"]}
        self.fns = {f["def"]: f for f in d["fns"]}
        self.impls = d["impls"]
        self.traits = {t["def"]: t for t in d["traits"]}
        # (trait, self adt) -> impl
        self.impl_ix = {}
        for im in self.impls:
            if im["trait"]:
                st = self.types[im["self"]]
                self.impl_ix.setdefault((im["trait"], self.ty_key(im["self"])), []).append(im)
        self.closure_parent = {}
        for k, b in self.bodies.items():
            if b["kind"] == "Closure":
                self.closure_parent[k] = b["parent"]

    # ---- types
    def ty(self, i):
        return self.types[i]

    def ty_str(self, i):
        return self.types[i]["s"]

    def ty_key(self, i):
        """a lifetime-free key for impl lookup: adt def path, or the display string"""
        t = self.types[i]
        if t["k"] == "adt":
            return t["def"]
        if t["k"] == "ref":
            return "&" + self.ty_key(t["inner"])
        return t["s"]

    def strip_ref(self, i):
        t = self.types[i]
        while t["k"] == "ref":
            i = t["inner"]
            t = self.types[i]
        return i

    def int_ty(self, i):
        t = self.types[i]
        return t["s"] if t["k"] == "int" else None

    def span_str(self, sp):
        return f"{self.files[sp[0]]}:{sp[1]}:{sp[2] + 1}"

    def span_file_line(self, sp):
        return self.files[sp[0]], sp[1]

    def find_impl_item(self, trait, self_ty_index, name):
        """def path of `name` in the impl of `trait` for the type, or the trait's default"""
        key = self.ty_key(self_ty_index)
        for im in self.impl_ix.get((trait, key), []):
            for it in im["items"]:
                if it["name"] == name:
                    return it["def"]
        # blanket impls over a type parameter (impl<T: ...> Ext for T)
        tr = self.traits.get(trait)
        if tr:
            for it in tr["items"]:
                if it["name"] == name and it["has_default"]:
                    return it["def"]
        return None

    def impls_of(self, trait):
        return [im for im in self.impls if im["trait"] == trait]


def load(repo=REPO):
    for attempt in range(3):
        try:
            return Facts(extract(repo))
        except FileNotFoundError:
            # another process pruned the cache between our extraction and our read: extract again
            continue
    return Facts(extract(repo))


if __name__ == "__main__":
    p = extract()
    f = Facts(p)
    print(p, len(f.bodies), "bodies")
