"""Bit-provenance view of integer values.

A bit vector is a list (least significant bit first) whose entries are 0, 1, (term, i) — bit i of
`term` — or None (unknown).  A term is (Lin key, width).  Bitwise operators, constant shifts and
casts are exact on this view; the result is converted back to a linear expression over canonical
`mod`/`div`/`sl` pieces of the source terms, so that e.g. reassembling the four bytes produced by
`to_be_bytes` yields the original value and `x & !3` yields `x - x mod 4`.
"""
from .lin import INT_BITS, Lin, lin


def _pow2(n):
    return n > 0 and (n & (n - 1)) == 0


def _log2(n):
    return n.bit_length() - 1


def atom_width(a):
    k = a[0]
    if k in ("sym", "opq"):
        return INT_BITS.get(a[2], 64)
    if k == "elem":
        return INT_BITS.get(a[4], 64)
    if k == "byte":
        return 8
    if k in ("len", "cnt", "k", "ps"):
        return 63
    if k == "sl":
        return a[3] - a[2]
    if k == "mod":
        return (a[2] - 1).bit_length()
    if k == "div":
        if _pow2(a[2]):
            return max(1, term_width(a[1], 64) - _log2(a[2]))
        return 64
    return 64


def term_width(tkey, default):
    L = Lin.from_key(tkey)
    sa = L.single_atom()
    if sa and sa[1] == 1:
        return atom_width(sa[0])
    return default


def _atom_bit(a, j):
    """source of bit j of atom a"""
    k = a[0]
    if k == "sl":
        return ((a[1], term_width(a[1], 64)), a[2] + j)
    if k == "mod" and _pow2(a[2]):
        return ((a[1], term_width(a[1], 64)), j)
    if k == "div" and _pow2(a[2]):
        return ((a[1], term_width(a[1], 64)), _log2(a[2]) + j)
    return ((Lin.atom(a).key(), atom_width(a)), j)


def to_bits(L, width):
    L = lin(L)
    if not L.t:
        c = L.c
        if c < 0 or c >= (1 << width):
            return None
        return [(c >> i) & 1 for i in range(width)]
    out = [0] * width
    used = [False] * width
    ok = True
    if L.c < 0:
        ok = False
    else:
        i = 0
        c = L.c
        while c:
            if c & 1:
                if i >= width:
                    ok = False
                    break
                out[i] = 1
                used[i] = True
            c >>= 1
            i += 1
    if ok:
        for a, coeff in L.t.items():
            if not _pow2(coeff):
                ok = False
                break
            s = _log2(coeff)
            wa = atom_width(a)
            if s + wa > width:
                ok = False
                break
            for j in range(wa):
                if used[s + j]:
                    ok = False
                    break
                used[s + j] = True
                out[s + j] = _atom_bit(a, j)
            if not ok:
                break
    if ok:
        return out
    t = (L.key(), width)
    return [(t, i) for i in range(width)]


def from_bits(bits):
    """Lin for a bit vector, or None if some bit is unknown"""
    out = Lin()
    n = len(bits)
    i = 0
    while i < n:
        b = bits[i]
        if b is None:
            return None
        if b == 0:
            i += 1
            continue
        if b == 1:
            out = out + (1 << i)
            i += 1
            continue
        t, lo = b
        j = i + 1
        while j < n and isinstance(bits[j], tuple) and bits[j][0] == t and bits[j][1] == lo + (j - i):
            j += 1
        hi = lo + (j - i)
        out = out + _piece(t, lo, hi, i)
        i = j
    return out


def _piece(t, lo, hi, p):
    """2^p * (bits [lo,hi) of term t)"""
    tkey, w = t
    T = Lin.from_key(tkey)
    if hi >= w:
        if lo == 0:
            return T.scale(1 << p)
        return Lin.atom(("div", tkey, 1 << lo), 1 << p)
    if lo == 0:
        return Lin.atom(("mod", tkey, 1 << hi), 1 << p)
    return Lin.atom(("sl", tkey, lo, hi), 1 << p)


def b_and(a, b):
    out = []
    for x, y in zip(a, b):
        if x == 0 or y == 0:
            out.append(0)
        elif x == 1:
            out.append(y)
        elif y == 1:
            out.append(x)
        elif x is not None and x == y:
            out.append(x)
        else:
            out.append(None)
    return out


def b_or(a, b):
    out = []
    for x, y in zip(a, b):
        if x == 1 or y == 1:
            out.append(1)
        elif x == 0:
            out.append(y)
        elif y == 0:
            out.append(x)
        elif x is not None and x == y:
            out.append(x)
        else:
            out.append(None)
    return out


def b_xor(a, b):
    out = []
    for x, y in zip(a, b):
        if x == 0:
            out.append(y)
        elif y == 0:
            out.append(x)
        elif x in (0, 1) and y in (0, 1):
            out.append(x ^ y)
        elif x is not None and x == y:
            out.append(0)
        else:
            out.append(None)
    return out


def b_not(a):
    return [1 - x if x in (0, 1) else None for x in a]


def b_shl(a, n):
    w = len(a)
    if n >= w:
        return [0] * w
    return [0] * n + a[: w - n]


def b_shr(a, n):
    w = len(a)
    if n >= w:
        return [0] * w
    return a[n:] + [0] * n


def b_cast(a, w):
    if len(a) >= w:
        return a[:w]
    return a + [0] * (w - len(a))


def show_bits(bits):
    out = []
    i = 0
    n = len(bits)
    while i < n:
        b = bits[i]
        if b in (0, 1, None):
            j = i
            while j < n and bits[j] == b:
                j += 1
            out.append(f"[{i}..{j})={'?' if b is None else b}")
            i = j
            continue
        t, lo = b
        j = i + 1
        while j < n and isinstance(bits[j], tuple) and bits[j][0] == t and bits[j][1] == lo + (j - i):
            j += 1
        out.append(f"[{i}..{j})={Lin.from_key(t[0])}[{lo}..{lo + j - i})")
        i = j
    return " ".join(out)
