"""Path-sensitive abstract interpreter over the dumped THIR.

One function at a time, crate-local calls inlined, std calls replaced by contract models
(stdmodel.py), loops summarised (loops.py).  Every partial operation generates an obligation that
is discharged (or not) by the entailment procedure under the current path condition.
"""
import itertools

from . import bits as B
from . import solver
from .lin import (FALSE, INT_BITS, INT_MAX, INT_MIN, SIGNED, TRUE, Lin, atoms_deep, dnf, eq, f_and, f_not, f_or, flit, ge, gt, le, lin,
                  lt, ne, neg_lit, show_formula, show_pc)
from .values import *


class Unmodelled(Exception):
    pass


class Obl:
    __slots__ = ("ok", "kind", "span", "fn", "entry", "goal", "pc", "stack", "note")

    def __init__(self, ok, kind, span, fn, entry, goal, pc, stack, note=""):
        self.ok, self.kind, self.span, self.fn, self.entry = ok, kind, span, fn, entry
        self.goal, self.pc, self.stack, self.note = goal, pc, stack, note


class State:
    __slots__ = ("env", "pc", "mem", "colls", "frame", "gen", "exist", "tags", "tiles")

    def __init__(self):
        self.env = {}
        self.pc = []
        self.mem = {}      # base -> tuple of write records
        self.colls = {}    # coll seq -> tuple of (pc, value, exist atoms)
        self.frame = 0
        self.gen = {}
        self.exist = ()    # atoms that are local existentials (loop-havoc symbols)
        self.tags = ()     # free-form markers collected along the path
        self.tiles = {}    # coll seq -> base buffer: elements are views tiling disjoint ranges of that buffer

    def clone(self):
        s = State()
        s.env = dict(self.env)
        s.pc = list(self.pc)
        s.mem = dict(self.mem)
        s.colls = dict(self.colls)
        s.frame = self.frame
        s.gen = self.gen
        s.exist = self.exist
        s.tags = self.tags
        s.tiles = dict(self.tiles)
        return s


class Write:
    """a write of [start,end) of a buffer. kind: 'bytes' (payload: list of IntV), 'copy' (SliceV/ArrV src),
    'fill' (IntV), 'opaque' (descr).  q: None or (k atom, N Lin) — one write per k in [0,N)."""
    __slots__ = ("start", "end", "kind", "payload", "q", "span", "fn")

    def __init__(self, start, end, kind, payload, q=None, span=None, fn=None):
        self.start, self.end, self.kind, self.payload, self.q, self.span, self.fn = lin(start), lin(end), kind, payload, q, span, fn

    def __repr__(self):
        qs = f" ∀{self.q[0][1]}<{self.q[1]}" if self.q else ""
        if self.kind == "loop":
            return f"LOOP{qs} {{" + " | ".join("if " + show_pc(c) + ": " + repr(ws) for c, ws, _ in self.payload) + "}"
        return f"W[{self.start}..{self.end}){qs} {self.kind}:{self.payload!r}"


REGISTRY = []      # every interpreter created during a check run (cli reports their failed arithmetic obligations)


class Interp:
    PATH_CAP = 4096

    def __init__(self, facts):
        REGISTRY.append(self)
        self.F = facts
        self.obligations = []
        self.stack = []
        self.entry = None
        self.quiet = 0
        self.counter = itertools.count(1)
        self.frames = itertools.count(1)
        self.unmodelled = []
        self.notes = []
        self.loop_reports = []
        self.depth = 0
        self.call_hook = None
        from . import stdmodel
        self.std = stdmodel.Models(self)
        from . import loops
        self.loops = loops.Loops(self)

    # ------------------------------------------------------------------ utilities
    def fresh(self, prefix):
        return f"{prefix}#{next(self.counter)}"

    def fresh_int(self, prefix, ty):
        return IntV(Lin.atom(("opq", self.fresh(prefix), ty)), ty)

    def span(self, e):
        sp = e.get("sp")
        return self.F.span_str(sp) if sp else "?"

    def int_ty(self, e):
        return self.F.int_ty(e["t"])

    def ty(self, e):
        return self.F.types[e["t"]]

    def note(self, kind, e, msg):
        if not self.quiet:
            self.notes.append((kind, self.span(e) if e else "?", self.stack[-1] if self.stack else "?", msg))

    def unmodelled_at(self, e, what):
        if not self.quiet:
            self.unmodelled.append((self.span(e) if e else "?", self.stack[-1] if self.stack else "?", what))

    def assume(self, st, f):
        """states (clones) for each feasible disjunct of formula f"""
        if f == TRUE:
            return [st]
        if f == FALSE:
            return []
        out = []
        for conj in dnf(f):
            if solver.feasible(st.pc, conj):
                s = st.clone()
                s.pc.extend(conj)
                out.append(s)
        return out

    def oblige(self, st, goal, kind, e, note=""):
        """record an obligation; returns the state to continue with (goal assumed when it was not proven)"""
        if goal == TRUE:
            ok = True
        elif goal == FALSE:
            ok = not solver.feasible(st.pc)
        else:
            ok = solver.entails(st.pc, goal)
        if not self.quiet:
            self.obligations.append(Obl(ok, kind, self.span(e), self.stack[-1] if self.stack else "?", self.entry,
                                        goal, list(st.pc), list(self.stack), note))
        if ok:
            return [st]
        return self.assume(st, goal)

    # ------------------------------------------------------------------ symbolic values by type
    def symbolic(self, tyi, name, elem=None):
        """a fully symbolic value of type index tyi. name: tuple path; elem=(seq,kkey) when the value is
        an element of an abstract sequence"""
        t = self.F.types[tyi]
        k = t["k"]
        sname = ".".join(str(x) for x in name)
        if k == "int":
            if elem:
                return IntV(Lin.atom(("elem", elem[0], elem[1], tuple(name), t["s"])), t["s"])
            return IntV(Lin.atom(("sym", sname, t["s"])), t["s"])
        if k == "bool":
            key = ("elemb", elem[0], elem[1], tuple(name)) if elem else sname
            return BoolV(flit(("b", key, True)))
        if k == "ref":
            return self.symbolic(t["inner"], name, elem)
        if k == "str":
            base = ("el", elem[0], elem[1], tuple(name)) if elem else sname
            return SliceV(base, 0, Lin.atom(("len", base)), is_str=True)
        if k == "slice":
            et = self.F.types[t["elem"]]
            if et["s"] == "u8":
                base = ("el", elem[0], elem[1], tuple(name)) if elem else sname
                return SliceV(base, 0, Lin.atom(("len", base)))
            seq = ("efield", elem[0], elem[1], tuple(name)) if elem else sname
            return CollV(seq, t["elem"])
        if k == "array":
            et = self.F.types[t["elem"]]
            if et["s"] == "u8" and t["len"] is not None:
                base = ("el", elem[0], elem[1], tuple(name)) if elem else sname
                return SliceV(base, 0, t["len"])
            return Opaque("array " + t["s"])
        if k == "tuple":
            return TupV([self.symbolic(x, name + (i,), elem) for i, x in enumerate(t["elems"])])
        if k == "dyn":
            return DynV((sname, elem) if elem else sname, t["trait"])
        if k == "param":
            # a value of a generic / `impl Trait` argument type: an abstract object with identity
            return DynV((sname, elem) if elem else sname, None)
        if k == "adt":
            d = t["def"]
            if d in ("std::borrow::Cow", "std::boxed::Box"):
                return self.symbolic(t["args"][0], name, elem)
            if d == "std::string::String":
                base = ("el", elem[0], elem[1], tuple(name)) if elem else sname
                return SliceV(base, 0, Lin.atom(("len", base)), is_str=True)
            if d in ("std::vec::Vec", "std::collections::BTreeSet"):
                et = self.F.types[t["args"][0]]
                if et["s"] == "u8":
                    base = ("el", elem[0], elem[1], tuple(name)) if elem else sname
                    return SliceV(base, 0, Lin.atom(("len", base)))
                seq = ("efield", elem[0], elem[1], tuple(name)) if elem else sname
                from .lin import CNT_BOUNDS, LEN_MAX
                if "Vec" in d:
                    CNT_BOUNDS[seq] = LEN_MAX // max(1, self.min_size(t["args"][0]))
                elif et["k"] == "int":
                    # a set of integers has at most as many elements as the type has values
                    CNT_BOUNDS[seq] = min(LEN_MAX, 1 << INT_BITS.get(et["s"], 64))
                return CollV(seq, t["args"][0], kind="set" if "BTreeSet" in d else "vec")
            if d == "std::collections::HashMap":
                seq = ("efield", elem[0], elem[1], tuple(name)) if elem else sname
                kt = self.F.types[t["args"][0]]
                if kt["k"] == "int":
                    from .lin import CNT_BOUNDS, LEN_MAX
                    CNT_BOUNDS[seq] = min(LEN_MAX, 1 << INT_BITS.get(kt["s"], 64))
                return CollV(seq, ("pair", t["args"][0], t["args"][1]), kind="map")
            if d == "std::marker::PhantomData":
                return UNIT
            if d in self.F.adts:
                adt = self.F.adts[d]
                if not adt["is_enum"]:
                    v = adt["variants"][0]
                    sv = StructV(d, v["name"], {f["name"]: self.symbolic(f["t"], name + (f["name"],), elem) for f in v["fields"]})
                    if d.endswith("Builder"):
                        from . import roles
                        roles.alias(self.F, sv)
                        if not elem and not getattr(self.F, "_binv_busy", False):
                            self.F._binv_busy = True
                            try:
                                inv = roles.builder_invariants(self.F).get(d)
                            finally:
                                self.F._binv_busy = False
                            from .lin import SYM_BOUNDS
                            for f_, c_ in (inv or {}).items():
                                x_ = sv.fields.get(f_)
                                if isinstance(x_, IntV):
                                    a_ = x_.l.single_atom()
                                    if a_ and a_[1] == 1 and a_[0][0] == "sym":
                                        SYM_BOUNDS[a_[0]] = c_
                    return sv
                return EnumV(d, (tuple(name), elem))
            return Opaque("adt " + t["s"])
        return Opaque("type " + t["s"])

    def min_size(self, tyi, depth=0):
        """a lower bound of size_of::<T>() in bytes (sum of the fields' lower bounds; 0 when unknown)"""
        t = self.F.types[tyi]
        k = t["k"]
        if k == "int":
            return INT_BITS.get(t["s"], 8) // 8
        if k == "bool":
            return 1
        if k in ("ref", "ptr"):
            return 8
        if k == "tuple":
            return sum(self.min_size(x, depth + 1) for x in t["elems"])
        if k == "array" and t.get("len"):
            return t["len"] * self.min_size(t["elem"], depth + 1)
        if k == "adt" and depth < 4:
            d = t["def"]
            if d in ("std::vec::Vec", "std::string::String", "std::borrow::Cow"):
                return 24
            if d == "std::boxed::Box":
                return 8
            if d in self.F.adts and not self.F.adts[d]["is_enum"]:
                return sum(self.min_size(f["t"], depth + 1) for f in self.F.adts[d]["variants"][0]["fields"])
        return 0

    def seq_elem(self, coll, k):
        """symbolic k-th element of a non-built collection"""
        kkey = lin(k).key()
        et = coll.elem_ty
        if isinstance(et, tuple) and et[0] == "pair":
            return TupV([self.symbolic(et[1], (0,), (coll.seq, kkey)), self.symbolic(et[2], (1,), (coll.seq, kkey))])
        return self.symbolic(et, (), (coll.seq, kkey))

    # ------------------------------------------------------------------ memory
    def simplify(self, st, L):
        """replace `x mod m` by x, and bit slices / quotients by 0, when the path condition entails it
        (keeps the names of memory cells canonical: equal offsets get equal byte atoms)"""
        out = None
        for a, c in L.t.items():
            rep = None
            if a[0] == "mod":
                t = Lin.from_key(a[1])
                if solver.entails_lit(st.pc, eq(Lin.atom(a), t)):
                    rep = t
            elif a[0] in ("sl", "div"):
                if solver.entails_lit(st.pc, eq(Lin.atom(a), 0)):
                    rep = lin(0)
            if rep is not None:
                out = (out if out is not None else L) - Lin.atom(a, c) + rep.scale(c)
        return out if out is not None else L

    def read_byte(self, st, base, off, e=None):
        """IntV(u8) content of base[off] after the writes recorded in st.mem"""
        off = self.simplify(st, lin(off))
        ws = st.mem.get(base)
        if ws:
            for w in reversed(ws):
                r = self._read_from_write(st, w, base, off)
                if r is not None:
                    if r == "skip":
                        continue
                    return r
                # cannot decide whether this write covers the byte
                self.note("mem-ambiguous", e, f"read {base}[{off}] vs {w!r}")
                return self.fresh_int("membyte", "u8")
        if isinstance(base, tuple) and base[0] == "lit":
            if off.is_const() and 0 <= off.c < len(base[1]):
                return IntV(base[1][off.c], "u8")
        if not off.is_const():
            # one name per memory cell: if the path condition already speaks about this buffer at an offset it entails to be
            # equal (`len - 1` vs `4 * (length field + 1) - 1` after the length check), read that cell
            okey = off.key()
            seen = set()
            for l in st.pc:
                if l[0] not in ("le", "eq", "ne"):
                    continue
                for a in atoms_deep(l[1]):
                    if a[0] == "byte" and a[1] == base and a[2] != okey and a[2] not in seen:
                        seen.add(a[2])
            for ck in seen:
                C = Lin.from_key(ck)
                if C.is_const() or not any(x[0] == "len" for x in atoms_deep(off - C)):
                    continue
                if solver.entails_lit(st.pc, eq(off, C)):
                    return IntV(Lin.atom(("byte", base, ck)), "u8")
        return IntV(Lin.atom(("byte", base, off.key())), "u8")

    def _read_from_write(self, st, w, base, off):
        """content if the write covers off, 'skip' if it is disjoint, None if undecided"""
        start, end = w.start, w.end
        sub = None
        if w.kind == "loop":
            from .regions import regions_of
            probs = []
            regs = regions_of(st.pc, [w], probs)
            if len(regs) == 1 and not probs:
                if solver.entails(st.pc, f_or(flit(lt(off, regs[0].lo)), flit(ge(off, regs[0].hi)))):
                    return "skip"
            return None
        if w.q:
            katom, N = w.q
            # find the instance: off - start(k) constant within the width
            cands = []
            d0 = off - start.subst({katom: lin(0)})
            stride = start.subst({katom: lin(1)}) - start.subst({katom: lin(0)})
            if stride.is_const() and stride.c > 0:
                c = stride.c
                for a, co in d0.t.items():
                    if co == c:
                        cands.append(Lin.atom(a))
                if d0.is_const() or True:
                    cands.append(lin(d0.c // c) if d0.is_const() else None)
            width = (end - start)
            for cand in cands:
                if cand is None:
                    continue
                s2 = start.subst({katom: cand})
                e2 = end.subst({katom: cand})
                r = off - s2
                if r.is_const() and width.is_const() and stride.is_const() and 0 < width.c <= stride.c:
                    # off = start(cand + q) + r' with 0 <= r' < stride: inside instance cand+q, or in the gap
                    q, r2 = divmod(r.c, stride.c)
                    if r2 >= width.c:
                        return "skip"
                    inst = cand + q
                    s2 = start.subst({katom: inst})
                    e2 = end.subst({katom: inst})
                    if solver.entails(st.pc, f_and(flit(le(0, inst)), flit(lt(inst, N)))):
                        sub = {katom: inst}
                        start, end = s2, e2
                        break
                    if solver.entails(st.pc, f_or(flit(lt(inst, 0)), flit(ge(inst, N)))):
                        return "skip"
                    continue
                if solver.entails(st.pc, f_and(flit(le(s2, off)), flit(lt(off, e2)), flit(le(0, cand)), flit(lt(cand, N)))):
                    sub = {katom: cand}
                    start, end = s2, e2
                    break
            if sub is None:
                lo = start.subst({katom: lin(0)})
                hi = end.subst({katom: N - 1})
                if solver.entails(st.pc, f_or(flit(lt(off, lo)), flit(ge(off, hi)), flit(le(N, 0)))):
                    return "skip"
                return None
        else:
            inside = solver.entails(st.pc, f_and(flit(le(start, off)), flit(lt(off, end))))
            if not inside:
                if solver.entails(st.pc, f_or(flit(lt(off, start)), flit(ge(off, end)))):
                    return "skip"
                return None
        rel = off - start
        return self._write_content(st, w, rel, sub)

    def _write_content(self, st, w, rel, sub):
        from .lin import subst_deep
        if w.kind == "fill":
            v = w.payload
            return IntV(subst_deep(v.l, sub), "u8") if sub else v
        if w.kind == "bytes":
            if rel.is_const() and 0 <= rel.c < len(w.payload):
                v = w.payload[rel.c]
                return IntV(subst_deep(v.l, sub), "u8") if sub else v
            for i, v in enumerate(w.payload):
                if solver.entails_lit(st.pc, eq(rel, i)):
                    return IntV(subst_deep(v.l, sub), "u8") if sub and isinstance(v, IntV) else v
            return self.fresh_int("membyte", "u8")
        if w.kind == "copy":
            src = w.payload
            if isinstance(src, ArrV):
                if rel.is_const() and 0 <= rel.c < len(src.items):
                    v = src.items[rel.c]
                    return IntV(subst_deep(v.l, sub), "u8") if sub else v
                return self.fresh_int("membyte", "u8")
            sstart = subst_deep(src.start, sub) if sub else src.start
            sbase = src.base
            if sub and isinstance(sbase, tuple):
                from .lin import _subst_seq
                sbase = _subst_seq(sbase, sub)
            return self.read_byte(st, sbase, sstart + rel)
        if w.kind == "member":
            # the image of a member behind a trait object: byte `rel` of that member's own output
            d = w.payload
            return IntV(Lin.atom(("byte", ("member", repr(getattr(d, "name", d))), rel.key())), "u8")
        return self.fresh_int("membyte", "u8")

    def write(self, st, base, w):
        st.mem[base] = st.mem.get(base, ()) + (w,)

    # ------------------------------------------------------------------ places
    def place(self, e, st):
        """list of (state, place). place: ('loc', key, path) | ('mem', SliceV|ArrV, IntV idx, e) | ('val', V)"""
        k = e["k"]
        if k == "Var":
            return [(st, ("loc", (st.frame, e["var"]), ()))]
        if k == "Upvar":
            key = (st.frame, e["var"])
            v = st.env.get(key)
            if isinstance(v, RefV):
                return [(st, ("loc", v.key, v.path))]
            return [(st, ("loc", key, ()))]
        if k == "Field":
            out = []
            for s, p in self.place(e["lhs"], st):
                if p[0] == "loc":
                    out.append((s, ("loc", p[1], p[2] + (e["name"],))))
                elif p[0] == "val":
                    out.append((s, ("val", self.get_field(p[1], e["name"], e))))
                else:
                    out.append((s, ("val", Opaque("field of mem"))))
            return out
        if k == "Deref":
            a = e["arg"]
            if a["k"] == "Borrow":
                return self.place(a["arg"], st)
            out = []
            for s, kind, v in self.ev(a, st):
                if kind != "val":
                    continue
                if isinstance(v, RefV):
                    out.append((s, ("loc", v.key, v.path)))
                elif isinstance(v, MemRefV):
                    out.append((s, ("mem", v.target, v.idx, e)))
                else:
                    out.append((s, ("val", v)))
            return out
        if k == "Index" and e["lhs"]["k"] in ("Var", "Field", "Upvar", "Deref"):
            # an element of a local array: keep the location so that assignments update the variable
            res = []
            okp = True
            for s, p in self.place(e["lhs"], st):
                if p[0] == "loc" and isinstance(self.read_loc(s, p[1], p[2]), ArrV):
                    for s2, kind2, i in self.ev(e["index"], s):
                        if kind2 == "val":
                            res.append((s2, ("arrloc", p[1], p[2], i, e)))
                else:
                    okp = False
                    break
            if okp and res:
                return res
        if k == "Index":
            out = []
            for s, kind, v in self.ev(e["lhs"], st):
                if kind != "val":
                    continue
                for s2, kind2, i in self.ev(e["index"], s):
                    if kind2 != "val":
                        continue
                    out.append((s2, ("mem", v, i, e)))
            return out
        if k in ("Use",):
            return self.place(e["src"], st)
        out = []
        for s, kind, v in self.ev(e, st):
            if kind == "val":
                out.append((s, ("val", v)))
        return out

    def get_field(self, v, name, e=None):
        if isinstance(v, StructV):
            if name in v.fields:
                return v.fields[name]
            return Opaque(f"no field {name}")
        if isinstance(v, TupV):
            try:
                return v.items[int(name)]
            except (ValueError, IndexError):
                return Opaque("tuple field")
        if isinstance(v, Opaque):
            return Opaque(v.why + "." + str(name))
        return Opaque(f"field {name} of {type(v).__name__}")

    def read_loc(self, st, key, path):
        v = st.env.get(key)
        if v is None:
            return Opaque(f"unbound {key}")
        for p in path:
            if isinstance(v, RefV):
                v = self.read_loc(st, v.key, v.path)
            v = self.get_field(v, p)
        return v

    def write_loc(self, st, key, path, val):
        if not path:
            st.env[key] = val
            return
        root = st.env.get(key)
        if isinstance(root, RefV):
            self.write_loc(st, root.key, root.path + tuple(path), val)
            return
        st.env[key] = self._upd(st, root, path, val)

    def _upd(self, st, v, path, val):
        if not path:
            return val
        p = path[0]
        if isinstance(v, RefV):
            self.write_loc(st, v.key, v.path + tuple(path), val)
            return v
        if isinstance(v, StructV):
            f = dict(v.fields)
            f[p] = self._upd(st, f.get(p), path[1:], val)
            return StructV(v.adt, v.variant, f)
        if isinstance(v, TupV):
            items = list(v.items)
            items[int(p)] = self._upd(st, items[int(p)], path[1:], val)
            return TupV(items)
        return Opaque("update of non-aggregate")

    def read_place(self, st, p):
        """list of (state, value)"""
        if p[0] == "loc":
            return [(st, self.read_loc(st, p[1], p[2]))]
        if p[0] == "arrloc":
            return self.index_read(st, self.read_loc(st, p[1], p[2]), p[3], p[4])
        if p[0] == "val":
            return [(st, p[1])]
        return self.index_read(st, p[1], p[2], p[3])

    def index_read(self, st, v, i, e):
        if isinstance(v, SliceV) and isinstance(i, IntV):
            out = []
            for s in self.oblige(st, flit(lt(i.l, v.length())), "bounds", e):
                out.append((s, self.read_byte(s, v.base, v.start + i.l, e)))
            return out
        if isinstance(v, ArrV) and isinstance(i, IntV):
            n = len(v.items)
            out = []
            for s in self.oblige(st, flit(lt(i.l, n)), "bounds", e):
                if i.l.is_const() and 0 <= i.l.c < n:
                    out.append((s, v.items[i.l.c]))
                else:
                    out.append((s, Opaque("symbolic array index")))
            return out
        if isinstance(v, CollV) and isinstance(i, IntV):
            out = []
            for s in self.oblige(st, flit(lt(i.l, v.count())), "bounds", e):
                out.append((s, self.seq_elem(v, i.l)))
            return out
        self.unmodelled_at(e, f"index of {v!r}")
        return [(st, Opaque("index"))]

    def store(self, st, p, val, e):
        """list of states after storing val into place p"""
        if p[0] == "loc":
            self.write_loc(st, p[1], p[2], val)
            return [st]
        if p[0] == "arrloc":
            arr = self.read_loc(st, p[1], p[2])
            i = p[3]
            out = []
            for s in self.oblige(st, flit(lt(i.l, len(arr.items))), "bounds", p[4]):
                if i.l.is_const() and 0 <= i.l.c < len(arr.items):
                    items = list(arr.items)
                    items[i.l.c] = val
                    self.write_loc(s, p[1], p[2], ArrV(items))
                else:
                    self.write_loc(s, p[1], p[2], ArrV([Opaque("array element after a symbolic store")] * len(arr.items)))
                out.append(s)
            return out
        if p[0] == "mem":
            v, i = p[1], p[2]
            if isinstance(v, SliceV) and isinstance(i, IntV):
                out = []
                for s in self.oblige(st, flit(lt(i.l, v.length())), "bounds", p[3]):
                    s = s if s is not st else st
                    off = v.start + i.l
                    self.write(s, v.base, Write(off, off + 1, "bytes", [val], span=self.span(e), fn=self.stack[-1] if self.stack else None))
                    out.append(s)
                return out
            if isinstance(v, ArrV) and isinstance(i, IntV) and i.l.is_const():
                # arrays are values: handled by the caller through write-back of the whole array
                return [st]
        self.unmodelled_at(e, f"store into {p[0]}")
        return [st]

    # ------------------------------------------------------------------ patterns
    def bind(self, st, pat, v):
        k = pat["k"]
        if k == "Binding":
            if pat["byref"].startswith("Yes") and False:
                pass
            st.env[(st.frame, pat["var"])] = v
            if pat["sub"]:
                self.bind(st, pat["sub"], v)
        elif k == "Wild":
            pass
        elif k == "Leaf":
            for s in pat["subs"]:
                if isinstance(v, TupV):
                    self.bind(st, s["p"], v.items[s["f"]] if s["f"] < len(v.items) else Opaque("tuple"))
                elif isinstance(v, StructV):
                    vals = list(v.fields.values())
                    self.bind(st, s["p"], vals[s["f"]] if s["f"] < len(vals) else Opaque("leaf"))
                elif isinstance(v, RefV):
                    self.bind(st, s["p"], RefV(v.key, v.path + (self._leaf_name(pat, s),)))
                else:
                    self.bind(st, s["p"], Opaque("leaf of " + type(v).__name__))
        elif k == "Deref":
            if isinstance(v, RefV):
                v = self.read_loc(st, v.key, v.path)
            self.bind(st, pat["sub"], v)
        elif k == "Variant":
            vals = list(v.fields.values()) if isinstance(v, StructV) else []
            for s in pat["subs"]:
                self.bind(st, s["p"], vals[s["f"]] if s["f"] < len(vals) else Opaque("variant field"))
        elif k in ("Constant", "Or", "Range"):
            pass
        elif k == "Slice":
            # irrefutable uses (let [a, b] = arr): go through the matcher and keep the matching state's bindings
            for s2, m in self.match_pat(st, pat, v):
                if m and s2 is not st:
                    st.env.update(s2.env)
        else:
            raise Unmodelled("pattern " + k)

    def _refutable(self, pat):
        k = pat["k"]
        if k in ("Wild",):
            return False
        if k == "Binding":
            return bool(pat.get("sub")) and self._refutable(pat["sub"])
        if k == "Leaf":
            return any(self._refutable(sp["p"]) for sp in pat["subs"])
        if k == "Deref":
            return self._refutable(pat["sub"])
        if k == "Slice":
            return True
        if k == "Variant":
            adt = self.F.adts.get(pat["adt"])
            if adt is not None and len(adt["variants"]) == 1:
                return any(self._refutable(sp["p"]) for sp in pat["subs"])
            return True
        return True

    def _leaf_name(self, pat, s):
        t = self.F.types[pat["t"]]
        if t["k"] == "adt" and t["def"] in self.F.adts:
            return self.F.adts[t["def"]]["variants"][0]["fields"][s["f"]]["name"]
        return str(s["f"])

    def match_pat(self, st, pat, v):
        """list of (state, matched) — matched states have the bindings"""
        k = pat["k"]
        if k == "Binding" and pat.get("sub"):
            st.env[(st.frame, pat["var"])] = v
            return self.match_pat(st, pat["sub"], v)
        if k == "Leaf" and self._refutable(pat):
            # a tuple / struct pattern with refutable parts: match them one after the other
            if isinstance(v, RefV):
                parts = [RefV(v.key, v.path + (self._leaf_name(pat, sp),)) for sp in pat["subs"]]
            elif isinstance(v, TupV):
                parts = [v.items[sp["f"]] if sp["f"] < len(v.items) else Opaque("tuple") for sp in pat["subs"]]
            elif isinstance(v, StructV):
                vals = list(v.fields.values())
                parts = [vals[sp["f"]] if sp["f"] < len(vals) else Opaque("leaf") for sp in pat["subs"]]
            else:
                raise Unmodelled("refutable pattern on " + type(v).__name__)
            res = [(st, True)]
            for sp, pv in zip(pat["subs"], parts):
                nxt = []
                for s0, m in res:
                    if not m:
                        nxt.append((s0, m))
                        continue
                    if isinstance(pv, RefV) and self._refutable(sp["p"]):
                        pv = self.read_loc(s0, pv.key, pv.path)
                    nxt.extend(self.match_pat(s0, sp["p"], pv))
                res = nxt
            return res
        if k in ("Binding", "Wild", "Leaf"):
            self.bind(st, pat, v)
            return [(st, True)]
        if k == "Range":
            if isinstance(v, RefV):
                v = self.read_loc(st, v.key, v.path)
            if not isinstance(v, IntV):
                raise Unmodelled("range pattern on " + type(v).__name__)

            def bound(b):
                if b in ("-inf", "+inf") or b is None:
                    return None
                c = int(b)
                if v.ty in SIGNED and c >= 1 << (INT_BITS[v.ty] - 1):
                    c -= 1 << INT_BITS[v.ty]
                return c

            lo, hi = bound(pat["lo"]), bound(pat["hi"])
            if (pat["lo"] is None) or (pat["hi"] is None):
                raise Unmodelled("range pattern with a non-integer bound")
            conj = []
            if lo is not None:
                conj.append(flit(ge(v.l, lo)))
            if hi is not None:
                conj.append(flit(le(v.l, hi)) if pat["inclusive"] else flit(lt(v.l, hi)))
            f = f_and(*conj) if conj else TRUE
            return [(s, True) for s in self.assume(st, f)] + [(s, False) for s in self.assume(st, f_not(f))]
        if k == "Slice":
            if isinstance(v, RefV):
                v = self.read_loc(st, v.key, v.path)
            if not isinstance(v, (SliceV, ArrV)):
                raise Unmodelled("slice pattern on " + type(v).__name__)
            n = v.length()
            np_, ns_ = len(pat["prefix"]), len(pat["suffix"])
            f = flit(ge(n, np_ + ns_)) if pat["slice"] is not None else flit(eq(n, np_ + ns_))
            out = [(s, False) for s in self.assume(st, f_not(f))]
            for s in self.assume(st, f):
                res = [(s, True)]

                def step(res, sub, val_of):
                    nxt = []
                    for s0, m in res:
                        if not m:
                            nxt.append((s0, m))
                            continue
                        for s1, pv in val_of(s0):
                            nxt.extend(self.match_pat(s1, sub, pv))
                    return nxt

                def at(s0, idx):
                    # inside a matched slice pattern the position exists: no bounds obligation
                    if isinstance(v, SliceV):
                        return [(s0, self.read_byte(s0, v.base, v.start + idx, pat))]
                    idx = lin(idx)
                    if idx.is_const() and 0 <= idx.c < len(v.items):
                        return [(s0, v.items[idx.c])]
                    return [(s0, Opaque("array element at a symbolic position"))]

                for i, sub in enumerate(pat["prefix"]):
                    res = step(res, sub, lambda s0, i=i: at(s0, i))
                for j, sub in enumerate(pat["suffix"]):
                    res = step(res, sub, lambda s0, j=j: at(s0, n - ns_ + j))
                if pat["slice"] is not None:
                    if isinstance(v, SliceV):
                        rest = SliceV(v.base, v.start + np_, v.end - ns_)
                    else:
                        rest = ArrV(v.items[np_:len(v.items) - ns_])
                    res = step(res, pat["slice"], lambda s0: [(s0, rest)])
                out.extend(res)
            return out
        if k == "Deref":
            if isinstance(v, RefV):
                v = self.read_loc(st, v.key, v.path)
            return self.match_pat(st, pat["sub"], v)
        if k == "Variant" and isinstance(v, RefV) and isinstance(self.read_loc(st, v.key, v.path), EnumV):
            v = self.read_loc(st, v.key, v.path)
        if k == "Variant" and isinstance(v, EnumV):
            return self.match_enum(st, pat, v)
        if k == "Variant":
            if isinstance(v, RefV):
                inner = self.read_loc(st, v.key, v.path)
                if isinstance(inner, StructV):
                    if inner.variant != pat["variant"]:
                        return [(st, False)]
                    names = list(inner.fields.keys())
                    for s in pat["subs"]:
                        self.bind(st, s["p"], RefV(v.key, v.path + (names[s["f"]],)))
                    return [(st, True)]
                v = inner
            if isinstance(v, StructV) and v.variant.startswith("<") and v.adt in self.F.adts and self.F.adts[v.adt]["is_enum"]:
                # a contract value ("whatever that parser returned"): which variant it is is not known — both outcomes;
                # in the matching one the payload is whatever that variant carries (fresh symbols)
                vd = next((x for x in self.F.adts[v.adt]["variants"] if x["name"] == pat["variant"]), None)
                if vd is None:
                    raise Unmodelled("variant pattern on a contract value of another type")
                s1 = st.clone()
                tag = self.fresh("cv")
                vals = [self.symbolic(f["t"], (tag, pat["variant"], f["name"])) for f in vd["fields"]]
                res = [(s1, True)]
                for s in pat["subs"]:
                    nxt = []
                    for s0, m in res:
                        if not m:
                            nxt.append((s0, m))
                            continue
                        nxt.extend(self.match_pat(s0, s["p"], vals[s["f"]] if s["f"] < len(vals) else Opaque("f")))
                    res = nxt
                return res + [(st, False)]
            if isinstance(v, StructV):
                if v.variant != pat["variant"]:
                    return [(st, False)]
                # nested refutable sub-patterns
                vals = list(v.fields.values())
                res = [(st, True)]
                for s in pat["subs"]:
                    nxt = []
                    for s0, m in res:
                        if not m:
                            nxt.append((s0, m))
                            continue
                        nxt.extend(self.match_pat(s0, s["p"], vals[s["f"]] if s["f"] < len(vals) else Opaque("f")))
                    res = nxt
                return res
            # unknown scrutinee: both outcomes
            s1 = st.clone()
            self.bind(s1, pat, v)
            return [(s1, True), (st, False)]
        if k == "Constant":
            bits = pat.get("bits")
            if isinstance(v, IntV) and bits is not None:
                c = int(bits)
                out = []
                for s in self.assume(st, flit(eq(v.l, c))):
                    out.append((s, True))
                for s in self.assume(st, flit(ne(v.l, c))):
                    out.append((s, False))
                return out
            if isinstance(v, BoolV) and bits is not None:
                want = int(bits) != 0
                out = []
                for s in self.assume(st, v.f if want else f_not(v.f)):
                    out.append((s, True))
                for s in self.assume(st, f_not(v.f) if want else v.f):
                    out.append((s, False))
                return out
            return [(st.clone(), True), (st, False)]
        if k == "Or":
            out = []
            rest = [st]
            for p in pat["pats"]:
                nxt = []
                for s in rest:
                    for s2, m in self.match_pat(s.clone(), p, v):
                        if m:
                            out.append((s2, True))
                        else:
                            nxt.append(s2)
                rest = nxt
            out.extend((s, False) for s in rest)
            return out
        raise Unmodelled("match pattern " + k)

    def enum_payload(self, ev, variant):
        adt = self.F.adts[ev.adt]
        for vd in adt["variants"]:
            if vd["name"] == variant:
                name, elem = ev.name
                return StructV(ev.adt, variant, {f["name"]: self.symbolic(f["t"], tuple(name) + (variant, f["name"]), elem) for f in vd["fields"]})
        return None

    def enum_lit(self, ev, variant, pol=True):
        return ("b", ("variant", ev.adt, ev.name, variant), pol)

    def match_enum(self, st, pat, ev):
        """symbolic enum scrutinee: split on "is this variant", remembering the choice in the path condition"""
        variant = pat["variant"]
        adt = self.F.adts[ev.adt]
        out = []
        yes = self.assume(st, flit(self.enum_lit(ev, variant, True)))
        for s in yes:
            # exactly one variant
            okv = True
            for vd in adt["variants"]:
                if vd["name"] != variant:
                    l = self.enum_lit(ev, vd["name"], False)
                    if not solver.feasible(s.pc, [l]):
                        okv = False
                        break
                    s.pc.append(l)
            if not okv:
                continue
            sv = self.enum_payload(ev, variant)
            vals = list(sv.fields.values())
            res = [(s, True)]
            for sp in pat["subs"]:
                nxt = []
                for s0, m in res:
                    if not m:
                        nxt.append((s0, m))
                        continue
                    nxt.extend(self.match_pat(s0, sp["p"], vals[sp["f"]] if sp["f"] < len(vals) else Opaque("f")))
                res = nxt
            out.extend(res)
        # not this variant: only if some other variant is still possible
        for s in self.assume(st, flit(self.enum_lit(ev, variant, False))):
            others = [vd["name"] for vd in adt["variants"] if vd["name"] != variant]
            if any(solver.feasible(s.pc, [self.enum_lit(ev, o, True)]) for o in others):
                # if exactly one other variant remains possible it is that one
                out.append((s, False))
        return out

    # ------------------------------------------------------------------ evaluation core
    def ev(self, e, st):
        m = getattr(self, "ev_" + e["k"], None)
        if m is None:
            raise Unmodelled("expr kind " + e["k"])
        return m(e, st)

    def seq(self, exprs, st, fn):
        outs = []

        def rec(i, s, vals):
            if i == len(exprs):
                outs.extend(fn(s, vals))
                return
            for s2, kind, v in self.ev(exprs[i], s):
                if kind != "val":
                    outs.append((s2, kind, v))
                else:
                    rec(i + 1, s2, vals + [v])

        rec(0, st, [])
        return outs

    def ev_Use(self, e, st):
        return self.ev(e["src"], st)

    ev_NeverToAny = ev_Use

    def ev_PtrCoerce(self, e, st):
        return self.ev(e["src"], st)

    def ev_Var(self, e, st):
        v = st.env.get((st.frame, e["var"]))
        if v is None:
            return [(st, "val", Opaque("unbound " + e["name"]))]
        return [(st, "val", v)]

    def ev_Upvar(self, e, st):
        v = st.env.get((st.frame, e["var"]))
        if v is None:
            return [(st, "val", Opaque("unbound upvar " + e["name"]))]
        if isinstance(v, RefV):
            v = self.read_loc(st, v.key, v.path)
        return [(st, "val", v)]

    def ev_Lit(self, e, st):
        kind = e["kind"]
        if kind == "int":
            v = int(e["v"])
            if e.get("neg"):
                v = -v
            return [(st, "val", IntV(v, self.int_ty(e) or "usize"))]
        if kind == "bool":
            return [(st, "val", BTRUE if e["v"] else BFALSE)]
        if kind == "str":
            b = e["v"].encode()
            return [(st, "val", SliceV(("lit", b), 0, len(b), is_str=True))]
        return [(st, "val", Opaque("literal"))]

    def ev_Zst(self, e, st):
        return [(st, "val", UNIT)]

    def ev_FnRef(self, e, st):
        return [(st, "val", FnV(e.get("resolved") or e["fn"], info=e))]

    def ev_Closure(self, e, st):
        caps = {}
        outs = []
        ups = e["upvars"]

        def root_var(u):
            while u["k"] in ("Borrow", "Deref", "Use", "Field"):
                u = u.get("arg") or u.get("src") or u.get("lhs")
            return u

        def fn(s, vals):
            caps = {}
            for u, v in zip(ups, vals):
                r = root_var(u)
                if r["k"] in ("Var", "Upvar"):
                    if u["k"] == "Borrow" and u["mut"] and not isinstance(v, RefV):
                        v = RefV((s.frame, r["var"]))
                    caps[r["var"]] = v
            return [(s, "val", FnV(e["def"], info=None, captures=caps))]

        return self.seq(ups, st, fn)

    def ev_NamedConst(self, e, st):
        ity = self.int_ty(e)
        if e["value"] is not None:
            v = int(e["value"])
            if self.ty(e)["k"] == "bool":
                return [(st, "val", BTRUE if v else BFALSE)]
            if ity:
                return [(st, "val", IntV(v, ity))]
        # associated const of a trait through a type parameter / or a non-scalar const
        d = e["def"]
        target = None
        if e["trait"] and e["gargs"]:
            selfty = self.subst_ty(st, e["gargs"][0])
            target = self.F.find_impl_item(e["trait"], selfty, e["name"])
            if target is None and self.F.types[selfty]["k"] == "param":
                # parametric: symbolic constant of the type parameter
                pname = self.F.types[selfty]["name"]
                if ity:
                    return [(st, "val", IntV(Lin.atom(("sym", f"{pname}::{e['name']}", ity)), ity))]
        else:
            target = d
        if target and target in self.F.bodies:
            return self.eval_const(target, st)
        if ity:
            return [(st, "val", IntV(Lin.atom(("sym", d, ity)), ity))]
        return [(st, "val", Opaque("const " + d))]

    def eval_const(self, target, st):
        b = self.F.bodies[target]
        s = st.clone()
        saved = (st.frame, st.gen)
        s.frame = next(self.frames)
        outs = []
        for s2, kind, v in self.ev(b["body"], s):
            s2.frame, s2.gen = saved
            outs.append((s2, "val", v))
        return outs

    def subst_ty(self, st, tyi):
        t = self.F.types[tyi]
        if t["k"] == "param" and t["name"] in st.gen:
            return st.gen[t["name"]]
        if t["k"] == "ref":
            return self.subst_ty(st, t["inner"])
        return tyi

    def ty_key_subst(self, st, tyi):
        """lifetime-free key of a type with the current generic substitution applied; references kept"""
        t = self.F.types[tyi]
        if t["k"] == "param" and t["name"] in st.gen:
            return self.F.ty_key(st.gen[t["name"]])
        if t["k"] == "ref":
            return "&" + self.ty_key_subst(st, t["inner"])
        return self.F.ty_key(tyi)

    def ev_Tuple(self, e, st):
        return self.seq(e["fields"], st, lambda s, vs: [(s, "val", TupV(vs))])

    def ev_Array(self, e, st):
        return self.seq(e["fields"], st, lambda s, vs: [(s, "val", ArrV(vs))])

    def ev_Repeat(self, e, st):
        n = e["count"]

        def fn(s, vs):
            if n is None or n > 64:
                return [(s, "val", Opaque("repeat"))]
            return [(s, "val", ArrV([vs[0]] * n))]

        return self.seq([e["value"]], st, fn)

    def ev_Adt(self, e, st):
        exprs = [f["e"] for f in e["fields"]]
        base = e["base"] if isinstance(e["base"], dict) else None
        if base:
            exprs = exprs + [base]

        def fn(s, vs):
            fields = {}
            if base:
                bv = vs[-1]
                if isinstance(bv, StructV):
                    fields.update(bv.fields)
                vs = vs[:-1]
            adt = self.F.adts.get(e["adt"])
            if adt:
                # keep declaration order
                names = [f["name"] for f in adt["variants"][e["vidx"]]["fields"]]
                given = {f["name"]: v for f, v in zip(e["fields"], vs)}
                fields = {n: given.get(n, fields.get(n, Opaque("missing field"))) for n in names}
            else:
                for f, v in zip(e["fields"], vs):
                    fields[f["name"]] = v
            return [(s, "val", StructV(e["adt"], e["variant"], fields))]

        return self.seq(exprs, st, fn)

    def ev_Field(self, e, st):
        def fn(s, vs):
            v = vs[0]
            if isinstance(v, RefV):
                v = self.read_loc(s, v.key, v.path)
            return [(s, "val", self.get_field(v, e["name"], e))]

        return self.seq([e["lhs"]], st, fn)

    def ev_Deref(self, e, st):
        def fn(s, vs):
            v = vs[0]
            if isinstance(v, RefV):
                v = self.read_loc(s, v.key, v.path)
            if isinstance(v, MemRefV):
                return [(s2, "val", x) for s2, x in self.index_read(s, v.target, v.idx, e)]
            return [(s, "val", v)]

        return self.seq([e["arg"]], st, fn)

    def ev_Borrow(self, e, st):
        if not e["mut"]:
            return self.ev(e["arg"], st)
        outs = []
        for s, p in self.place(e["arg"], st):
            if p[0] == "loc":
                cur = self.read_loc(s, p[1], p[2])
                if isinstance(cur, (SliceV, CollV, DynV, RefV)):
                    outs.append((s, "val", cur))
                else:
                    outs.append((s, "val", RefV(p[1], p[2])))
            elif p[0] == "val":
                outs.append((s, "val", p[1]))
            else:
                for s2, v in self.read_place(s, p):
                    outs.append((s2, "val", v))
        return outs

    def ev_Index(self, e, st):
        def fn(s, vs):
            return [(s2, "val", v) for s2, v in self.index_read(s, vs[0], vs[1], e)]

        return self.seq([e["lhs"], e["index"]], st, fn)

    def ev_Block(self, e, st):
        b = e["b"]
        states = [st]
        outs = []
        for stmt in b["stmts"]:
            nxt = []
            for s in states:
                if stmt["k"] == "Expr":
                    for s2, kind, v in self.ev(stmt["e"], s):
                        if kind == "val":
                            nxt.append(s2)
                        else:
                            outs.append((s2, kind, v))
                else:
                    if stmt["init"] is None:
                        self.bind(s, stmt["pat"], Opaque("uninit"))
                        nxt.append(s)
                        continue
                    for s2, kind, v in self.ev(stmt["init"], s):
                        if kind != "val":
                            outs.append((s2, kind, v))
                            continue
                        if stmt["else"]:
                            for s3, m in self.match_pat(s2, stmt["pat"], v):
                                if m:
                                    nxt.append(s3)
                                else:
                                    outs.extend(self.ev({"k": "Block", "b": stmt["else"]}, s3))
                        else:
                            self.bind(s2, stmt["pat"], v)
                            nxt.append(s2)
            states = nxt
            if len(states) + len(outs) > self.PATH_CAP:
                raise Unmodelled("path explosion")
        for s in states:
            if b["expr"]:
                outs.extend(self.ev(b["expr"], s))
            else:
                outs.append((s, "val", UNIT))
        return outs

    def ev_Return(self, e, st):
        if e["value"] is None:
            return [(st, "ret", UNIT)]
        return [(s, "ret" if k == "val" else k, v) for s, k, v in self.ev(e["value"], st)]

    def ev_Break(self, e, st):
        if e["value"] is None:
            return [(st, "brk", (e["label"], UNIT))]
        return [(s, "brk", (e["label"], v)) if k == "val" else (s, k, v) for s, k, v in self.ev(e["value"], st)]

    def ev_Continue(self, e, st):
        return [(st, "cont", (e["label"], None))]

    def cond_formula(self, v, e=None):
        if isinstance(v, BoolV):
            return v.f
        if isinstance(v, IntV):
            return flit(ne(v.l, 0))
        key = self.fresh("cond")
        self.note("opaque-cond", e, repr(v))
        return flit(("b", key, True))

    def ev_If(self, e, st):
        outs = []
        c = e["cond"]
        if c["k"] == "LetExpr":
            for s, kind, v in self.ev(c["e"], st):
                if kind != "val":
                    outs.append((s, kind, v))
                    continue
                for s2, m in self.match_pat(s, c["pat"], v):
                    if m:
                        outs.extend(self.ev(e["then"], s2))
                    elif e["else"]:
                        outs.extend(self.ev(e["else"], s2))
                    else:
                        outs.append((s2, "val", UNIT))
            return outs
        for s, kind, v in self.ev(c, st):
            if kind != "val":
                outs.append((s, kind, v))
                continue
            f = self.cond_formula(v, c)
            for s2 in self.assume(s, f):
                outs.extend(self.ev(e["then"], s2))
            for s2 in self.assume(s, f_not(f)):
                if e["else"]:
                    outs.extend(self.ev(e["else"], s2))
                else:
                    outs.append((s2, "val", UNIT))
        return outs

    def ev_LetExpr(self, e, st):
        # `let` used as a boolean expression outside `if` heads is not produced by this crate
        raise Unmodelled("let expression")

    def ev_Logical(self, e, st):
        outs = []
        for s, kind, a in self.ev(e["lhs"], st):
            if kind != "val":
                outs.append((s, kind, a))
                continue
            fa = self.cond_formula(a, e["lhs"])
            if e["op"] == "And":
                for s2 in self.assume(s, f_not(fa)):
                    outs.append((s2, "val", BFALSE))
                for s2 in self.assume(s, fa):
                    for s3, k3, b in self.ev(e["rhs"], s2):
                        outs.append((s3, k3, BoolV(self.cond_formula(b, e["rhs"])) if k3 == "val" else b))
            else:
                for s2 in self.assume(s, fa):
                    outs.append((s2, "val", BTRUE))
                for s2 in self.assume(s, f_not(fa)):
                    for s3, k3, b in self.ev(e["rhs"], s2):
                        outs.append((s3, k3, BoolV(self.cond_formula(b, e["rhs"])) if k3 == "val" else b))
        return outs

    def ev_Match(self, e, st):
        if e["src"].startswith("ForLoopDesugar") and e["scrut"]["k"] == "Call" and e["scrut"].get("name") == "into_iter":
            return self.loops.for_loop(e, st)
        outs = []
        for s, kind, v in self.ev(e["scrut"], st):
            if kind != "val":
                outs.append((s, kind, v))
                continue
            rest = [s]
            for arm in e["arms"]:
                nxt = []
                for s0 in rest:
                    s1 = s0.clone()
                    for s2, m in self.match_pat(s1, arm["pat"], v):
                        if m:
                            if arm["guard"]:
                                for s3, k3, g in self.ev(arm["guard"], s2):
                                    if k3 != "val":
                                        outs.append((s3, k3, g))
                                        continue
                                    f = self.cond_formula(g, arm["guard"])
                                    for s4 in self.assume(s3, f):
                                        outs.extend(self.ev(arm["body"], s4))
                                    nxt.extend(self.assume(s3, f_not(f)))
                            else:
                                outs.extend(self.ev(arm["body"], s2))
                        else:
                            nxt.append(s2)
                rest = nxt
                if not rest:
                    break
            # rest: no arm matched — impossible for exhaustive matches
        return outs

    def ev_Assign(self, e, st):
        outs = []
        for s, kind, v in self.ev(e["rhs"], st):
            if kind != "val":
                outs.append((s, kind, v))
                continue
            for s2, p in self.place(e["lhs"], s):
                for s3 in self.store(s2, p, v, e):
                    outs.append((s3, "val", UNIT))
        return outs

    def ev_AssignOp(self, e, st):
        op = e["op"].replace("Assign", "")
        outs = []
        # note: Rust evaluates the rhs first for primitive operands
        for s, kind, rv in self.ev(e["rhs"], st):
            if kind != "val":
                outs.append((s, kind, rv))
                continue
            for s2, p in self.place(e["lhs"], s):
                for s3, old in self.read_place(s2, p):
                    for s4, nv in self.binop(s3, op, old, rv, e, self.F.int_ty(e["lhs"]["t"])):
                        for s5 in self.store(s4, p, nv, e):
                            outs.append((s5, "val", UNIT))
        return outs

    def ev_Unary(self, e, st):
        def fn(s, vs):
            v = vs[0]
            if e["op"] == "Not":
                if isinstance(v, BoolV):
                    return [(s, "val", BoolV(f_not(v.f)))]
                if isinstance(v, IntV):
                    w = INT_BITS.get(v.ty, 64)
                    bits = B.to_bits(v.l, w) if v.ty not in SIGNED else None
                    if bits is not None:
                        r = B.from_bits(B.b_not(bits))
                        if r is not None:
                            return [(s, "val", IntV(r, v.ty))]
                    if v.ty in SIGNED:
                        return [(s, "val", IntV(lin(-1) - v.l, v.ty))]      # !x == -x - 1 in two's complement
                    # !x == max - x
                    return [(s, "val", IntV(lin(INT_MAX[v.ty]) - v.l, v.ty))]
            if e["op"] == "Neg":
                if isinstance(v, IntV) and v.ty in SIGNED:
                    return [(s2, "val", IntV(lin(0) - v.l, v.ty))
                            for s2 in self.oblige(s, flit(ne(v.l, INT_MIN[v.ty])), "overflow-neg", e)]
                return [(s, "val", Opaque("neg"))]
            return [(s, "val", Opaque("unary " + e["op"]))]

        return self.seq([e["arg"]], st, fn)

    def ev_Binary(self, e, st):
        def fn(s, vs):
            return [(s2, "val", v) for s2, v in self.binop(s, e["op"], vs[0], vs[1], e, self.int_ty(e))]

        return self.seq([e["lhs"], e["rhs"]], st, fn)

    def binop(self, st, op, a, b, e, rty):
        """list of (state, value)"""
        if isinstance(a, BoolV) and isinstance(b, BoolV):
            if op in ("BitAnd",):
                return [(st, BoolV(f_and(a.f, b.f)))]
            if op in ("BitOr",):
                return [(st, BoolV(f_or(a.f, b.f)))]
            if op == "Eq":
                return [(st, BoolV(f_or(f_and(a.f, b.f), f_and(f_not(a.f), f_not(b.f)))))]
            if op == "Ne" or op == "BitXor":
                return [(st, BoolV(f_or(f_and(a.f, f_not(b.f)), f_and(f_not(a.f), b.f))))]
        if not (isinstance(a, IntV) and isinstance(b, IntV)):
            cmp_ops = ("Lt", "Le", "Gt", "Ge", "Eq", "Ne")
            if op in ("Eq", "Ne") and isinstance(a, StructV) and isinstance(b, StructV):
                f = self.struct_eq(a, b)
                if f is not None:
                    return [(st, BoolV(f if op == "Eq" else f_not(f)))]
            if op in cmp_ops:
                self.note("opaque-compare", e, f"{a!r} {op} {b!r}")
                return [(st, BoolV(flit(("b", self.fresh("cmp"), True))))]
            self.note("opaque-binop", e, f"{a!r} {op} {b!r}")
            return [(st, Opaque("binop " + op))]
        A, Bl = a.l, b.l
        ty = a.ty
        if ty in SIGNED or (b.ty in SIGNED and op not in ("Shl", "Shr")):
            return self.binop_signed(st, op, a, b, e)
        mx = INT_MAX.get(ty, 2**64 - 1)
        if op == "Add":
            r = A + Bl
            return [(s, IntV(r, ty)) for s in self.oblige(st, flit(le(r, mx)), "overflow-add", e)]
        if op == "Sub":
            return [(s, IntV(A - Bl, ty)) for s in self.oblige(st, flit(le(Bl, A)), "overflow-sub", e)]
        if op == "Mul":
            if A.is_const():
                r = Bl.scale(A.c)
            elif Bl.is_const():
                r = A.scale(Bl.c)
            else:
                self.note("nonlinear", e, f"{A} * {Bl}")
                return [(st, self.fresh_int("mul", ty))]
            return [(s, IntV(r, ty)) for s in self.oblige(st, flit(le(r, mx)), "overflow-mul", e)]
        if op in ("Div", "Rem"):
            outs = []
            for s in self.oblige(st, flit(ne(Bl, 0)), "div-zero", e):
                if Bl.is_const() and Bl.c > 0:
                    if Bl.c == 1:
                        outs.append((s, IntV(A if op == "Div" else lin(0), ty)))
                    elif A.is_const():
                        outs.append((s, IntV(A.c // Bl.c if op == "Div" else A.c % Bl.c, ty)))
                    else:
                        outs.append((s, IntV(Lin.atom(("div" if op == "Div" else "mod", A.key(), Bl.c)), ty)))
                else:
                    self.note("nonlinear", e, f"{A} {op} {Bl}")
                    outs.append((s, self.fresh_int("div", ty)))
            return outs
        if op in ("Lt", "Le", "Gt", "Ge", "Eq", "Ne"):
            f = {"Lt": lt, "Le": le, "Gt": gt, "Ge": ge, "Eq": eq, "Ne": ne}[op](A, Bl)
            return [(st, BoolV(flit(f)))]
        w = INT_BITS.get(ty, 64)
        if op in ("Shl", "Shr"):
            outs = []
            amount_ok = flit(lt(Bl, w))
            if b.ty in SIGNED and not (Bl.is_const() and Bl.c >= 0):
                amount_ok = f_and(flit(ge(Bl, 0)), amount_ok)
            for s in self.oblige(st, amount_ok, "overflow-" + op.lower(), e):
                if Bl.is_const() and op == "Shl" and not A.is_const() and 0 < Bl.c < w and \
                        solver.entails(s.pc, flit(le(A.scale(1 << Bl.c), mx))):
                    # no bit is shifted out: the value is simply multiplied
                    outs.append((s, IntV(A.scale(1 << Bl.c), ty)))
                    continue
                if Bl.is_const():
                    outs.append((s, self.const_shift(s, op, a, Bl.c, ty, w)))
                else:
                    outs.extend(self.shift_cases(s, op, a, b, e, ty, w))
            return outs
        if op in ("BitAnd", "BitOr", "BitXor"):
            ba, bb = B.to_bits(A, w), B.to_bits(Bl, INT_BITS.get(b.ty, 64))
            if ba is not None and bb is not None:
                bb = B.b_cast(bb, w)
                rb = {"BitAnd": B.b_and, "BitOr": B.b_or, "BitXor": B.b_xor}[op](ba, bb)
                r = B.from_bits(rb)
                if r is not None:
                    return [(st, IntV(r, ty))]
            self.note("opaque-bitop", e, f"{A} {op} {Bl}")
            return [(st, IntV(Lin.atom(("opq", ("bitop", op, A.key(), Bl.key()), ty)), ty))]
        self.note("opaque-binop", e, op)
        return [(st, self.fresh_int("binop", ty))]

    def binop_signed(self, st, op, a, b, e):
        """arithmetic when an operand has a signed type: linear arithmetic with two-sided range obligations;
        division, shifts and bitwise operators are exact only on operands proven non-negative, opaque otherwise"""
        A, Bl = a.l, b.l
        ty = a.ty
        mn, mx = INT_MIN.get(ty, 0), INT_MAX.get(ty, 2**64 - 1)

        def rng(r):
            return f_and(flit(ge(r, mn)), flit(le(r, mx)))

        if op in ("Lt", "Le", "Gt", "Ge", "Eq", "Ne"):
            f = {"Lt": lt, "Le": le, "Gt": gt, "Ge": ge, "Eq": eq, "Ne": ne}[op](A, Bl)
            return [(st, BoolV(flit(f)))]
        if op == "Add":
            return [(s, IntV(A + Bl, ty)) for s in self.oblige(st, rng(A + Bl), "overflow-add", e)]
        if op == "Sub":
            return [(s, IntV(A - Bl, ty)) for s in self.oblige(st, rng(A - Bl), "overflow-sub", e)]
        if op == "Mul":
            if A.is_const():
                r = Bl.scale(A.c)
            elif Bl.is_const():
                r = A.scale(Bl.c)
            else:
                self.note("nonlinear", e, f"{A} * {Bl}")
                return [(st, self.fresh_int("mul", ty))]
            return [(s, IntV(r, ty)) for s in self.oblige(st, rng(r), "overflow-mul", e)]
        nonneg = solver.entails(st.pc, f_and(flit(ge(A, 0)), flit(ge(Bl, 0))))
        if op in ("Div", "Rem"):
            outs = []
            for s in self.oblige(st, flit(ne(Bl, 0)), "div-zero", e):
                for s2 in self.oblige(s, f_or(flit(ne(A, mn)), flit(ne(Bl, -1))), "overflow-div", e) if ty in SIGNED else [s]:
                    if nonneg and Bl.is_const() and Bl.c > 0:
                        if A.is_const():
                            outs.append((s2, IntV(A.c // Bl.c if op == "Div" else A.c % Bl.c, ty)))
                        else:
                            outs.append((s2, IntV(Lin.atom(("div" if op == "Div" else "mod", A.key(), Bl.c)), ty)))
                    else:
                        self.note("nonlinear", e, f"signed {A} {op} {Bl}")
                        outs.append((s2, self.fresh_int("sdiv", ty)))
            return outs
        w = INT_BITS.get(ty, 64)
        if op in ("Shl", "Shr"):
            outs = []
            for s in self.oblige(st, f_and(flit(ge(Bl, 0)), flit(lt(Bl, w))), "overflow-" + op.lower(), e):
                if Bl.is_const() and solver.entails(s.pc, flit(ge(A, 0))):
                    c = Bl.c
                    if op == "Shr":
                        outs.append((s, IntV(Lin.atom(("div", A.key(), 1 << c)) if c else A, ty)))
                        continue
                    if solver.entails(s.pc, flit(le(A.scale(1 << c), mx))):
                        outs.append((s, IntV(A.scale(1 << c), ty)))
                        continue
                self.note("opaque-shift", e, f"signed {A} {op} {Bl}")
                outs.append((s, self.fresh_int("sshift", ty)))
            return outs
        if op in ("BitAnd", "BitOr", "BitXor") and nonneg:
            ba, bb = B.to_bits(A, w), B.to_bits(Bl, INT_BITS.get(b.ty, 64))
            if ba is not None and bb is not None:
                bb = B.b_cast(bb, w)
                rb = {"BitAnd": B.b_and, "BitOr": B.b_or, "BitXor": B.b_xor}[op](ba, bb)
                r = B.from_bits(rb)
                if r is not None:
                    return [(st, IntV(r, ty))]
        self.note("opaque-binop", e, f"signed {A} {op} {Bl}")
        return [(st, self.fresh_int("sbinop", ty))]

    def const_shift(self, s, op, a, c, ty, w):
        A = a.l
        mx = INT_MAX.get(ty, 2**64 - 1)
        if c == 0:
            return IntV(A, ty)
        if op == "Shl" and not A.is_const() and 0 < c < w and solver.entails(s.pc, flit(le(A.scale(1 << c), mx))):
            return IntV(A.scale(1 << c), ty)
        bits = B.to_bits(A, w)
        r = None
        if bits is not None:
            r = B.from_bits(B.b_shl(bits, c) if op == "Shl" else B.b_shr(bits, c))
        return IntV(r, ty) if r is not None else self.fresh_int("shift", ty)

    SHIFT_SPLIT = 9

    def shift_cases(self, st, op, a, b, e, ty, w):
        """shift by a non-constant amount: when the path condition confines the amount to a few values (a bit count
        inside one byte), one exact constant shift per value; a deterministic opaque term otherwise"""
        Bl = b.l
        lo = hi = None
        for k in range(0, w):
            if solver.entails(st.pc, flit(ge(Bl, k))):
                lo = k
            else:
                break
        lo = lo or 0
        for k in range(lo, min(w, lo + self.SHIFT_SPLIT)):
            if solver.entails(st.pc, flit(le(Bl, k))):
                hi = k
                break
        if hi is None:
            return [(st, self.symbolic_shift(st, op, a, b, e))]
        outs = []
        for c in range(lo, hi + 1):
            for s in self.assume(st, flit(eq(Bl, c))):
                outs.append((s, self.const_shift(s, op, a, c, ty, w)))
        return outs

    def symbolic_shift(self, st, op, a, b, e):
        """shift by a non-constant amount: a deterministic opaque term (same inputs, same atom)"""
        return IntV(Lin.atom(("opq", (op.lower(), a.l.key(), b.l.key()), a.ty)), a.ty)

    def struct_eq(self, a, b):
        if a.adt != b.adt:
            return None
        if a.variant != b.variant:
            return FALSE
        fs = []
        for k in a.fields:
            x, y = a.fields[k], b.fields.get(k)
            if isinstance(x, IntV) and isinstance(y, IntV):
                fs.append(flit(eq(x.l, y.l)))
            elif isinstance(x, BoolV) and isinstance(y, BoolV):
                fs.append(f_or(f_and(x.f, y.f), f_and(f_not(x.f), f_not(y.f))))
            else:
                return None
        return f_and(*fs)

    def ev_Cast(self, e, st):
        tgt = self.int_ty(e)

        def fn(s, vs):
            v = vs[0]
            if isinstance(v, IntV) and tgt:
                return [(s2, "val", r) for s2, r in self.cast_int(s, v, tgt, e)]
            if isinstance(v, BoolV) and tgt:
                return [(s2, "val", r) for s2, r in self.bool_to_int_split(s, v, tgt)]
            return [(s, "val", v)]

        return self.seq([e["src"]], st, fn)

    def bool_to_int_split(self, st, v, ty):
        return [(s, IntV(1, ty)) for s in self.assume(st, v.f)] + [(s, IntV(0, ty)) for s in self.assume(st, f_not(v.f))]

    def bool_to_int(self, st, v, ty):
        if v.f == TRUE:
            return IntV(1, ty)
        if v.f == FALSE:
            return IntV(0, ty)
        return self.fresh_int("boolint", ty)

    def cast_int(self, st, v, tgt, e=None):
        """`v as tgt`: list of (state, value).  The result is v reduced into tgt's range modulo 2^width."""
        w_src, w_tgt = INT_BITS.get(v.ty, 64), INT_BITS.get(tgt, 64)
        if v.ty in SIGNED or tgt in SIGNED:
            mn, mx = INT_MIN[tgt], INT_MAX[tgt]
            if solver.entails(st.pc, f_and(flit(ge(v.l, mn)), flit(le(v.l, mx)))):
                return [(st, IntV(v.l, tgt))]
            smn, smx = INT_MIN.get(v.ty, 0), INT_MAX.get(v.ty, 2**64 - 1)
            m = 1 << w_tgt
            k0, k1 = (smn - mn) // m, (smx - mn) // m
            if k1 - k0 <= 2:
                outs = []
                for k in range(k0, k1 + 1):
                    for s in self.assume(st, f_and(flit(ge(v.l, mn + k * m)), flit(le(v.l, mx + k * m)))):
                        outs.append((s, IntV(v.l - k * m, tgt)))
                return outs
            self.note("lossy-cast", e, f"{v.l} as {tgt}")
            return [(st, IntV(Lin.atom(("mod", (v.l - mn).key(), m)) + mn, tgt))]
        if w_tgt >= w_src:
            return [(st, IntV(v.l, tgt))]
        mx = INT_MAX[tgt]
        if solver.entails(st.pc, flit(le(v.l, mx))):
            return [(st, IntV(v.l, tgt))]
        self.note("lossy-cast", e, f"{v.l} as {tgt} under {show_pc(st.pc)[:300]}")
        bits = B.to_bits(v.l, w_src)
        if bits is not None:
            r = B.from_bits(B.b_cast(bits, w_tgt))
            if r is not None:
                return [(st, IntV(r, tgt))]
        return [(st, IntV(Lin.atom(("mod", v.l.key(), 1 << w_tgt)), tgt))]

    # ------------------------------------------------------------------ loops
    def ev_PyBody(self, e, st):
        return e["fn"](st)

    def ev_Loop(self, e, st):
        r = self.loops.while_let_loop(e, st)
        if r is not None:
            return r
        r = self.loops.counter_while_loop(e, st)
        if r is not None:
            return r
        return self.loops.loop(e, st)

    # ------------------------------------------------------------------ calls
    def ev_Call(self, e, st):
        if e.get("fn") is None:
            # call through a value (closure / fn pointer)
            def fn(s, vs):
                return self.apply_fn(s, vs[0], vs[1:], e)

            return self.seq([e["fun"]] + e["args"], st, fn)
        return self.seq(e["args"], st, lambda s, vs: self.call(e, s, vs))

    def resolve_callee(self, e, st, args):
        """def path of the crate-local body to inline, or None"""
        r = e.get("resolved")
        if r and r in self.F.bodies:
            return r
        if e.get("trait") and e["gargs"]:
            selfty = self.subst_ty(st, e["gargs"][0])
            tgt = self.find_impl_method(st, e, selfty)
            if tgt and tgt in self.F.bodies:
                return tgt
            # dispatch on the receiver's abstract value
        if e.get("trait") and args:
            v = args[0]
            if isinstance(v, StructV) and v.adt in self.F.adts:
                for im in self.F.impls:
                    if im["trait"] == e["trait"] and self.F.ty_key(im["self"]) == v.adt:
                        for it in im["items"]:
                            if it["name"] == e["name"] and it["def"] in self.F.bodies:
                                return it["def"]
        f = e["fn"]
        if f in self.F.bodies:
            return f
        return None

    def find_impl_method(self, st, e, selfty):
        """impl item for a trait method call: the impl must match the self type and the trait's own
        generic arguments (TryFrom<&Packet> vs TryFrom<Unknown>)"""
        F = self.F
        key = F.ty_key(selfty)
        for im in F.impl_ix.get((e["trait"], key), []):
            ta = im["trait_args"]
            okm = True
            for j in range(1, len(ta)):
                if j >= len(e["gargs"]) or not isinstance(e["gargs"][j], int):
                    break
                want = self.ty_key_subst(st, e["gargs"][j])
                have = F.ty_key(ta[j])
                if F.types[F.strip_ref(ta[j])]["k"] == "param":
                    continue
                if want != have:
                    okm = False
                    break
            if not okm:
                continue
            for it in im["items"]:
                if it["name"] == e["name"]:
                    return it["def"]
        tr = F.traits.get(e["trait"])
        if tr:
            for it in tr["items"]:
                if it["name"] == e["name"] and it["has_default"]:
                    return it["def"]
        return None

    def call(self, e, st, args):
        tgt = self.resolve_callee(e, st, args)
        if tgt is not None and self.call_hook is not None:
            r = self.call_hook(tgt, e, st, args)
            if r is not None:
                return r
        # trait objects: contract model
        if args and isinstance(args[0], DynV) and e.get("trait") in self.F.traits or (args and isinstance(args[0], DynV) and tgt is None):
            r = self.std.dyn_call(e, st, args)
            if r is not None:
                return r
        if tgt is not None:
            # a trait default method must not be inlined for a dyn receiver
            return self.inline(tgt, e, st, args)
        r = self.std.call(e, st, args)
        if r is not None:
            return r
        # constructor functions of tuple structs / enum variants
        c = self.ctor(e["fn"], args)
        if c is not None:
            return [(st, "val", c)]
        self.unmodelled_at(e, "call " + (e.get("resolved") or e["fn"]))
        return [(st, "val", Opaque("call " + e["fn"]))]

    def ctor(self, fn, args):
        parent, _, name = fn.rpartition("::")
        adt = self.F.adts.get(parent)
        if adt:
            for v in adt["variants"]:
                if v["name"] == name:
                    return StructV(parent, name, {f["name"]: a for f, a in zip(v["fields"], args)})
        if fn in self.F.adts and not self.F.adts[fn]["is_enum"]:
            v = self.F.adts[fn]["variants"][0]
            return StructV(fn, v["name"], {f["name"]: a for f, a in zip(v["fields"], args)})
        if fn in ("std::option::Option::Some", "std::result::Result::Ok", "std::result::Result::Err"):
            p, _, n = fn.rpartition("::")
            return StructV(p, n, {"0": args[0]})
        return None

    def apply_fn(self, st, f, args, e):
        """call a function value"""
        if isinstance(f, PyFn):
            return f.fn(st, list(args), e)
        if isinstance(f, FnV):
            if f.captures is not None:
                return self.inline(f.fn, None, st, [f] + list(args), closure=f)
            info = f.info or {}
            if f.fn in self.F.bodies:
                return self.inline(f.fn, info, st, list(args))
            fake = dict(info)
            fake["sp"] = e.get("sp") if e else None
            fake.setdefault("fn", f.fn)
            fake.setdefault("gargs", [])
            fake.setdefault("name", f.fn.rpartition("::")[2])
            return self.call(fake, st, list(args))
        self.unmodelled_at(e, f"apply {f!r}")
        return [(st, "val", Opaque("apply"))]

    def inline(self, name, e, st, args, closure=None):
        b = self.F.bodies[name]
        if self.depth > 40:
            raise Unmodelled("call depth (recursion?) at " + name)
        s = st.clone()
        saved_frame, saved_gen = st.frame, st.gen
        s.frame = next(self.frames)
        if closure is not None:
            for var, v in closure.captures.items():
                s.env[(s.frame, var)] = v
        else:
            gen = {}
            if e and b.get("generics") and e.get("gargs") is not None:
                ga = [self.subst_ty(st, g) if isinstance(g, int) else g for g in e["gargs"]]
                for nme, g in zip(b["generics"], ga):
                    if isinstance(g, int):
                        gen[nme] = g
            s.gen = gen
        params = b["params"]
        if closure is not None:
            # first param is the closure itself
            pv = list(zip(params[1:], args[1:]))
        else:
            pv = list(zip(params, args))
        for p, a in pv:
            if p["pat"]:
                self.bind(s, p["pat"], a)
        self.stack.append(name)
        self.depth += 1
        new_frame = s.frame
        try:
            outs = []
            for s2, kind, v in self.ev(b["body"], s):
                if kind in ("val", "ret"):
                    s2.frame, s2.gen = saved_frame, saved_gen
                    # drop callee locals
                    for k in [k for k in s2.env if k[0] == new_frame]:
                        del s2.env[k]
                    outs.append((s2, "val", v))
                elif kind == "panic":
                    outs.append((s2, kind, v))
                else:
                    raise Unmodelled(f"{kind} escapes function {name}")
            return outs
        finally:
            self.depth -= 1
            self.stack.pop()

    # ------------------------------------------------------------------ entry points
    def run(self, name, args, st=None, gen=None):
        """analyse function `name` with the given abstract arguments; returns outcomes"""
        st = st or State()
        self.entry = self.entry or name
        fake = {"gargs": None}
        outs = self.inline(name, fake, st, args)
        if gen:
            pass
        return outs
