"""Roles of a builder's configuration fields, found through the public API instead of through private field names.

The rules name a configuration quantity by the public operation that sets it (`padding(..)`, `add_report_block(..)`, the
n-th argument of `new(..)`), historically spelled like the private field that stores it.  A rename of a private field is a
behaviour-preserving edit, so the binding must not depend on it: for every builder the setters and constructors are
interpreted once on symbolic arguments, the field each one stores its argument in is recorded, and every symbolic builder
value gets an alias entry `role -> that field's value` (the value objects are shared, rules only read them)."""
from .interp import State
from .values import *
from .lin import Lin

# role -> (public method, argument index) where the default "(role, 0)" does not apply
EXCEPTIONS = {
    "AppBuilder": {"ssrc": ("new", 0), "name": ("new", 1)},
    "ByeBuilder": {"sources": ("add_source", 0)},
    "UnknownBuilder": {"type_": ("new", 0), "data": ("new", 1)},
    "CompoundBuilder": {"packets": ("add_packet", 0)},
    "FirBuilder": {"ssrc_seq": ("add_ssrc", None)},
    "NackBuilder": {"rtp_seq": ("add_rtp_sequence", 0)},
    "SliBuilder": {"lost_mbs": ("add_lost_macroblock", None)},
    "RpsiBuilder": {"native_bit_string": ("native_data", 0), "native_bit_overrun": ("native_data", 1)},
    "ReceiverReportBuilder": {"ssrc": ("new", 0), "report_blocks": ("add_report_block", 0)},
    "SenderReportBuilder": {"ssrc": ("new", 0), "report_blocks": ("add_report_block", 0)},
    "ReportBlockBuilder": {"ssrc": ("new", 0)},
    "SdesBuilder": {"chunks": ("add_chunk", 0)},
    "SdesChunkBuilder": {"ssrc": ("new", 0), "items": ("add_item", 0)},
    "SdesItemBuilder": {"type_": ("new", 0), "value": ("new", 1)},
}
# roles the rules use per builder (the public operations they correspond to exist in the pinned API)
ROLES = {
    "AppBuilder": ["ssrc", "padding", "subtype", "name", "data"],
    "ByeBuilder": ["padding", "sources", "reason"],
    "UnknownBuilder": ["padding", "type_", "count", "data"],
    "CompoundBuilder": ["packets"],
    "FirBuilder": ["ssrc_seq"],
    "NackBuilder": ["rtp_seq"],
    "SliBuilder": ["lost_mbs"],
    "RpsiBuilder": ["payload_type", "native_bit_string", "native_bit_overrun"],
    "TransportFeedbackBuilder": ["padding", "sender_ssrc", "media_ssrc"],
    "PayloadFeedbackBuilder": ["padding", "sender_ssrc", "media_ssrc"],
    "ReceiverReportBuilder": ["ssrc", "padding", "report_blocks"],
    "SdesBuilder": ["padding", "chunks"],
    "SenderReportBuilder": ["ssrc", "padding", "ntp_timestamp", "rtp_timestamp", "packet_count", "octet_count", "report_blocks"],
    "ReportBlockBuilder": ["ssrc", "fraction_lost", "cumulative_lost", "extended_sequence_number", "interarrival_jitter",
                           "last_sender_report_timestamp", "delay_since_last_sender_report_timestamp"],
    "SdesChunkBuilder": ["ssrc", "items"],
    "SdesItemBuilder": ["type_", "prefix", "value"],
}


def _same(a, b):
    """is value a (a field after the call) the argument value b"""
    if isinstance(a, IntV) and isinstance(b, IntV):
        return a.l == b.l
    if isinstance(a, SliceV) and isinstance(b, SliceV):
        return a.base == b.base
    if isinstance(a, BoolV) and isinstance(b, BoolV):
        return a.f == b.f
    return a is b


def _changed(a, b):
    return repr(a) != repr(b)


def resolve(F):
    """adt def path -> {role: actual field name} (only entries that resolve; cached on F)"""
    cached = getattr(F, "_roles", None)
    if cached is not None:
        return cached
    F._roles = {}            # re-entrancy guard: symbolic() is used below
    from .interp import Interp
    from .analysis import Disc
    D = Disc(F)
    out = {}
    for adt, ad in F.adts.items():
        short = adt.split("::")[-1]
        if short not in ROLES or ad["is_enum"]:
            continue
        fields = [f["name"] for f in ad["variants"][0]["fields"]]
        methods = {it["name"]: it["def"] for it in D.inherent(adt)}
        found = {}     # (method, arg index | None) -> field
        for mname, d in methods.items():
            b = F.bodies.get(d)
            if not b:
                continue
            I = Interp(F)
            I.quiet += 1
            params = b["params"]
            try:
                tyi = D.ty_index_of_adt(adt)
                takes_self = bool(params) and F.ty_key(F.strip_ref(params[0]["t"])) == adt and F.types[params[0]["t"]]["k"] != "ref"
                st = State()
                if takes_self:
                    recv = I.symbolic(tyi, ("role-recv",))
                    args = [recv] + [I.symbolic(p["t"], ("role-arg", i)) for i, p in enumerate(params[1:])]
                else:
                    recv = None
                    args = [I.symbolic(p["t"], ("role-arg", i)) for i, p in enumerate(params)]
                outs = I.inline(d, None, st, args)
            except Exception:
                continue
            for s, k, r in outs:
                if k != "val" or not isinstance(r, StructV) or r.adt != adt:
                    continue
                uargs = args[1:] if takes_self else args
                for f in fields:
                    nv = r.fields.get(f)
                    hit = None
                    for j, av in enumerate(uargs):
                        if _same(nv, av):
                            hit = j
                    if hit is not None:
                        found.setdefault((mname, hit), f)
                    elif recv is not None and isinstance(nv, CollV):
                        before = len(st.colls.get(nv.seq, ()))
                        if len(s.colls.get(nv.seq, ())) > before:
                            found.setdefault((mname, None), f)
                            found.setdefault((mname, 0), f)
        m = {}
        for role in ROLES[short]:
            api = EXCEPTIONS.get(short, {}).get(role, (role, 0))
            f = found.get(api)
            if f is None and api[1] is None:
                f = found.get((api[0], 0))
            if f is not None:
                m[role] = f
        out[adt] = m
    F._roles = out
    return out


def fci_kind_fields(F):
    """{'transport': field, 'payload': field} of FciFeedbackPacketType, read off its public constants TRANSPORT / PAYLOAD
    (the struct's own field names are private)"""
    cached = getattr(F, "_fci_kind", None)
    if cached is not None:
        return cached
    from .interp import Interp
    out = {"transport": "transport", "payload": "payload"}
    vals = {}
    for cname in ("TRANSPORT", "PAYLOAD"):
        ds = [d for d in F.bodies if d.endswith("FciFeedbackPacketType::" + cname)]
        if not ds:
            continue
        try:
            I = Interp(F)
            I.quiet += 1
            for s, k, r in I.inline(ds[0], None, State(), []):
                if k == "val" and isinstance(r, StructV):
                    vals[cname] = r
        except Exception:
            pass
    t, p = vals.get("TRANSPORT"), vals.get("PAYLOAD")
    if t is not None and p is not None:
        for f in t.fields:
            a, b = t.fields.get(f), p.fields.get(f)
            if isinstance(a, BoolV) and isinstance(b, BoolV):
                if a.f == ("true",) and b.f == ("false",):
                    out["transport"] = f
                elif a.f == ("false",) and b.f == ("true",):
                    out["payload"] = f
    F._fci_kind = out
    return out


def alias(F, v):
    """add `role -> value` entries to a symbolic builder value whose fields were renamed"""
    if getattr(F, "_roles_busy", False):
        return v
    F._roles_busy = True
    try:
        m = resolve(F).get(v.adt)
    finally:
        F._roles_busy = False
    if not m:
        return v
    for role, f in m.items():
        if role != f and role not in v.fields and f in v.fields:
            v.fields[role] = v.fields[f]
    return v
