"""Roles of a builder's configuration fields, found through the public API instead of through private field names.

The rules name a configuration quantity by the public operation that sets it (`padding(..)`, `add_report_block(..)`, the
n-th argument of `new(..)`), historically spelled like the private field that stores it.  A rename of a private field is a
behaviour-preserving edit, so the binding must not depend on it: for every builder the setters and constructors are
interpreted once on symbolic arguments, the field each one stores its argument in is recorded, and every symbolic builder
value gets an alias entry `role -> that field's value` (the value objects are shared, rules only read them)."""
from .interp import State
from .values import *
from .lin import Lin, flit

# role -> (public method, argument index) where the default "(role, 0)" does not apply
EXCEPTIONS = {
    "AppBuilder": {"ssrc": ("new", 0), "name": ("new", 1)},
    "ByeBuilder": {"sources": ("add_source", 0)},
    "UnknownBuilder": {"type_": ("new", 0), "data": ("new", 1)},
    "CompoundBuilder": {"packets": ("add_packet", 0)},
    "FirBuilder": {"ssrc_seq": ("add_ssrc", None)},
    "NackBuilder": {"rtp_seq": ("add_rtp_sequence", 0)},
    "SliBuilder": {"lost_mbs": ("add_lost_macroblock", None)},
    "RpsiBuilder": {"native_bit_string": ("native_data", 0), "native_bit_overrun": ("native_data", 1)},
    "ReceiverReportBuilder": {"ssrc": ("new", 0), "report_blocks": ("add_report_block", 0)},
    "SenderReportBuilder": {"ssrc": ("new", 0), "report_blocks": ("add_report_block", 0)},
    "ReportBlockBuilder": {"ssrc": ("new", 0)},
    "SdesBuilder": {"chunks": ("add_chunk", 0)},
    "SdesChunkBuilder": {"ssrc": ("new", 0), "items": ("add_item", 0)},
    "SdesItemBuilder": {"type_": ("new", 0), "value": ("new", 1)},
}
# roles the rules use per builder (the public operations they correspond to exist in the pinned API)
ROLES = {
    "AppBuilder": ["ssrc", "padding", "subtype", "name", "data"],
    "ByeBuilder": ["padding", "sources", "reason"],
    "UnknownBuilder": ["padding", "type_", "count", "data"],
    "CompoundBuilder": ["packets"],
    "FirBuilder": ["ssrc_seq"],
    "NackBuilder": ["rtp_seq"],
    "SliBuilder": ["lost_mbs"],
    "RpsiBuilder": ["payload_type", "native_bit_string", "native_bit_overrun"],
    "TransportFeedbackBuilder": ["padding", "sender_ssrc", "media_ssrc"],
    "PayloadFeedbackBuilder": ["padding", "sender_ssrc", "media_ssrc"],
    "ReceiverReportBuilder": ["ssrc", "padding", "report_blocks"],
    "SdesBuilder": ["padding", "chunks"],
    "SenderReportBuilder": ["ssrc", "padding", "ntp_timestamp", "rtp_timestamp", "packet_count", "octet_count", "report_blocks"],
    "ReportBlockBuilder": ["ssrc", "fraction_lost", "cumulative_lost", "extended_sequence_number", "interarrival_jitter",
                           "last_sender_report_timestamp", "delay_since_last_sender_report_timestamp"],
    "SdesChunkBuilder": ["ssrc", "items"],
    "SdesItemBuilder": ["type_", "prefix", "value"],
}


def _same(a, b):
    """is value a (a field after the call) the argument value b"""
    if isinstance(a, IntV) and isinstance(b, IntV):
        return a.l == b.l
    if isinstance(a, SliceV) and isinstance(b, SliceV):
        return a.base == b.base
    if isinstance(a, BoolV) and isinstance(b, BoolV):
        return a.f == b.f
    return a is b


def _changed(a, b):
    return repr(a) != repr(b)


def resolve(F):
    """adt def path -> {role: actual field name} (only entries that resolve; cached on F)"""
    cached = getattr(F, "_roles", None)
    if cached is not None:
        return cached
    F._roles = {}            # re-entrancy guard: symbolic() is used below
    from .interp import Interp
    from .analysis import Disc
    D = Disc(F)
    out = {}
    for adt, ad in F.adts.items():
        short = adt.split("::")[-1]
        if short not in ROLES or ad["is_enum"]:
            continue
        fields = [f["name"] for f in ad["variants"][0]["fields"]]
        methods = {it["name"]: it["def"] for it in D.inherent(adt)}
        found = {}     # (method, arg index | None) -> field
        for mname, d in methods.items():
            b = F.bodies.get(d)
            if not b:
                continue
            I = Interp(F)
            I.quiet += 1
            params = b["params"]
            try:
                tyi = D.ty_index_of_adt(adt)
                takes_self = bool(params) and F.ty_key(F.strip_ref(params[0]["t"])) == adt and F.types[params[0]["t"]]["k"] != "ref"
                st = State()
                if takes_self:
                    recv = I.symbolic(tyi, ("role-recv",))
                    args = [recv] + [I.symbolic(p["t"], ("role-arg", i)) for i, p in enumerate(params[1:])]
                else:
                    recv = None
                    args = [I.symbolic(p["t"], ("role-arg", i)) for i, p in enumerate(params)]
                outs = I.inline(d, None, st, args)
            except Exception:
                continue
            for s, k, r in outs:
                if k != "val" or not isinstance(r, StructV) or r.adt != adt:
                    continue
                uargs = args[1:] if takes_self else args
                for f in fields:
                    nv = r.fields.get(f)
                    hit = None
                    for j, av in enumerate(uargs):
                        if _same(nv, av):
                            hit = j
                    if hit is not None:
                        found.setdefault((mname, hit), f)
                    elif recv is not None and isinstance(nv, CollV):
                        before = len(st.colls.get(nv.seq, ()))
                        if len(s.colls.get(nv.seq, ())) > before:
                            found.setdefault((mname, None), f)
                            found.setdefault((mname, 0), f)
        m = {}
        for role in ROLES[short]:
            api = EXCEPTIONS.get(short, {}).get(role, (role, 0))
            f = found.get(api)
            if f is None and api[1] is None:
                f = found.get((api[0], 0))
            if f is not None:
                m[role] = f
        out[adt] = m
    F._roles = out
    return out


def _field_writers(F, adt):
    """functions containing an assignment to (a part of) a field of a value of type `adt`"""
    out = set()

    def base_is_adt(e):
        while e.get("k") in ("Field", "Index", "Deref", "Use", "Borrow"):
            if e["k"] == "Field":
                t = F.types[F.strip_ref(e["lhs"]["t"])] if isinstance(e["lhs"].get("t"), int) else None
                if t is not None and t.get("k") == "adt" and t.get("def") == adt:
                    return True
                e = e["lhs"]
            elif e["k"] == "Index":
                e = e["lhs"]
            else:
                e = e.get("arg") or e.get("src")
                if e is None:
                    return False
        return False

    for d, b in F.bodies.items():
        found = []

        def visit(e):
            if isinstance(e, dict):
                if e.get("k") in ("Assign", "AssignOp") and base_is_adt(e["lhs"]):
                    found.append(e)
                elif e.get("k") == "Borrow" and e.get("mut") and base_is_adt(e.get("arg", {})):
                    found.append(e)
                for v in e.values():
                    if isinstance(v, (dict, list)):
                        visit(v)
            elif isinstance(e, list):
                for v in e:
                    visit(v)

        visit(b.get("body"))
        if found:
            out.add(d)
    return out


def builder_invariants(F):
    """adt -> {field: upper bound}: bounds on a builder's private integer fields that every way of making or changing a
    builder value preserves (construction discipline: the fields are private, so only the type's own constructors and
    `self -> Self` methods can write them).  Found by Houdini over the candidates `field <= 2^8-1, 2^16-1, 2^32-1`."""
    cached = getattr(F, "_binv", None)
    if cached is not None:
        return cached
    F._binv = {}
    from .interp import Interp
    from .analysis import Disc, literal_sites
    from .lin import INT_MAX, le as _le, lin as _lin
    from . import solver
    D = Disc(F)
    sites = literal_sites(F)
    out = {}
    for adt, ad in F.adts.items():
        if not adt.endswith("Builder") or ad["is_enum"]:
            continue
        flds = [(f["name"], F.types[f["t"]]) for f in ad["variants"][0]["fields"]]
        cands = {}
        for fname, t in flds:
            if t["k"] == "int" and t["s"] in ("u16", "u32", "u64", "usize"):
                cands[fname] = [c for c in (255, 65535, 2**32 - 1) if c < INT_MAX[t["s"]]]
        if not cands:
            continue
        makers = []
        for it in D.inherent(adt):
            b = F.bodies.get(it["def"])
            if b and b.get("ret") is not None and F.ty_key(F.strip_ref(b["ret"])) == adt:
                makers.append(it["def"])
        # every struct literal of the type must sit in one of these functions (or in a Default impl analysed below)
        extra = [d for d in sites.get(adt, ()) if d not in makers]
        dflt = [d for d in extra if d.endswith("::default")]
        if any(d not in dflt for d in extra):
            continue
        makers += dflt
        # ... and so must every assignment to one of its fields (a `&mut self` mutator is not covered by the argument)
        writers = _field_writers(F, adt)
        if any(w not in makers for w in writers):
            continue
        cur = {f: min(cs) for f, cs in cands.items()}          # start from the strongest candidate and weaken
        changed = True
        rounds = 0
        while changed and rounds < 6:
            changed = False
            rounds += 1
            for d in makers:
                b = F.bodies[d]
                I = Interp(F)
                I.quiet += 1
                F._binv_tmp = {adt: dict(cur)}
                try:
                    args = []
                    st = State()
                    for i, p in enumerate(b["params"]):
                        v = I.symbolic(p["t"], ("inv-arg", i))
                        if isinstance(v, StructV) and v.adt == adt:
                            for f, c in cur.items():
                                if isinstance(v.fields.get(f), IntV):
                                    st.pc.append(_le(v.fields[f].l, c))
                        args.append(v)
                    outs = I.inline(d, None, st, args)
                except Exception:
                    outs = None
                if outs is None:
                    cur = {}
                    break
                for s, k, r in outs:
                    if k != "val":
                        continue
                    if isinstance(r, StructV) and r.adt in ("std::result::Result", "std::option::Option") and r.variant in ("Ok", "Some"):
                        r = r.fields["0"]
                    if not (isinstance(r, StructV) and r.adt == adt):
                        continue
                    for f in list(cur):
                        x = r.fields.get(f)
                        while f in cur and not (isinstance(x, IntV) and solver.entails(s.pc, flit(_le(x.l, cur[f])))):
                            weaker = [c for c in cands[f] if c > cur[f]]
                            if weaker:
                                cur[f] = min(weaker)
                            else:
                                del cur[f]
                            changed = True
            if not cur:
                break
        if cur:
            out[adt] = cur
    F._binv = out
    return out


def fci_kind_fields(F):
    """{'transport': field, 'payload': field} of FciFeedbackPacketType, read off its public constants TRANSPORT / PAYLOAD
    (the struct's own field names are private)"""
    cached = getattr(F, "_fci_kind", None)
    if cached is not None:
        return cached
    from .interp import Interp
    out = {"transport": "transport", "payload": "payload"}
    vals = {}
    for cname in ("TRANSPORT", "PAYLOAD"):
        ds = [d for d in F.bodies if d.endswith("FciFeedbackPacketType::" + cname)]
        if not ds:
            continue
        try:
            I = Interp(F)
            I.quiet += 1
            for s, k, r in I.inline(ds[0], None, State(), []):
                if k == "val" and isinstance(r, StructV):
                    vals[cname] = r
        except Exception:
            pass
    t, p = vals.get("TRANSPORT"), vals.get("PAYLOAD")
    if t is not None and p is not None:
        for f in t.fields:
            a, b = t.fields.get(f), p.fields.get(f)
            if isinstance(a, BoolV) and isinstance(b, BoolV):
                if a.f == ("true",) and b.f == ("false",):
                    out["transport"] = f
                elif a.f == ("false",) and b.f == ("true",):
                    out["payload"] = f
    F._fci_kind = out
    return out


def alias(F, v):
    """add `role -> value` entries to a symbolic builder value whose fields were renamed"""
    if getattr(F, "_roles_busy", False):
        return v
    F._roles_busy = True
    try:
        m = resolve(F).get(v.adt)
    finally:
        F._roles_busy = False
    if not m:
        return v
    for role, f in m.items():
        if role != f and role not in v.fields and f in v.fields:
            v.fields[role] = v.fields[f]
    return v
