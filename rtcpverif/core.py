"""Shared infrastructure of the checks: context, violations with stable keys, known findings,
evidence files, floors (anti-vacuity), command line."""
import hashlib
import json
import os
import re
import sys
import time

from . import facts as factsmod
from . import solver
from .lin import show_formula, show_pc

VERIF = factsmod.VERIF
EVIDENCE_DIR = os.environ.get("RTCP_EVIDENCE_DIR") or os.path.join(VERIF, "evidence")
KNOWN_FILE = os.path.join(VERIF, "known_findings.json")

_LABEL = re.compile(r"@L[A-Za-z0-9_./]*:\d+:\d+")
_FRESH = re.compile(r"[#']\d+")
_SPANISH = re.compile(r"\b[\w/]+\.rs:\d+:\d+")


def normalise(s):
    """strip everything position dependent (loop labels carry spans, fresh symbols carry counters)"""
    s = _LABEL.sub("@loop", s)
    s = _FRESH.sub("", s)
    s = _SPANISH.sub("<span>", s)
    return s


class CheckError(Exception):
    """the check itself cannot run soundly (missing anchor, floor not met, unmodelled construct needed
    by a rule).  Reported as a violation of kind 'unmodelled' / 'anchor' — fail closed."""


class Violation:
    def __init__(self, prop, rule, fn, goal, span="?", detail="", pc="", entry=None):
        self.prop, self.rule, self.fn = prop, rule, fn
        self.goal = goal if isinstance(goal, str) else show_formula(goal)
        self.span, self.detail = span, detail
        self.pc = pc if isinstance(pc, str) else show_pc(pc)
        self.entry = entry

    def key(self):
        raw = "|".join([self.prop, self.rule, normalise(self.fn), normalise(self.goal)])
        return self.prop + "-" + self.rule + "-" + hashlib.sha1(raw.encode()).hexdigest()[:12]

    def human(self):
        e = f" (entry {self.entry})" if self.entry and self.entry != self.fn else ""
        s = f"{self.span} {self.fn}{e} — {self.rule} — {self.goal}"
        if self.detail:
            s += f" — {self.detail}"
        return s

    def to_json(self):
        return {"property": self.prop, "rule": self.rule, "function": self.fn, "goal": self.goal, "span": self.span,
                "detail": self.detail, "path_condition": self.pc[:4000], "entry": self.entry, "key": self.key(),
                "normalised": normalise(self.fn) + " | " + normalise(self.goal)}


def load_known():
    if not os.path.exists(KNOWN_FILE):
        return []
    with open(KNOWN_FILE) as fh:
        return json.load(fh)["entries"]


class Result:
    """what one check run produced"""

    def __init__(self, prop, level):
        self.prop, self.level = prop, level
        self.violations = []
        self.obligations = 0       # proof obligations generated
        self.discharged = 0
        self.programs = 0          # function pairs / summaries compared (translation validation)
        self.disagreements_checked = 0
        self.samples = []
        self.distinct = set()
        self.analysed = {}         # free-form: what was analysed (functions, paths, rule instances)
        self.floors = []           # (name, measured, floor)
        self.assumptions = []
        self.notes = []
        self.trusted = ["rustc THIR/MIR construction and the driver's serialisation of it",
                        "the abstract interpreter's transfer functions and its linear-integer entailment procedure",
                        "the std contract table (rtcpverif/stdmodel.py)"]

    # -- obligations
    def ob(self, ok, rule, fn, goal, span="?", detail="", pc="", entry=None, sample=True):
        self.obligations += 1
        gs = goal if isinstance(goal, str) else show_formula(goal)
        if gs != "true":
            self.distinct.add((rule, fn, gs))
        if ok:
            self.discharged += 1
            if sample and len(self.samples) < 12:
                g = goal if isinstance(goal, str) else show_formula(goal)
                self.samples.append({"rule": rule, "function": fn, "goal": g[:300], "at": span, "discharged": True})
        else:
            self.violations.append(Violation(self.prop, rule, fn, goal, span, detail, pc, entry))
        return ok

    def compare(self, ok, rule, fn, goal, span="?", detail="", pc="", entry=None):
        self.disagreements_checked += 1
        return self.ob(ok, rule, fn, goal, span, detail, pc, entry)

    def floor(self, name, measured, floor):
        self.floors.append((name, measured, floor))
        if measured < floor:
            self.violations.append(Violation(self.prop, "anchor", name, f"discovered {measured} instances, expected at least {floor}",
                                             detail="anti-vacuity floor not met: an anchor of this rule was renamed, removed or is no longer discovered"))

    def extra_type(self, name, what, table, found):
        """a type of the crate that the rule's RFC table has no row for.  When every row of the table is matched by a type
        of the crate this is an addition the table (and the property's enumeration) does not speak about: recorded, not an
        alarm — the generic rules (no panic, size = written, every byte defined, ...) still cover it.  When some row is
        unmatched it may be that row's type under a new name: anchor violation (fail closed)."""
        unmatched = sorted(set(table) - set(found))
        if unmatched:
            self.ob(False, "anchor", name, what, detail=f"table rows without a type in the crate: {unmatched}")
            return False
        msg = f"{name}: {what} — no row; every row of the table is matched, so this type is outside the table-driven rule (not covered by it)"
        if msg not in self.notes:
            self.notes.append(msg)
        return True

    def unmodelled(self, fn, what, span="?"):
        self.violations.append(Violation(self.prop, "unmodelled", fn, what, span,
                                         detail="construct outside the analysed subset was needed by this rule (fail closed)"))


def arithmetic(res, I, entry=None, upto=None, all_kinds=False):
    """A rule reasons about the mathematical value of the integer expressions it interprets.  Where the code may overflow
    (it then panics in a debug build and wraps in a release build) that value is not the one computed, so an undischarged
    overflow / division obligation met while interpreting an entry point on a fully general input is reported under the
    rule's own property as well."""
    seen = set()
    for o in (I.obligations if upto is None else I.obligations[:upto]):
        if o.ok or not (all_kinds or o.kind.startswith("overflow") or o.kind == "div-zero"):
            continue
        k = (o.kind, o.fn, str(o.goal))
        if k in seen:
            continue
        seen.add(k)
        arith = o.kind.startswith("overflow") or o.kind == "div-zero"
        res.ob(False, o.kind, o.fn, o.goal, o.span, detail=("arithmetic may overflow here (debug build: panic, release build: wrap-around), "
               "so the value this rule reasons about is not the one the program computes") if arith else
               "this operation may panic on a value the parser accepted, so the accessor does not return the field the rule compares", pc=o.pc, entry=entry or o.entry)


def new_violations(res):
    """violations of this run that known_findings.json does not list as open findings"""
    keys = set()
    for k in load_known():
        if k.get("status") == "finding" and k["property"] == res.prop:
            keys.update(([k["key"]] if "key" in k else []) + list(k.get("keys", [])))
    return [v for v in res.violations if v.key() not in keys]


def finish(res, tier, seed, t0, extra_cov=None):
    """print report lines, write evidence and replay files, return exit code"""
    os.makedirs(EVIDENCE_DIR, exist_ok=True)
    known = load_known()
    open_keys = {}
    for k in known:
        if k.get("status") == "finding" and k["property"] == res.prop:
            for kk in ([k["key"]] if "key" in k else []) + list(k.get("keys", [])):
                open_keys[kk] = k
    # de-duplicate by key
    seen = {}
    for v in res.violations:
        seen.setdefault(v.key(), v)
    new, kf = [], []
    for k, v in seen.items():
        if k in open_keys:
            kf.append((open_keys[k], v))
        else:
            new.append(v)
    rdir = os.path.join(EVIDENCE_DIR, "replay", res.prop)
    if os.path.isdir(rdir):
        for f in os.listdir(rdir):
            os.remove(os.path.join(rdir, f))
    for e, v in kf:
        print(f"KNOWN-FINDING: property={res.prop} {e['what']}  [{v.human()[:300]}]")
    for v in new:
        os.makedirs(rdir, exist_ok=True)
        p = os.path.join(rdir, v.key() + ".json")
        with open(p, "w") as fh:
            json.dump(v.to_json(), fh, indent=1)
        print(f"VIOLATION property={res.prop} replay={p}")
        print("  " + v.human()[:1500])
    for name, m, f in res.floors:
        print(f"  floor {name}: {m} (>= {f})")
    level = res.level
    cov = {
        "obligations": res.obligations,
        "discharged": res.discharged,
        "checker_cmd": f"./check {res.prop} --tier {tier}",
        "trusted_base": res.trusted,
        "programs": res.programs,
        "disagreements_checked": res.disagreements_checked,
        "samples": res.samples[:12] or [{"note": "no obligation sample recorded"}],
        "analysed": res.analysed,
        "floors": [{"name": n, "measured": m, "floor": f} for n, m, f in res.floors],
        "known_findings_reported": [e["what"] for e, _ in kf],
        "new_violations": [v.to_json() for v in new][:50],
        "solver": dict(solver.STATS),
        "notes": res.notes,
        "controls": getattr(res, "controls", None),
        # generic keys, measured: every obligation is a distinct case (site x path x goal)
        "evaluations": max(res.obligations, 1),
        "distinct_nontrivial": res.distinct_count(),
        "rule": "one case per (function, path, obligation or comparison); distinct = distinct (rule, function, goal) triples; "
                "trivially true goals (constant-folded) are not counted as non-trivial",
        "explanation": "static analysis over the compiler's THIR of /repo's working tree; nothing is executed",
    }
    if extra_cov:
        cov.update(extra_cov)
    if res.obligations != res.discharged and level == "proof":
        # a proof-level claim needs obligations == discharged; with open (known or new) findings say so
        level = "other"
        cov["explanation"] += f"; {res.obligations - res.discharged} obligation(s) are not discharged on this tree (reported above), so this run is not a completed proof"
    ev = {
        "property_id": res.prop, "tier": tier, "seed": seed, "level": level, "coverage": cov,
        "assumptions": res.assumptions, "wall_s": round(time.time() - t0, 2), "violations": len(new),
    }
    with open(os.path.join(EVIDENCE_DIR, res.prop + ".json"), "w") as fh:
        json.dump(ev, fh, indent=1, default=str)
    print(f"{res.prop}: {res.obligations} obligations, {res.discharged} discharged, {len(new)} new violation(s), "
          f"{len(kf)} known finding(s), {ev['wall_s']}s")
    return 1 if new else 0


def _distinct(self):
    return len(self.distinct)


Result.distinct_count = _distinct
