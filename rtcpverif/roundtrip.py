"""Composition of a writer summary with a parser: the parser (and the accessors of the value it returns)
is interpreted over the writer's abstract write log — an abstract store with symbolic regions and
per-element (quantified) contents, not a concrete or symbolic test vector."""
from . import solver
from .analysis import Disc, PARSER_TRAIT
from .interp import Interp, State, Unmodelled
from .lin import Lin, eq, f_and, f_not, f_or, flit, ge, gt, le, lin, lt, ne, show_formula, show_pc
from .values import *
from .wsumm import BUF, Summary, discover
from .spec import MAX_BYTES


class Trip:
    def __init__(self, F, B, parse_def):
        self.F, self.B = F, B
        # an FCI writer is handed the rest of the packet buffer (at least its announced size), a packet writer exactly its size
        self.S = Summary(F, B, exact=(B.kind != "fci"))
        self.I = self.S.I
        self.parse_def = parse_def
        self.cases = []       # (write case, write state, [(state, parser outcome value)])
        self.arith = []       # failed overflow / division obligations met while reading the writer's output back
        if self.S.error:
            return
        for wc in self.S.cases:
            for s2, r in wc.outs:
                inp = SliceV(BUF, 0, wc.n)
                self.I.obligations = []
                self.I.unmodelled = []
                try:
                    outs = self.I.inline(parse_def, None, s2.clone(), [inp])
                except Unmodelled as ex:
                    self.I.unmodelled.append(("?", parse_def, str(ex)))
                    outs = []
                live = [(s3, v) for s3, k, v in outs if k == "val" and solver.feasible(s3.pc)]
                self._collect_arith()
                # what the writer itself could not be modelled on: the write log is then incomplete (fail closed)
                self.cases.append((wc, s2, live, list(self.I.unmodelled) + list(wc.unmodelled) + list(getattr(self.S, "size_unmodelled", []))))

    def flush_arith(self):
        """report the failed arithmetic obligations collected so far (once each) to the rule's result"""
        res = getattr(self, "res", None)
        if res is None:
            return
        seen = self.__dict__.setdefault("_seen_a", set())
        for o in self.arith:
            k = (o.kind, o.fn, str(o.goal))
            if k not in seen:
                seen.add(k)
                res.ob(False, o.kind, o.fn, o.goal, o.span, detail="reading the builder's output back may overflow here (debug build: panic, release "
                       "build: wrap-around): the round trip is not the identity the rule reasons about", pc=o.pc, entry=self.B.wr)

    def _collect_arith(self):
        for o in self.I.obligations:
            if not o.ok and (o.kind.startswith("overflow") or o.kind == "div-zero"):
                self.arith.append(o)

    def method(self, adt, name):
        D = Disc(self.F)
        for it in D.inherent(adt):
            if it["name"] == name:
                return it["def"]
        return None

    def call(self, s, v, name, gen=None):
        d = self.method(v.adt, name)
        if d is None:
            return None
        n0 = len(self.I.obligations)
        outs = self.I.inline(d, gen, s.clone(), [v])
        for o in self.I.obligations[n0:]:
            if not o.ok and (o.kind.startswith("overflow") or o.kind == "div-zero"):
                self.arith.append(o)
        self.flush_arith()
        return [(s2, r) for s2, k, r in outs if k == "val" and solver.feasible(s2.pc)]


def acceptance(res, T, label, rule="acceptance"):
    """every rejecting outcome of the parser is refuted on the writer's output"""
    n = 0
    T.res = res
    T.flush_arith()
    # fail closed: a builder whose size calculation or writer could not be summarised has no round trip to look at
    if T.S.error:
        res.unmodelled(T.B.cs, T.S.error)
    for wc in (T.S.cases if not T.S.error else []):
        for sp, fn, what in wc.unmodelled:
            res.unmodelled(fn, what, sp)
        if not wc.outs:
            res.ob(False, "acceptance", T.B.wr, f"{label}: the writer has an outcome to read back for every accepted configuration", pc=wc.size_state.pc)
    for wc, s2, live, unm in T.cases:
        for sp, fn, what in unm:
            res.unmodelled(fn, what, sp)
        errs = [(s, v) for s, v in live if isinstance(v, StructV) and v.variant == "Err"]
        oks = [(s, v) for s, v in live if isinstance(v, StructV) and v.variant == "Ok"]
        n += 1
        # first for the sizes the 16-bit length field can express (never covered by the recorded D11 finding) ...
        rep = [(s, v) for s, v in errs if solver.feasible(s.pc, [le(wc.n, MAX_BYTES)])]
        res.compare(not rep and bool(oks), rule, T.parse_def,
                    f"{label}: the parser accepts what the builder wrote whenever the total size is at most {MAX_BYTES} bytes",
                    detail="; ".join(f"{v.fields['0']!r} under {show_pc(s.pc[len(s2.pc):])[:200]}" for s, v in rep)[:600], pc=s2.pc, entry=T.B.wr)
        # ... then for every accepted configuration
        res.compare(not errs and bool(oks), rule, T.parse_def,
                    f"{label}: the parser accepts what the builder wrote (every rejecting path is refuted)",
                    detail="; ".join(f"{v.fields['0']!r} under {show_pc(s.pc[len(s2.pc):])[:200]}" for s, v in errs)[:600], pc=s2.pc, entry=T.B.wr)
    return n


def elements(I, s, it):
    if not isinstance(it, IterV):
        return None
    N = I.loops.count_of(s, it.seq)
    if N is not None:
        N = N - it.pos          # the elements still to come (an iterator built with skip(..) starts further in)
    if N is None:
        return None
    K = Lin.atom(("k", I.fresh("k")))
    s1 = s.clone()
    s1.pc.append(le(0, K))
    s1.pc.append(lt(K, N))
    return N, K, [(s2, x) for s2, x in I.loops.elem_of(s1, it.seq, it.pos + K, None)]
