"""Independent oracle tables transcribed from RFC 3550 (RTCP), RFC 4585 (AVPF feedback) and RFC 5104
(FIR).  Nothing here is derived from the crate under analysis; rows bind to *public API names*
(type, accessor, builder setter) which the existing test-suite pins.

Offsets are bytes from the start of the packet, big-endian, `n` = total size, `P` = padding count,
`N` = the 5-bit count field."""

# ---- common header (RFC 3550 §6.4.1 first word; RFC 4585 §6.1)
VERSION = 2
HEADER = {"version": ("byte0 bits 7..6", 2), "padding_bit": "byte0 bit 5", "count": "byte0 bits 4..0",
          "packet_type": "byte1", "length": "bytes 2..4 BE16 = n/4 - 1"}

# public view type (last path segment) -> packet type, minimum size, bytes of body implied per count unit
PACKET_TYPES = {
    "SenderReport": dict(pt=200, min=28, per_count=24, count_base=28),
    "ReceiverReport": dict(pt=201, min=8, per_count=24, count_base=8),
    "Sdes": dict(pt=202, min=4, per_count=0, count_base=4),
    "Bye": dict(pt=203, min=4, per_count=4, count_base=4),
    "App": dict(pt=204, min=12, per_count=0, count_base=12),
    "TransportFeedback": dict(pt=205, min=12, per_count=0, count_base=12),
    "PayloadFeedback": dict(pt=206, min=12, per_count=0, count_base=12),
}
UNKNOWN_MIN = 4
MAX_WORDS = 65536          # 16-bit length field holds n/4 - 1
MAX_BYTES = 4 * MAX_WORDS

# ---- fixed-offset scalar fields: view type -> accessor -> (offset, width in bytes, mask or None)
SCALARS = {
    "SenderReport": {"ssrc": (4, 4, None), "ntp_timestamp": (8, 8, None), "rtp_timestamp": (16, 4, None),
                     "packet_count": (20, 4, None), "octet_count": (24, 4, None)},
    "ReceiverReport": {"ssrc": (4, 4, None)},
    "App": {"ssrc": (4, 4, None)},
    "TransportFeedback": {"sender_ssrc": (4, 4, None), "media_ssrc": (8, 4, None)},
    "PayloadFeedback": {"sender_ssrc": (4, 4, None), "media_ssrc": (8, 4, None)},
    # report block, offsets relative to the block (RFC 3550 §6.4.1)
    "ReportBlock": {"ssrc": (0, 4, None), "fraction_lost": (4, 1, None), "cumulative_lost": (5, 3, None),
                    "extended_sequence_number": (8, 4, None), "interarrival_jitter": (12, 4, None),
                    "last_sender_report_timestamp": (16, 4, None),
                    "delay_since_last_sender_report_timestamp": (20, 4, None)},
}
# builder setter names equal the accessor names for these rows; the constructor argument of
# `X::builder(ssrc)` binds to `ssrc`.
REPORT_BLOCK_SIZE = 24

# ---- byte-range fields
# APP (RFC 3550 §6.7): name [8,12), data [12, n-P)
# BYE (§6.6): sources [4+4k, 8+4k); optional reason: length byte at 4+4N, text [5+4N, 5+4N+R)
# unknown: data() is the whole packet [0, n)

# ---- SDES (RFC 3550 §6.5)
SDES_PRIV = 8
# RFC 3550 §6.5.1-6.5.8: SDES item type numbers
SDES_ITEM_TYPES = {"CNAME": 1, "NAME": 2, "EMAIL": 3, "PHONE": 4, "LOC": 5, "TOOL": 6, "NOTE": 7, "PRIV": 8}
SDES_ITEM_HEADER = 2       # type, length
# chunk: SSRC(4) items... at least one null octet, then nulls to the next 32-bit boundary
# PRIV (§6.5.8): length byte L = 1 + p + v; prefix length at +2; prefix [+3, +3+p); value [+3+p, +2+L)

# ---- feedback (RFC 4585 §6.1): FMT in count bits; sender SSRC [4,8), media SSRC [8,12), FCI [12, n-P)
# FCI type (public parser type) -> (kind: 'transport'|'payload', FMT)
FCI = {"Nack": ("transport", 1), "Pli": ("payload", 1), "Sli": ("payload", 2), "Rpsi": ("payload", 3), "Fir": ("payload", 4)}
FCI_KIND_OF_PACKET = {"TransportFeedback": "transport", "PayloadFeedback": "payload"}
# generic NACK §6.2.1: word k at 4k: BE16 PID, BE16 BLP; BLP bit i-1 (bit 0 = LSB) set <=> PID+i lost, i in 1..=16
NACK_WINDOW = 16
# SLI §6.3.2: bits 31..19 First (13), 18..6 Number (13), 5..0 PictureID (6)
SLI_FIELDS = (("start", 19, 13), ("count", 6, 13), ("picture_id", 0, 6))
# RPSI §6.3.3: byte0 PB (number of unused trailing bits incl. zero fill), byte1 bit7 = 0, bits 6..0 payload type,
#              bit string from byte 2, zero padded to a multiple of 32 bits
# FIR RFC 5104 §4.3.1.1: entry k at 8k: BE32 SSRC, seq (8 bits), 24 reserved zero bits
FIR_ENTRY = 8

# ---- representability limits (C16)
LIMITS = {
    "count_max": 31, "reason_max": 255, "sdes_value_max": 255, "priv_content_max": 254,
    "cumulative_lost_max": 0xFFFFFF, "app_name_max": 4, "rpsi_pt_max": 127, "rpsi_overrun_max": 8,
}
