"""Summaries on top of the interpreter: entry-point discovery, parse outcomes, exploration of every
public method on every value a parser can return (accessors under the type invariant), iterator
protocols (state invariants by Houdini, progress measures) and validated recurrences."""
import itertools

from . import solver
from .interp import Interp, State, Unmodelled
from .lin import (FALSE, TRUE, Lin, atoms_deep, dnf, eq, f_and, f_not, f_or, flit, ge, gt, le, lin, lt, ne,
                  neg_lit, show_formula, show_lit, show_pc, subst_deep)
from .values import *

PARSER_TRAIT = "RtcpPacketParser"
PARSER_EXT = "RtcpPacketParserExt"
FCI_PARSER = "feedback::FciParser"
WRITER_TRAIT = "RtcpPacketWriter"
WRITER_EXT = "RtcpPacketWriterExt"
FCI_BUILDER = "feedback::FciBuilder"
ITER_TRAIT = "std::iter::Iterator"


BACK = StructV("<iterator>", "Back", {})


def is_variant(v, name):
    return isinstance(v, StructV) and v.variant == name


class Disc:
    """discovery of rule anchors from the item tables (never from source text)"""

    def __init__(self, F):
        self.F = F

    def by_signature(self, params, ret, where=None):
        """local functions found by their signature (private helper names are not anchors): `params` is the list of
        parameter type spellings, `ret` a substring of the return type spelling, `where` a substring of the def path"""
        out = []
        for d, b in self.F.bodies.items():
            if b.get("ret") is None or b.get("kind") not in ("Fn", "AssocFn"):
                continue
            if where and where not in d:
                continue
            ps = [self.F.types[p["t"]]["s"] for p in b["params"]]
            if ps == list(params) and ret in self.F.types[b["ret"]]["s"]:
                out.append(d)
        return out

    def adt_of_impl(self, im):
        t = self.F.types[im["self"]]
        return t["def"] if t["k"] == "adt" else None

    def impl_item(self, trait, adt, name):
        for im in self.F.impls:
            if im["trait"] == trait and self.adt_of_impl(im) == adt:
                for it in im["items"]:
                    if it["name"] == name:
                        return it["def"]
        return None

    def impls_of(self, trait):
        """adt def paths implementing the trait"""
        return [self.adt_of_impl(im) for im in self.F.impls if im["trait"] == trait and self.adt_of_impl(im)]

    def inherent(self, adt):
        out = []
        for im in self.F.impls:
            if im["trait"] is None and self.adt_of_impl(im) == adt:
                for it in im["items"]:
                    if it["kind"] == "AssocFn":
                        out.append(it)
        return out

    def ty_index_of_adt(self, adt):
        for i, t in enumerate(self.F.types):
            if t["k"] == "adt" and t["def"] == adt:
                return i
        return None

    def parse_entries(self):
        """(def path, adt, kind) of every public parsing entry point"""
        out = []
        for adt in self.impls_of(PARSER_TRAIT):
            out.append((self.impl_item(PARSER_TRAIT, adt, "parse"), adt, "packet"))
        for adt in self.impls_of(FCI_PARSER):
            out.append((self.impl_item(FCI_PARSER, adt, "parse"), adt, "fci"))
        have = {o[1] for o in out}
        for adt in self.F.adts:
            if adt in have:
                continue
            for it in self.inherent(adt):
                f = self.F.fns.get(it["def"])
                if it["name"] == "parse" and f and f["exported"]:
                    out.append((it["def"], adt, "inherent"))
        return out

    def has_self(self, d):
        b = self.F.bodies.get(d)
        return bool(b and b["params"] and b["params"][0]["self"])

    def methods_on(self, adt):
        """[(def, name, origin)] of every method callable on a value of the ADT from outside the crate:
        exported inherent methods, methods of local trait impls, Iterator::next, default methods of the
        parser extension trait, conversions consuming the value"""
        F = self.F
        out = []
        for it in self.inherent(adt):
            f = F.fns.get(it["def"])
            if f and f["exported"] and self.has_self(it["def"]):
                out.append((it["def"], it["name"], "inherent"))
        for im in F.impls:
            if im["trait"] is None or self.adt_of_impl(im) != adt:
                continue
            tr = im["trait"]
            if tr in (PARSER_TRAIT, ITER_TRAIT) or (tr in F.traits and F.traits[tr]["exported"]):
                for it in im["items"]:
                    if it["kind"] == "AssocFn" and self.has_self(it["def"]):
                        out.append((it["def"], it["name"], tr))
        if adt in self.impls_of(PARSER_TRAIT):
            for it in F.traits[PARSER_EXT]["items"]:
                if it["kind"] == "AssocFn" and it["has_default"]:
                    out.append((it["def"], it["name"], PARSER_EXT))
        return out

    def conversions_from(self, adt):
        """[(def, target adt, by_ref)] TryFrom/From impls whose source is (a reference to) the ADT"""
        F = self.F
        out = []
        for im in F.impls:
            if im["trait"] in ("std::convert::TryFrom", "std::convert::From") and len(im["trait_args"]) > 1:
                src = im["trait_args"][1]
                st = F.types[src]
                by_ref = st["k"] == "ref"
                if F.types[F.strip_ref(src)].get("def") == adt:
                    for it in im["items"]:
                        if it["kind"] == "AssocFn":
                            out.append((it["def"], self.adt_of_impl(im), by_ref, im["trait"]))
        return out

    def documented_panic(self, d):
        f = self.F.fns.get(d)
        return bool(f and "# Panic" in (f.get("doc") or ""))


class Explorer:
    """runs every public method on every value reachable from a parser's Ok outcomes"""

    MAX_DEPTH = 6

    def __init__(self, F, I=None):
        self.F = F
        self.D = Disc(F)
        self.I = I or Interp(F)
        self.visited = []          # (entry, path of method names)
        self.iter_reports = []
        self.method_runs = 0
        self.skipped = []
        self.validated = {}        # adt -> validated recurrence
        self.covered_elsewhere = set()   # ADTs with their own entry point analysis (see construction discipline)
        self.deduped = []
        self.errors_seen = 0
        self.on_value = None       # optional callback(path, state, value)
        self.on_method = None      # optional callback(path, state, recv value, method def, outs)

    # ------------------------------------------------------------ generic instantiation
    def generic_instances(self, d, adt):
        """type-argument choices for a generic method: [(label, {param: type index})]"""
        b = self.F.bodies[d]
        gens = [g for g in b.get("generics", []) if g != "Self"]
        if not gens:
            return [("", None)]
        name = b["name"]
        out = []
        if name == "parse_fci":
            for fa in self.D.impls_of(FCI_PARSER):
                out.append((fa.split("::")[-1], {gens[0]: self.D.ty_index_of_adt(fa)}))
            return out
        if name == "try_as":
            for cd, tgt, by_ref, tr in self.D.conversions_from(adt):
                if by_ref and tr == "std::convert::TryFrom" and tgt:
                    out.append((tgt.split("::")[-1], {gens[0]: self.D.ty_index_of_adt(tgt)}))
            return out
        return None

    def call(self, st, d, args, gen=None):
        b = self.F.bodies[d]
        fake = None
        if gen:
            fake = {"gargs": [gen.get(g) for g in b["generics"]]}
        self.method_runs += 1
        return self.I.inline(d, fake, st.clone(), args)

    # ------------------------------------------------------------ exploration
    def explore(self, st, v, path, depth=0):
        I = self.I
        if self.on_value:
            self.on_value(path, st, v)
        if depth > self.MAX_DEPTH:
            self.skipped.append((path, "depth"))
            return
        if isinstance(v, RefV):
            v = I.read_loc(st, v.key, v.path)
        if isinstance(v, TupV):
            for i, x in enumerate(v.items):
                self.explore(st, x, path, depth)
            return
        if isinstance(v, IterV):
            self.explore_iter(st, v, path, depth)
            return
        if isinstance(v, CollV):
            self.explore_iter(st, IterV(("coll", v)), path, depth)
            return
        if not isinstance(v, StructV):
            return
        if v.adt in ("std::option::Option", "std::result::Result", "std::ops::ControlFlow"):
            if v.variant == "Err":
                self.errors_seen += 1     # an error is not a parsed view: out of the exploration scope
                return
            for x in v.fields.values():
                self.explore(st, x, path, depth)
            return
        if v.adt not in self.F.adts:
            return
        adt = v.adt
        if depth > 0 and adt in self.covered_elsewhere:
            self.deduped.append((path, adt))
            return
        # payloads of enum variants and public fields holding other views
        ad = self.F.adts[adt]
        for vd in ad["variants"]:
            if vd["name"] != v.variant:
                continue
            for fd in vd["fields"]:
                x = v.fields.get(fd["name"])
                if (ad["is_enum"] or fd["vis"] == "Public") and isinstance(x, (StructV, CollV)):
                    self.explore(st, x, path + ("." + fd["name"],), depth + 1)
        is_iter = self.D.impl_item(ITER_TRAIT, adt, "next")
        for d, name, origin in self.D.methods_on(adt):
            if origin == ITER_TRAIT:
                continue
            insts = self.generic_instances(d, adt)
            if insts is None:
                self.skipped.append((path + (name,), "generic method without instantiation rule"))
                continue
            for label, gen in insts:
                p2 = path + (name + (f"::<{label}>" if label else ""),)
                b = self.F.bodies[d]
                args = [v] + [I.symbolic(p["t"], ("arg", i)) for i, p in enumerate(b["params"][1:])]
                if origin == PARSER_EXT:
                    gen = {"Self": self.D.ty_index_of_adt(adt)}
                try:
                    outs = self.call(st, d, args, gen)
                except Unmodelled as ex:
                    I.unmodelled_at(None, f"{d}: {ex}")
                    continue
                self.visited.append(p2)
                if self.on_method:
                    self.on_method(p2, st, v, d, outs)
                for s2, kind, r in outs:
                    if kind == "val":
                        self.explore(s2, r, p2, depth + 1)
        for cd, tgt, by_ref, tr in self.D.conversions_from(adt):
            p2 = path + (f"{tr.split('::')[-1]}->{(tgt or '?').split('::')[-1]}{'&' if by_ref else ''}",)
            try:
                outs = self.call(st, cd, [v])
            except Unmodelled as ex:
                I.unmodelled_at(None, f"{cd}: {ex}")
                continue
            self.visited.append(p2)
            if self.on_method:
                self.on_method(p2, st, v, cd, outs)
            # the results of conversions are values of types explored from their own entry points
        if is_iter:
            self.explore_custom_iter(st, v, is_iter, path, depth)

    def explore_iter(self, st, it, path, depth):
        I = self.I
        N = I.loops.count_of(st, it.seq)
        if N is None:
            I.unmodelled_at(None, f"iterator without count {it.seq!r}")
            return
        if it.seq[0] == "custom":
            self.explore(st, it.seq[1], path, depth)
            return
        K = Lin.atom(("k", I.fresh("k")))
        s = st.clone()
        s.pc.append(le(0, K))
        s.pc.append(lt(K, N - it.pos))
        if not solver.feasible(s.pc):
            return
        for s1, v in I.loops.elem_of(s, it.seq, it.pos + K, None):
            self.explore(s1, v, path + ("[k]",), depth + 1)

    # ------------------------------------------------------------ custom iterators
    def explore_custom_iter(self, st, v, next_def, path, depth):
        rep = IterProtocol(self, st, v, next_def, path).run()
        self.iter_reports.append(rep)
        for s2, item in rep.yields:
            self.explore(s2, item, path + ("next()",), depth + 1)


PARSED = "<parsed>"
ERROR_OF = "<error-of>"


def opaque_parse_hook(F, entry_of, skip=()):
    """call hook: a call to another parsing entry point `T::parse(view)` is replaced by its contract
    "returns Ok(some T built from exactly this view) or Err(some error)".  Sound for panic-freedom
    because each entry point is analysed on its own for every slice (see construction discipline);
    used by the conversion/dispatch rules to see *which* parser is applied to *which* bytes."""
    def hook(tgt, e, st, args):
        if tgt in entry_of and tgt not in skip and args and isinstance(args[0], SliceV):
            adt = entry_of[tgt]
            fields = {"data": args[0], "__by": FnV(tgt)}
            # the view is also reachable under the name the type really gives its byte-slice field (accessors of the
            # contract value read it through that private name)
            ad = F.adts.get(adt)
            if ad and not ad["is_enum"]:
                for f in ad["variants"][0]["fields"]:
                    t = F.types[F.strip_ref(f["t"])]
                    if t["k"] in ("slice", "array") and F.types[t["elem"]]["s"] == "u8":
                        fields.setdefault(f["name"], args[0])
            okv = StructV(adt, PARSED, fields)
            erv = StructV("RtcpParseError", ERROR_OF, {"view": args[0], "__by": FnV(tgt)})
            return [(st.clone(), "val", ok(okv)), (st.clone(), "val", err(erv))]
        return None
    return hook


class IterReport:
    def __init__(self, adt, path):
        self.adt, self.path = adt, path
        self.invariant = []
        self.yields = []
        self.transitions = []      # (pc delta, outcome 'Some'/'None', {field: new value})
        self.post_values = []      # the iterator value after each transition (same order as transitions)
        self.progress = None       # description or None
        self.progress_ok = False
        self.bound = None
        self.fused_ok = None
        self.chain = None
        self.chain_ok = None
        self.state_fields = []
        self.pre = None


class IterProtocol:
    """`next(&mut self)` as a transition system over the iterator's scalar fields: an inductive state
    invariant (Houdini over guard-derived candidates, incl. two-literal disjunctions), obligations
    of one step under the invariant, a lexicographic progress measure bounded by the input length"""

    def __init__(self, X, st, v, next_def, path):
        self.X, self.I, self.F = X, X.I, X.F
        self.st, self.v, self.next_def, self.path = st, v, next_def, path

    def leaves(self, v, prefix=()):
        out = []
        if isinstance(v, (IntV, BoolV)):
            out.append((prefix, v))
        elif isinstance(v, IterV):
            out.append((prefix + ("pos",), IntV(v.pos, "usize")))
        elif isinstance(v, StructV) and v.adt == "std::option::Option":
            pass    # optional state is havocked on every step, never constrained
        elif isinstance(v, StructV):
            for k, x in v.fields.items():
                out.extend(self.leaves(x, prefix + (k,)))
        return out

    def havoc(self, v, lab):
        syms = {}
        self.opt_fields = []      # (path, payload type sample) optional fields: both shapes are explored
        self.iter_bounds = []     # built-in facts 0 <= pos <= count of std iterators held in the state

        def rec(x, prefix):
            if isinstance(x, IterV):
                a = ("sym", ".".join(prefix + ("pos",)) + "@" + lab, "usize")
                syms[prefix + ("pos",)] = (a, IntV(x.pos, "usize"))
                N = self.I.loops.count_of(self.st, x.seq)
                if N is not None:
                    self.iter_bounds.append(flit(le(0, Lin.atom(a))))
                    self.iter_bounds.append(flit(le(Lin.atom(a), N)))
                return IterV(x.seq, Lin.atom(a))
            if isinstance(x, StructV) and x.adt == "std::option::Option":
                self.opt_fields.append(prefix)
                return x
            if isinstance(x, IntV):
                a = ("sym", ".".join(prefix) + "@" + lab, x.ty)
                syms[prefix] = (a, x)
                return IntV(Lin.atom(a), x.ty)
            if isinstance(x, BoolV):
                key = ".".join(prefix) + "@" + lab
                syms[prefix] = (("bool", key), x)
                return BoolV(flit(("b", key, True)))
            if isinstance(x, StructV):
                return StructV(x.adt, x.variant, {k: rec(y, prefix + (k,)) for k, y in x.fields.items()})
            return x

        return rec(v, ()), syms

    def subst_formula(self, f, imap, bmap):
        """substitute int atoms (imap: atom -> Lin) and opaque booleans (bmap: key -> formula)"""
        k = f[0]
        if k in ("true", "false"):
            return f
        if k == "lit":
            l = f[1]
            if l[0] in ("le", "eq", "ne"):
                return flit((l[0], subst_deep(l[1], imap)))
            if l[0] == "b" and l[1] in bmap:
                return bmap[l[1]] if l[2] else f_not(bmap[l[1]])
            return f
        parts = [self.subst_formula(x, imap, bmap) for x in f[1]]
        return f_and(*parts) if k == "and" else f_or(*parts)

    def shapes(self, cur):
        """the iterator value with every optional field set to None / Some(fresh symbol)"""
        outs = [cur]
        for path in getattr(self, "opt_fields", []):
            nxt = []
            for c in outs:
                for variant in ("None", "Some"):
                    if variant == "None":
                        val = NONE
                    else:
                        fld = self.opt_type(path)
                        val = some(self.I.symbolic(fld, ("opt",) + path + (str(next(self.I.counter)),)) if fld is not None else Opaque("optional payload"))
                    nxt.append(self.set_path(c, path, val))
            outs = nxt
        return outs

    def opt_type(self, path):
        """type index of the payload of the Option field at `path` of the iterator struct"""
        adt = self.F.adts.get(self.v.adt)
        t = None
        cur = adt
        for p in path:
            if not cur:
                return None
            f = [f for f in cur["variants"][0]["fields"] if f["name"] == p]
            if not f:
                return None
            t = self.F.types[f[0]["t"]]
            cur = self.F.adts.get(t.get("def")) if t["k"] == "adt" else None
        if t and t["k"] == "adt" and t["def"] == "std::option::Option":
            return t["args"][0]
        return None

    def set_path(self, v, path, val):
        if not path:
            return val
        f = dict(v.fields)
        f[path[0]] = self.set_path(f[path[0]], path[1:], val)
        return StructV(v.adt, v.variant, f)

    def step(self, cur, inv, extra, quiet):
        key = None
        out = []
        for c in self.shapes(cur):
            key, r = self.step1(c, inv, extra + getattr(self, "iter_bounds", []), quiet)
            out.extend(r)
        return key, out

    def step1(self, cur, inv, extra, quiet):
        I = self.I
        s0 = self.st.clone()
        s0.frame = next(I.frames)
        key = (s0.frame, "iter-self")
        s0.env[key] = cur
        states = [s0]
        for f in inv + extra:
            nxt = []
            for s in states:
                if f[0] == "or":
                    # disjoint case split
                    negs = []
                    for part in f[1]:
                        nxt.extend(I.assume(s, f_and(part, *negs)))
                        negs.append(f_not(part))
                else:
                    nxt.extend(I.assume(s, f))
            states = nxt
            if len(states) > 64:
                raise Unmodelled("iterator invariant case explosion")
        out = []
        for s in states:
            out.extend(self._run(s, key, quiet))
        return key, out

    def whole_body_loop(self):
        e = self.F.bodies[self.next_def]["body"]
        while True:
            k = e["k"]
            if k in ("Use", "NeverToAny"):
                e = e["src"]
            elif k == "Block" and not e["b"]["stmts"] and e["b"]["expr"]:
                e = e["b"]["expr"]
            else:
                break
        return e if e["k"] == "Loop" else None

    def _run(self, s0, key, quiet):
        """one step of next(): [(state, result value | BACK, new iterator value, pc mark)].
        When the body of next() is a single `loop`, a back edge is the same as returning and being called
        again without having yielded, so back edges are reported as silent transitions (BACK)."""
        I = self.I
        if quiet:
            I.quiet += 1
        try:
            n0 = len(s0.pc)
            loop = self.whole_body_loop()
            res = []
            if loop is None:
                outs = I.inline(self.next_def, None, s0, [RefV(key)])
                for s2, kind, r in outs:
                    if kind == "val":
                        res.append((s2, r, I.read_loc(s2, key, ()), n0))
                return res
            b = self.F.bodies[self.next_def]
            s = s0.clone()
            saved = (s0.frame, s0.gen)
            s.frame = next(I.frames)
            I.bind(s, b["params"][0]["pat"], RefV(key))
            I.stack.append(self.next_def)
            I.depth += 1
            try:
                for s2, kind, r in I.ev(loop["body"], s):
                    s2.frame, s2.gen = saved
                    # (labels are lexically scoped and this is the outermost loop of the body: a `continue`/`break` that
                    # leaves its body can only be aimed at it)
                    if kind == "val" or kind == "cont":
                        res.append((s2, BACK, I.read_loc(s2, key, ()), n0))
                    elif kind == "ret":
                        res.append((s2, r, I.read_loc(s2, key, ()), n0))
                    elif kind == "brk":
                        res.append((s2, r[1], I.read_loc(s2, key, ()), n0))
                    elif kind == "panic":
                        pass
                    else:
                        raise Unmodelled(f"{kind} escapes next()")
            finally:
                I.depth -= 1
                I.stack.pop()
            return res
        finally:
            if quiet:
                I.quiet -= 1

    def run(self):
        I, X = self.I, self.X
        v = self.v
        rep = IterReport(v.adt, self.path)
        lab = "it" + v.adt.split("::")[-1]
        cur, syms = self.havoc(v, lab)
        rep.state_fields = [".".join(p) for p in syms]
        isyms = {p: a for p, (a, init) in syms.items() if a[0] == "sym"}
        bsyms = {p: a for p, (a, init) in syms.items() if a[0] == "bool"}
        inits_i = {a: init.l for p, (a, init) in syms.items() if a[0] == "sym"}
        inits_b = {a[1]: init.f for p, (a, init) in syms.items() if a[0] == "bool"}
        # validated recurrence (established by the constructor's validation loop), if any
        chain = X.validated.get(v.adt)
        extra = []
        chain_field = None
        if chain is not None:
            for p, a in isyms.items():
                if inits_i[a] == chain["init"]:
                    chain_field = (p, a)
                    break
        if chain_field is not None:
            p, a = chain_field
            m = {chain["atom"]: Lin.atom(a)}
            facts = [(l[0], subst_deep(l[1], m)) for l in chain["facts"] if l[0] in ("le", "eq", "ne")]
            guard = [(l[0], subst_deep(l[1], m)) for l in chain["guard"]]
            over = [flit(("b", b[1], True)) for b in bsyms.values()]
            # (some flag set) or not guard(field) or facts(field)
            extra.append(f_or(*over, f_not(f_and(*[flit(g) for g in guard])), f_and(*[flit(l) for l in facts])))
            rep.chain = f"validated recurrence on .{'.'.join(p)}: {show_pc(facts)}"
        # candidate atoms: literals over the state symbols met on the paths of one quiet step
        statesyms = set(isyms.values())
        key, res = self.step(cur, [], extra, True)
        atoms = {}
        consts = set()
        def add_atom(l):
            atoms[(l[0], l[1].key())] = l
            atoms[(neg_lit(l)[0], neg_lit(l)[1].key())] = neg_lit(l)

        def formula_lits(f, out):
            if f[0] == "lit":
                out.append(f[1])
            elif f[0] in ("and", "or"):
                for g in f[1]:
                    formula_lits(g, out)

        for s2, r, newv, n0 in res:
            imap0, bmap0 = self.post_maps(newv, isyms, bsyms)
            # tests whose outcome is stored into a boolean field instead of being branched on (`flag = a || x >= n`)
            stored = []
            for f in bmap0.values():
                formula_lits(f, stored)
            for l in list(s2.pc[n0:]) + [l for l in stored if l[0] in ("le", "eq", "ne")]:
                if l[0] in ("le", "eq", "ne"):
                    ats = atoms_deep(l[1])
                    if ats & statesyms and all(a in statesyms or a[0] in ("len",) for a in ats):
                        add_atom(l)
                        continue
                    # a test made on an updated field: re-express the literal over the new field value
                    for a, E in imap0.items():
                        if E.is_const() or E == Lin.atom(a):
                            continue
                        for x, ex in E.t.items():
                            cx = l[1].t.get(x)
                            if x in statesyms or cx is None or cx % ex:
                                continue
                            k = cx // ex
                            R = l[1] - E.scale(k)
                            if all(y[0] == "len" for y in atoms_deep(R)):
                                add_atom((l[0], R + Lin.atom(a, k)))
                            break
                elif l[0] == "b" and any(l[1] == b[1] for b in bsyms.values()):
                    atoms[("b", l[1], l[2])] = l
                    atoms[("b", l[1], not l[2])] = ("b", l[1], not l[2])
        BIG = 1 << 40

        def noisy(l):
            return l[0] in ("le", "eq", "ne") and (abs(l[1].c) > BIG or any(abs(c) > BIG for c in l[1].t.values()))

        lits = [l for l in atoms.values() if not noisy(l)]
        # pre-images: a guard that held before a step x' = x + c still holds of x' - c afterwards
        pre_lits = []
        for s2, r, newv, n0 in res:
            imap, bmap = self.post_maps(newv, isyms, bsyms)
            shift = {}
            for a in isyms.values():
                d = imap[a] - Lin.atom(a)
                if d.is_const() and d.c != 0:
                    shift[a] = Lin.atom(a) - d.c
            if not shift:
                continue
            for l in lits:
                if l[0] in ("le", "eq", "ne"):
                    l2 = (l[0], subst_deep(l[1], shift))
                    if (l2[0], l2[1].key()) not in atoms and l2 not in pre_lits:
                        pre_lits.append(l2)
        singles = [flit(l) for l in lits + pre_lits]
        for a in isyms.values():
            A_ = Lin.atom(a)
            singles.append(flit(ge(A_, inits_i[a])))
            singles.append(flit(le(A_, inits_i[a])))
        for l in lits:
            if l[0] == "le":
                # relaxation by one (x <= c -> x <= c+1) catches counters that overshoot their guard once
                singles.append(flit(("le", l[1] - 1)))
        # a counter that only moves in steps of c stays congruent to its initial value modulo c
        for s2, r, newv, n0 in res:
            imap, bmap = self.post_maps(newv, isyms, bsyms)
            for a in isyms.values():
                d = imap[a] - Lin.atom(a)
                if d.is_const() and abs(d.c) > 1:
                    singles.append(flit(eq(Lin.atom(("mod", (Lin.atom(a) - inits_i[a]).key(), abs(d.c))), 0)))
        # a counter dominated by another counter (an item count below an iterator position)
        ivals = list(isyms.values())
        for a1 in ivals:
            for a2 in ivals:
                if a1 != a2:
                    singles.append(flit(le(Lin.atom(a1), Lin.atom(a2))))

        def houdini(cands, assumed):
            cands = [c for c in cands if c not in (TRUE, FALSE)]
            uniq = {}
            for c in cands:
                uniq.setdefault(repr(c), c)
            cands = [c for c in uniq.values() if solver.entails(self.st.pc, self.subst_formula(c, inits_i, inits_b))]
            rounds = 0
            while True:
                rounds += 1
                key, res = self.step(cur, assumed + cands, extra, True)
                keep = []
                for c in cands:
                    good = True
                    for s2, r, newv, n0 in res:
                        imap, bmap = self.post_maps(newv, isyms, bsyms)
                        if not solver.entails(s2.pc, self.subst_formula(c, imap, bmap)):
                            good = False
                            break
                    if good:
                        keep.append(c)
                if len(keep) == len(cands) or rounds > 12:
                    return keep
                cands = keep

        inv1 = houdini(singles, [])
        have = {repr(c) for c in inv1}
        rest = [l for l in lits + pre_lits if repr(flit(l)) not in have]
        pairs = []
        for l1, l2 in itertools.combinations(rest, 2):
            f = f_or(flit(l1), flit(l2))
            if f == TRUE or solver.entails(inv1_lits(inv1), f):
                continue
            pairs.append(f)
        inv2 = houdini(pairs, inv1) if pairs else []
        # keep only disjunctions that are not implied by the others (fewer case splits)
        inv2 = inv2[:8]
        have = {repr(c) for c in inv1}
        more = houdini([c for c in singles if repr(c) not in have], inv1 + inv2) if inv2 else []
        base_l = inv1_lits(inv1 + more)
        inv2 = [f for f in inv2 if not solver.entails(base_l, f)]
        cands = inv1 + more + inv2
        rep.invariant = [show_formula(c) for c in cands]
        # final, recorded step
        key, res = self.step(cur, cands, extra, False)
        A = {p: Lin.atom(a) for p, a in isyms.items()}
        order = list(isyms.keys())
        prog_ok = True
        measures = []
        fused = True
        chain_ok = True if chain_field is not None else None
        for s2, r, newv, n0 in res:
            imap, bmap = self.post_maps(newv, isyms, bsyms)
            outcome = r.variant if isinstance(r, StructV) else "?"
            rep.transitions.append((list(s2.pc[n0:]), outcome, {".".join(p): imap.get(a) for p, a in isyms.items()},
                                    {".".join(p): bmap.get(b[1]) for p, b in bsyms.items()}, s2, r))
            rep.post_values.append(newv)
            if outcome in ("Some", "Back"):
                if outcome == "Some":
                    rep.yields.append((s2, r.fields["0"]))
                # lexicographic progress in declaration order, each increasing component bounded
                found = None
                for j, p in enumerate(order):
                    a = isyms[p]
                    newj = imap[a]
                    conds = [flit(ge(newj, A[p] + 1))]
                    for q in order[:j]:
                        conds.append(flit(ge(imap[isyms[q]], A[q])))
                    if solver.entails(s2.pc, f_and(*conds)):
                        # bound on the increasing component in the pre-state
                        b = self.find_bound(s2, A[p])
                        if b is not None:
                            found = (".".join(p), b)
                            break
                if found is None:
                    prog_ok = False
                    measures.append(None)
                else:
                    measures.append(found)
            elif outcome == "None":
                # fused: state unchanged or still mapping to None (checked by C11 for Compound)
                pass
            if chain_field is not None:
                p, a = chain_field
                m = {chain["atom"]: A[p]}
                stepv = subst_deep(chain["step"], m)
                over_now = [bmap[b[1]] for b in bsyms.values() if b[1] in bmap]
                goal = f_or(flit(eq(imap[a], stepv)), flit(eq(imap[a], A[p])), *over_now)
                ok = solver.entails(s2.pc, goal)
                if not ok:
                    chain_ok = False
                rep.transitions[-1] = rep.transitions[-1] + (("recurrence-agreement", ok, goal),)
        rep.progress_ok = prog_ok
        rep.progress = measures
        rep.chain_ok = chain_ok
        rep.pre = (cur, cands)
        return rep

    def find_bound(self, s, x):
        """an entailed bound x <= len(S) + 64 for some buffer S in scope, or x <= 64"""
        if solver.entails_lit(s.pc, le(x, 64)):
            return "<= 64"
        lens = set()
        for l in s.pc:
            if l[0] in ("le", "eq", "ne"):
                for a in atoms_deep(l[1]):
                    if a[0] == "len":
                        lens.add(a)
        for a in lens:
            if solver.entails_lit(s.pc, le(x, Lin.atom(a) + 64)):
                return f"<= len({a[1]}) + 64"
        return None

    def post_maps(self, newv, isyms, bsyms):
        imap, bmap = {}, {}
        leaves = dict(self.leaves(newv))
        for p, a in isyms.items():
            nv = leaves.get(p)
            imap[a] = nv.l if isinstance(nv, IntV) else Lin.atom(("opq", self.I.fresh("lost"), a[2]))
        for p, b in bsyms.items():
            nv = leaves.get(p)
            bmap[b[1]] = nv.f if isinstance(nv, BoolV) else flit(("b", self.I.fresh("lostb"), True))
        return imap, bmap


def inv1_lits(fs):
    out = []
    for f in fs:
        if f[0] == "lit":
            out.append(f[1])
    return out


def validated_recurrence(I, fn_name):
    vr = _validated_recurrence(I, fn_name)
    if vr is None:
        return None
    # a loop that counts the bytes still to go (`remaining`, starting at len) instead of the offset reached: the same
    # recurrence in the variable offset = len - remaining
    init = vr["init"]
    sa = lin(init).single_atom() if not lin(init).is_const() else None
    if sa and sa[1] == 1 and sa[0][0] == "len" and lin(init) == Lin.atom(sa[0]):
        LEN = Lin.atom(sa[0])
        old = vr["atom"]
        new_atom = ("sym", old[1] + "~offset", old[2])
        m = {old: LEN - Lin.atom(new_atom)}
        sub = lambda L: subst_deep(L, m)
        out = dict(vr)
        out["atom"] = new_atom
        out["init"] = lin(0)
        out["facts"] = [(l[0], sub(l[1])) for l in vr["facts"]]
        out["guard"] = [(l[0], sub(l[1])) for l in vr["guard"]]
        out["step"] = LEN - sub(vr["step"])
        out["final"] = LEN - sub(vr["final"])
        out["returns"] = [(k, v, [(l[0], sub(l[1])) if l[0] in ("le", "eq", "ne") else l for l in d]) for k, v, d in vr["returns"]]
        out["renamed"] = m
        # the old variable was an unsigned integer: 0 <= len - offset is now an explicit fact
        rng = ("le", Lin.atom(new_atom) - LEN)
        out["renamed_facts"] = [rng]
        out["facts"] = out["facts"] + [rng]
        return out
    return vr


def _validated_recurrence(I, fn_name):
    """from the loop reports of a constructor: a loop with one carried integer, one back-edge path,
    whose other exits are all returns — its per-iteration facts hold at every point of the chain
    o0, step(o0), ... at which the guard held, on every path that reaches the code after the loop"""
    for rep in I.loop_reports:
        if rep.kind != "loop":
            continue
        if len(rep.carried) != 1 or len(rep.backs) != 1:
            continue
        atom, init = rep.carried[0]
        delta, new = rep.backs[0]
        if new.get(atom) is None:
            continue
        facts = [l for l in delta if l[0] in ("le", "eq", "ne")]
        if not facts:
            continue
        # every exit other than a return must be the guard failing
        okx = True
        for k, _, d in rep.exit_kinds:
            if k == "ret":
                continue
            if not solver.entails(d, f_not(flit(facts[0]))):
                okx = False
        if not okx:
            continue
        # the guard is the first literal of the back-edge path (while cond)
        return {"atom": atom, "init": init, "facts": facts, "guard": facts[:1], "step": new[atom], "loop": rep.span,
                "returns": rep.exit_kinds, "final": Lin.atom(atom), "form": "while"}
    # the same recurrence written with the test at the end of the body (`loop { checks; o += L; if o >= len { break } }`)
    for rep in I.loop_reports:
        if rep.kind != "loop" or len(rep.carried) != 1 or len(rep.backs) != 1:
            continue
        atom, init = rep.carried[0]
        delta, new = rep.backs[0]
        if new.get(atom) is None:
            continue
        brks = [d for k, _, d in rep.exit_kinds if k == "brk"]
        if not brks or any(k not in ("ret", "brk") for k, _, _ in rep.exit_kinds):
            continue
        back = [l for l in delta if l[0] in ("le", "eq", "ne")]
        keyset = lambda ls: {(l[0], l[1].key()) for l in ls if l[0] in ("le", "eq", "ne")}
        common = None
        cont = None
        okd = True
        for d in brks:
            cm = [l for l in back if (l[0], l[1].key()) in keyset(d)]
            only_back = [l for l in back if (l[0], l[1].key()) not in keyset(d)]
            only_brk = [l for l in d if l[0] in ("le", "eq", "ne") and (l[0], l[1].key()) not in keyset(back)]
            if len(only_back) != 1 or len(only_brk) != 1 or only_back[0][0] != "le":
                okd = False
                break
            c = only_back[0]
            if not (solver.entails([c], f_not(flit(only_brk[0]))) and solver.entails([only_brk[0]], f_not(flit(c)))):
                okd = False
                break
            if cont is not None and cont[1].key() != c[1].key():
                okd = False
                break
            cont = c
            common = cm if common is None else [l for l in common if (l[0], l[1].key()) in keyset(cm)]
        if not okd or cont is None:
            continue
        # cont is G(step(o)) for a guard G(x): x + R <= 0 with R independent of the chain point
        R = cont[1] - new[atom]
        dep = False
        for a in atoms_deep(R):
            if a == atom or (a[0] == "byte" and atom in atoms_deep(Lin.from_key(a[2]))):
                dep = True
        if dep:
            continue
        guard = ("le", Lin.atom(atom) + R)
        if not solver.entails(list(rep.inv_lits), flit(guard)):
            continue      # the guard must hold at every visit of the loop head (inductive invariant found by the loop analysis)
        facts = [guard] + [l for l in common if (l[0], l[1].key()) != (guard[0], guard[1].key())]
        return {"atom": atom, "init": init, "facts": facts, "guard": [guard], "step": new[atom], "loop": rep.span,
                "returns": rep.exit_kinds, "final": new[atom], "form": "do-while"}
    return None


def walk_exprs(e, fn):
    """pre-order walk over a dumped THIR tree"""
    if isinstance(e, dict):
        fn(e)
        for v in e.values():
            if isinstance(v, (dict, list)):
                walk_exprs(v, fn)
    elif isinstance(e, list):
        for v in e:
            walk_exprs(v, fn)


def literal_sites(F):
    """adt def -> set of body defs containing a struct literal / constructor call of that ADT"""
    out = {}
    for d, b in F.bodies.items():
        def visit(e, d=d):
            k = e.get("k")
            if k == "Adt":
                out.setdefault(e["adt"], set()).add(d)
            elif k in ("Call", "FnRef") and e.get("fn"):
                f = e["fn"]
                parent = f.rpartition("::")[0]
                if f in F.adts:
                    out.setdefault(f, set()).add(d)
                elif parent in F.adts and any(v["name"] == f.rpartition("::")[2] for v in F.adts[parent]["variants"]):
                    out.setdefault(parent, set()).add(d)
        walk_exprs(b["body"], visit)
    return out
