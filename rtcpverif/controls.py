"""Controls for the thorough tier: a catalogue of source edits applied to scratch copies of /repo's *current working tree*
(never to /repo itself), on which the registered check is re-run.

  kind "break": an edit that compiles, keeps the 94 existing tests green and breaks the property (each was confirmed with a
                demonstration; the sub-agent-produced ones live under seeded/<id>/) — the check must exit 1 on the copy;
  kind "equiv": a behaviour-preserving rewrite — the check must stay silent on the copy.

A control that no longer applies to the tree (anchor text missing, patch rejected) is skipped and recorded; a control
whose outcome is not the expected one is recorded as a CONTROL-MISMATCH (a statement about the checker's sensitivity,
not a property violation of the tree: it never produces a VIOLATION line).  When the tree under test itself violates the
property the controls are not run (their outcome would be meaningless)."""
import json
import os
import shutil
import subprocess
import tempfile
import concurrent.futures as cf

from . import facts

VERIF = facts.VERIF

# (name, file, old, new) — behaviour-preserving rewrites; every one is silent for all twenty checks on the pinned tree
EQUIV = [
    ("pad4-div-mul", "src/utils.rs", "(num + 3) & !3", "(num + 3) / 4 * 4"),
    ("version-mask-shift", "src/utils.rs", "packet[0] >> 6", "(packet[0] & 0xc0) >> 6"),
    ("length-mul-add", "src/utils.rs", "4 * (super::u16_from_be_bytes(&packet[2..4]) as usize + 1)",
     "(super::u16_from_be_bytes(&packet[2..4]) as usize) * 4 + 4"),
    ("truncated-flip", "src/utils.rs", "if packet.len() < length {", "if length > packet.len() {"),
    ("padbit-eq", "src/utils.rs", "(packet[0] & 0x20) != 0", "packet[0] & 0x20 == 0x20"),
    ("bye-reason-flip", "src/bye.rs", "if reason_len_offset + 1 + reason_len > data.len() {",
     "if data.len() < reason_len + reason_len_offset + 1 {"),
    ("bye-offset-commute", "src/bye.rs", "let offset = self.count() as usize * 4 + 4;", "let offset = 4 + 4 * self.count() as usize;"),
    ("bye-fill-unconditional", "src/bye.rs", "            if end > idx {\n                buf[idx..end].fill(0);\n            }",
     "            buf[idx..end].fill(0);"),
    ("padding-two-step", "src/utils.rs", "            buf[0..end - 1].fill(0);\n            buf[end - 1] = padding;",
     "            buf[0..end].fill(0);\n            buf[end - 1] = padding;"),
    ("app-data-end-local", "src/app.rs", "&self.data[12..self.data.len() - self.padding().unwrap_or(0) as usize]",
     "{ let end = self.data.len() - self.padding().map_or(0, |p| p as usize); &self.data[12..end] }"),
    ("sdes-while-flip", "src/sdes.rs", "            while offset < end {", "            while end > offset {"),
    ("sdes-zero-skip-order", "src/sdes.rs", "while offset < data.len() && offset % 4 != 0 && data[offset] == 0 {",
     "while offset % 4 != 0 && offset < data.len() && data[offset] == 0 {"),
    ("sdes-aligned-mod", "src/sdes.rs", "        if pad_to_4bytes(offset) != offset {", "        if offset % 4 != 0 {"),
    ("sdes-length-loop", "src/sdes.rs", """        let len = Self::MIN_LEN
            + self
                .items
                .iter()
                .fold(0, |acc, item| acc + 2 + item.length());
        pad_to_4bytes(len + 1)""", """        let mut len = Self::MIN_LEN;
        for item in self.items.iter() {
            len += 2 + item.length();
        }
        pad_to_4bytes(len + 1)"""),
    ("bye-ssrcs-double-slice", "src/bye.rs", "self.data[4..4 + self.count() as usize * 4]", "self.data[4..][..self.count() as usize * 4]"),
    ("bye-writer-loop-idx", "src/bye.rs", """            end += 4;
            buf[idx..end].copy_from_slice(&ssrc.to_be_bytes());
            idx = end;""", """            buf[idx..idx + 4].copy_from_slice(&ssrc.to_be_bytes());
            idx += 4;
            end = idx;"""),
    ("header-len-two-stores", "src/utils.rs", "        buf[2..4].copy_from_slice(&((len / 4 - 1) as u16).to_be_bytes());",
     "        let l = (len / 4 - 1) as u16;\n        buf[2] = (l >> 8) as u8;\n        buf[3] = (l & 0xff) as u8;"),
    ("padding-cmp-flip", "src/utils.rs", "if padding == 0 || padding as usize > packet.len() - P::MIN_PACKET_LEN {",
     "if padding == 0 || packet.len() - P::MIN_PACKET_LEN < padding as usize {"),
    ("compound-header-room", "src/compound.rs", "            if data.len() < offset + Unknown::MIN_PACKET_LEN {",
     "            if data.len() - offset < Unknown::MIN_PACKET_LEN {"),
    ("compound-next-flip", "src/compound.rs", "        if self.offset >= self.data.len() {", "        if self.data.len() <= self.offset {"),
    ("nack-idx-bound", "src/feedback/nack.rs", "            if idx + 3 >= self.parser.data.len() {", "            if idx + 4 > self.parser.data.len() {"),
    ("nack-mask-test", "src/feedback/nack.rs", "                if (mask & 0x1) > 0 {", "                if mask & 1 == 1 {"),
    ("nack-enc-ge1", "src/feedback/nack.rs", "                if diff > 0 {", "                if diff >= 1 {"),
    ("nack-encode-shifts", "src/feedback/nack.rs", """        ((base & 0xff00) >> 8) as u8,
        (base & 0xff) as u8,""", """        (base >> 8) as u8,
        base as u8,"""),
    ("bye-reason-map-or-from", "src/bye.rs", ".checked_sub(offset + 1 + self.padding().unwrap_or(0) as usize)?;",
     ".checked_sub(offset + 1 + self.padding().map_or(0, usize::from))?;"),
    ("sr-size-product", "src/sender.rs", """        let mut report_blocks_size = 0;
        for rb in self.report_blocks.iter() {
            report_blocks_size += rb.calculate_size()?;
        }
""", """        for rb in self.report_blocks.iter() {
            rb.calculate_size()?;
        }
        let report_blocks_size = self.report_blocks.len() * ReportBlock::EXPECTED_SIZE;
"""),
    ("sr-writer-enumerate", "src/sender.rs", """        let mut idx = 28;
        let mut end = idx;
        for report_block in self.report_blocks.iter() {
            end += ReportBlock::EXPECTED_SIZE;
            report_block.write_into_unchecked(&mut buf[idx..end]);
            idx = end;
        }
""", """        for (i, report_block) in self.report_blocks.iter().enumerate() {
            let start = 28 + i * ReportBlock::EXPECTED_SIZE;
            report_block.write_into_unchecked(&mut buf[start..start + ReportBlock::EXPECTED_SIZE]);
        }
        let idx = 28 + self.report_blocks.len() * ReportBlock::EXPECTED_SIZE;
        let mut end = idx;
"""),
    ("rb-parse-cmp", "src/report_block.rs", """        if data.len() < Self::EXPECTED_SIZE {
            return Err(RtcpParseError::Truncated {
                expected: Self::EXPECTED_SIZE,
                actual: data.len(),
            });
        }
        if data.len() > Self::EXPECTED_SIZE {
            return Err(RtcpParseError::TooLarge {
                expected: Self::EXPECTED_SIZE,
                actual: data.len(),
            });
        }
""", """        match data.len().cmp(&Self::EXPECTED_SIZE) {
            std::cmp::Ordering::Less => {
                return Err(RtcpParseError::Truncated {
                    expected: Self::EXPECTED_SIZE,
                    actual: data.len(),
                })
            }
            std::cmp::Ordering::Greater => {
                return Err(RtcpParseError::TooLarge {
                    expected: Self::EXPECTED_SIZE,
                    actual: data.len(),
                })
            }
            std::cmp::Ordering::Equal => {}
        }
"""),
    ("sr-req-len-from", "src/sender.rs", "Self::MIN_PACKET_LEN + parser::parse_count(data) as usize * ReportBlock::EXPECTED_SIZE;",
     "Self::MIN_PACKET_LEN + usize::from(parser::parse_count(data)) * 24;"),
    ("sr-blocks-double-slice", "src/sender.rs", "self.data[Self::MIN_PACKET_LEN..Self::MIN_PACKET_LEN + (self.n_reports() as usize * 24)]",
     "self.data[Self::MIN_PACKET_LEN..][..self.n_reports() as usize * 24]"),
    ("rb-cumulative-bytes", "src/report_block.rs", "u32_from_be_bytes(&self.data[4..8]) & 0xffffff",
     "(u32::from(self.data[5]) << 16) | (u32::from(self.data[6]) << 8) | u32::from(self.data[7])"),
    ("sdes-item-len-from", "src/sdes.rs", "        let length = data[1] as usize;", "        let length = usize::from(data[1]);"),
    ("sdes-item-end-flip", "src/sdes.rs", "        if end > data.len() {", "        if data.len() < end {"),
    ("sdes-priv-check-len", "src/sdes.rs", "            if value_offset as usize > end {", "            if usize::from(value_offset) > item.data.len() {"),
    ("sdes-value-split-at", "src/sdes.rs", "            &self.data[offset..]", "            self.data.split_at(offset).1"),
    ("bye-writer-while-let", "src/bye.rs", "        for ssrc in self.sources.iter() {",
     "        let mut sources = self.sources.iter();\n        while let Some(ssrc) = sources.next() {"),
    ("nack-size-manual-count", "src/feedback/nack.rs", "        let entries = self.entries().count();",
     "        let mut entries = 0;\n        for _ in self.entries() {\n            entries += 1;\n        }"),
    ("sdes-chunk-length-sum", "src/sdes.rs", """                .fold(0, |acc, item| acc + 2 + item.length());""",
     """                .map(|item| 2 + item.length())\n                .sum::<usize>();"""),
    ("compound-last-if", "src/compound.rs", "        let last = self.packets.len().saturating_sub(1);",
     "        let last = if self.packets.is_empty() { 0 } else { self.packets.len() - 1 };"),
    ("compound-padding-is-some-and", "src/compound.rs", "            if packet.get_padding().unwrap_or(0) > 0 && idx != last {",
     "            if idx != last && packet.get_padding().is_some_and(|p| p > 0) {"),
    ("compound-writer-local-end", "src/compound.rs", "            offset += packet.write_into_unchecked(&mut buf[offset..offset + req_size]);",
     "            let end = offset + req_size;\n            packet.write_into_unchecked(&mut buf[offset..end]);\n            offset = end;"),
    ("sdes-writer-split", "src/sdes.rs", "            idx += chunk.write_into_unchecked(&mut buf[idx..]);",
     "            let n = chunk.write_into_unchecked(&mut buf[idx..]);\n            idx += n;"),
    ("sdes-size-explicit-add", "src/sdes.rs", "            chunks_size += chunk.calculate_size()?;",
     "            let sz = chunk.calculate_size()?;\n            chunks_size = chunks_size + sz;"),
]

# (name, file, old, new, properties expected to report) — hand-written breaking edits (the sub-agent ones are in seeded/)
BREAK = [
]


def _copy_tree(dst):
    for f in ("Cargo.toml", "Cargo.lock", "src", "tests"):
        p = os.path.join(facts.REPO, f)
        if os.path.isdir(p):
            shutil.copytree(p, os.path.join(dst, f))
        elif os.path.exists(p):
            shutil.copy(p, dst)


def _run(prop, tmp):
    env = dict(os.environ, RTCP_REPO=tmp, RTCP_EVIDENCE_DIR=os.path.join(tmp, "evidence"), VERIF_TIER="quick", RTCP_NO_CONTROLS="1")
    r = subprocess.run([os.path.join(VERIF, "check"), prop, "--tier", "quick"], env=env, capture_output=True, text=True)
    rules = []
    lines = r.stdout.splitlines()
    for i, l in enumerate(lines):
        if l.startswith("VIOLATION") and i + 1 < len(lines):
            rules.append(lines[i + 1].strip()[:200])
    return r.returncode, rules


def _text_control(prop, name, file, old, new):
    tmp = tempfile.mkdtemp(prefix="rtcpctl")
    try:
        _copy_tree(tmp)
        fp = os.path.join(tmp, file)
        try:
            s = open(fp).read()
        except OSError:
            return name, "skipped", "file missing", []
        if s.count(old) != 1:
            return name, "skipped", f"anchor occurs {s.count(old)} times", []
        open(fp, "w").write(s.replace(old, new))
        rc, rules = _run(prop, tmp)
        return name, rc, "", rules
    finally:
        shutil.rmtree(tmp, ignore_errors=True)


def _patch_control(prop, name, patch):
    tmp = tempfile.mkdtemp(prefix="rtcpctl")
    try:
        _copy_tree(tmp)
        r = subprocess.run(["patch", "-p1", "-s", "-f", "--no-backup-if-mismatch", "-i", patch], cwd=tmp, capture_output=True, text=True)
        if r.returncode != 0:
            return name, "skipped", "patch does not apply to this tree", []
        rc, rules = _run(prop, tmp)
        return name, rc, "", rules
    finally:
        shutil.rmtree(tmp, ignore_errors=True)


# repairs of recorded findings: on a scratch copy with the repair applied the check must exit 0 *and* print no
# KNOWN-FINDING line (the finding is reported because the tree has it, not because the file lists it)
REPAIRS = [
    ("repair/D11", "seeded/repair/D11.diff", ("C03", "C04", "C05", "C07", "C16", "C19")),
]


# correct feature additions (sub-agents, DESIGN §8): property-preserving extensions that must leave every check silent
FEATURES = ["F2", "F4", "F5", "F7", "F8"]


def _repair_control(prop, name, patch):
    tmp = tempfile.mkdtemp(prefix="rtcpctl")
    try:
        _copy_tree(tmp)
        r = subprocess.run(["patch", "-p1", "-s", "-f", "--no-backup-if-mismatch", "-i", patch], cwd=tmp, capture_output=True, text=True)
        if r.returncode != 0:
            return name, "skipped", "patch does not apply to this tree", []
        env = dict(os.environ, RTCP_REPO=tmp, RTCP_EVIDENCE_DIR=os.path.join(tmp, "evidence"), VERIF_TIER="quick", RTCP_NO_CONTROLS="1")
        r = subprocess.run([os.path.join(VERIF, "check"), prop, "--tier", "quick"], env=env, capture_output=True, text=True)
        known = [l[:200] for l in r.stdout.splitlines() if l.startswith("KNOWN-FINDING")]
        viol = [l[:200] for l in r.stdout.splitlines() if l.startswith("VIOLATION")]
        rc = r.returncode if r.returncode != 0 else (3 if known else 0)
        return name, rc, "", (viol + known)
    finally:
        shutil.rmtree(tmp, ignore_errors=True)


def seeded_for(prop):
    out = []
    sd = os.path.join(VERIF, "seeded")
    for sid in sorted(os.listdir(sd)) if os.path.isdir(sd) else []:
        mp = os.path.join(sd, sid, "meta.json")
        if not os.path.exists(mp):
            continue
        m = json.load(open(mp))
        if prop in m.get("caught_by", []):
            out.append((f"seeded/{sid}", os.path.join(sd, sid, "patch.diff")))
    return out


def anchor_files(prop):
    """source files the property is anchored in (properties.jsonl); None if unknown"""
    try:
        for l in open(os.path.join(VERIF, "properties.jsonl")):
            p = json.loads(l)
            if p["id"] == prop:
                return set(p.get("anchors", {}).get("files", [])) or None
    except OSError:
        pass
    return None


def run(ctx, res, prop, equiv_names=None, max_workers=8):
    """run the controls for `prop`; record the outcome in the evidence (res.controls)"""
    from . import core
    if core.new_violations(res):
        res.controls = {"skipped": "the tree under test reports violations; controls not run"}
        return
    jobs = []
    with cf.ThreadPoolExecutor(max_workers=max_workers) as ex:
        for name, patch in seeded_for(prop):
            jobs.append(("break", ex.submit(_patch_control, prop, name, patch)))
        for name, file, old, new, props in BREAK:
            if prop in props:
                jobs.append(("break", ex.submit(_text_control, prop, name, file, old, new)))
        for name, patch, props in REPAIRS:
            if prop in props:
                jobs.append(("repair", ex.submit(_repair_control, prop, name, os.path.join(VERIF, patch))))
        for k in FEATURES:
            fp = os.path.join(VERIF, "seeded", "feature", k + ".diff")
            if os.path.exists(fp) and equiv_names is None:
                jobs.append(("equiv", ex.submit(_patch_control, prop, f"feature/{k}", fp)))
        files = anchor_files(prop)
        for name, file, old, new in EQUIV:
            # only rewrites of code the property is anchored in (src/utils.rs is shared by every parser and writer)
            if (equiv_names is None or name in equiv_names) and (files is None or file in files or file == "src/utils.rs"):
                jobs.append(("equiv", ex.submit(_text_control, prop, name, file, old, new)))
        out = {"break": [], "equiv": [], "repair": [], "mismatch": [], "skipped": []}
        for kind, fut in jobs:
            name, rc, why, rules = fut.result()
            if rc == "skipped":
                out["skipped"].append({"control": name, "why": why})
                continue
            expect = 1 if kind == "break" else 0
            rec = {"control": name, "exit": rc, "reports": rules[:3]}
            out[kind].append(rec)
            if rc != expect:
                out["mismatch"].append(rec)
                print(f"CONTROL-MISMATCH property={prop} control={name} kind={kind} exit={rc}")
    res.controls = out
    print(f"  controls: {len(out['break'])} breaking edits reported, {len(out['equiv'])} equivalent rewrites silent, {len(out['repair'])} repairs of recorded findings silent, "
          f"{len(out['mismatch'])} mismatches, {len(out['skipped'])} skipped")
