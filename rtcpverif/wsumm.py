"""Writer-side summaries: SIZE(B) = outcomes of calculate_size, WRITE(B) = write log, return value and
obligations of write_into_unchecked under SIZE(B) = Ok(n) and a buffer of n bytes (or more)."""
from . import solver
from .analysis import Disc, WRITER_TRAIT, FCI_BUILDER
from .interp import Interp, State, Unmodelled
from .lin import Lin, eq, f_and, f_not, f_or, flit, ge, gt, le, lin, lt, ne, show_formula, show_pc
from .values import *

BUF = "B"


class Builder:
    def __init__(self, adt, cs, wr, gp, kind):
        self.adt, self.cs, self.wr, self.gp, self.kind = adt, cs, wr, gp, kind
        self.name = adt.split("::")[-1]


def discover(F):
    """[(Builder)] every type with a calculate_size / write_into_unchecked pair"""
    D = Disc(F)
    out = []
    fci = set(D.impls_of(FCI_BUILDER))
    for adt in D.impls_of(WRITER_TRAIT):
        out.append(Builder(adt, D.impl_item(WRITER_TRAIT, adt, "calculate_size"), D.impl_item(WRITER_TRAIT, adt, "write_into_unchecked"),
                           D.impl_item(WRITER_TRAIT, adt, "get_padding"), "fci" if adt in fci else "packet"))
    have = {b.adt for b in out}
    for adt in F.adts:
        if adt in have:
            continue
        items = {it["name"]: it["def"] for it in D.inherent(adt)}
        if "calculate_size" in items and "write_into_unchecked" in items:
            out.append(Builder(adt, items["calculate_size"], items["write_into_unchecked"], None, "sub"))
            continue
        # element builders whose size / unchecked-write pair carries other (private) names: recognised by signature —
        # `fn(&self) -> Result<usize, RtcpWriteError>` and `fn(&self, &mut [u8]) -> usize`, when there is exactly one of each
        if not adt.endswith("Builder"):
            continue
        sizes, writers = [], []
        for it in D.inherent(adt):
            b = F.bodies.get(it["def"])
            if not b or b.get("ret") is None or not b["params"] or not b["params"][0].get("self"):
                continue
            ps = [F.types[p["t"]]["s"] for p in b["params"]]
            rs = F.types[b["ret"]]["s"]
            if len(ps) == 1 and ps[0].startswith("&") and not ps[0].startswith("&mut") and "Result<usize, RtcpWriteError>" in rs:
                sizes.append(it["def"])
            if len(ps) == 2 and ps[0].startswith("&") and not ps[0].startswith("&mut") and ps[1] == "&mut [u8]" and rs == "usize":
                writers.append(it["def"])
        if len(sizes) == 1 and len(writers) == 1:
            out.append(Builder(adt, sizes[0], writers[0], None, "sub"))
    return out


class WriteCase:
    """one Ok outcome of calculate_size and the write outcomes under it"""

    def __init__(self, size_state, n):
        self.size_state, self.n = size_state, n
        self.outs = []        # (state, returned IntV/other)
        self.obligations = []
        self.unmodelled = []
        self.loop_reports = []


class Summary:
    def __init__(self, F, B, exact=True, slack=None):
        self.F, self.B = F, B
        self.I = Interp(F)
        I = self.I
        D = Disc(F)
        self.b = I.symbolic(D.ty_index_of_adt(B.adt), ("b",))
        self.size_outs = []
        self.size_obligations = []
        self.cases = []
        self.error = None
        try:
            outs = I.run(B.cs, [self.b])
        except Unmodelled as ex:
            self.error = str(ex)
            return
        self.size_obligations = list(I.obligations)
        self.size_unmodelled = list(I.unmodelled)
        self.size_loops = list(I.loop_reports)
        for s, k, v in outs:
            if k != "val" or not isinstance(v, StructV) or not solver.feasible(s.pc):
                continue
            self.size_outs.append((s, v))
        for s, v in self.size_outs:
            if v.variant != "Ok" or not isinstance(v.fields["0"], IntV):
                continue
            n = v.fields["0"].l
            wc = WriteCase(s, n)
            I.obligations = []
            I.unmodelled = []
            I.loop_reports = []
            st = s.clone()
            LB = Lin.atom(("len", BUF))
            buf = SliceV(BUF, 0, LB)
            st.pc.append(eq(LB, n) if exact else ge(LB, n))
            try:
                wouts = I.inline(B.wr, None, st, [self.b, buf])
            except Unmodelled as ex:
                wc.unmodelled.append(("?", B.wr, str(ex)))
                wouts = []
            for s2, k2, r in wouts:
                if k2 == "val" and solver.feasible(s2.pc):
                    wc.outs.append((s2, r))
            wc.obligations = list(I.obligations)
            wc.unmodelled += list(I.unmodelled)
            wc.loop_reports = list(I.loop_reports)
            self.cases.append(wc)
