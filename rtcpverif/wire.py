"""Expressions over an input byte buffer, written from the RFC header definition (independent of
the crate's helpers): byte, big-endian word, version, padding bit, count, length field."""
from .lin import Lin, eq, f_and, f_not, f_or, flit, ge, gt, le, lin, lt, ne
from .values import SliceV


def byte(base, off):
    return Lin.atom(("byte", base, lin(off).key()))


def be(base, off, width):
    off = lin(off)
    out = Lin()
    for i in range(width):
        out = out + byte(base, off + i).scale(256 ** (width - 1 - i))
    return out


def view_byte(v, off):
    return byte(v.base, v.start + off)


def view_be(v, off, width):
    return be(v.base, v.start + off, width)


class Header:
    """RFC 3550 §6.4.1 first word of the packet held in view `v` (a SliceV)"""

    def __init__(self, v):
        self.v = v
        self.b0 = view_byte(v, 0)
        self.len = v.length()

    def version_is(self, n):
        # bits 7..6 of byte 0
        return f_and(flit(ge(self.b0, 64 * n)), flit(le(self.b0, 64 * n + 63)))

    def version_value(self):
        return Lin.atom(("div", self.b0.key(), 64))

    def pbit_set(self):
        # bit 5 of byte 0: (b0 mod 64) >= 32
        return flit(ge(Lin.atom(("mod", self.b0.key(), 64)), 32))

    def count(self):
        return Lin.atom(("mod", self.b0.key(), 32))

    def ptype(self):
        return view_byte(self.v, 1)

    def length_field_bytes(self):
        """4 * (BE16 at 2 + 1)"""
        return (view_be(self.v, 2, 2) + 1).scale(4)

    def last_byte_forms(self):
        """the final byte of the packet, addressed through the length field or through len()"""
        return [byte(self.v.base, self.v.start + self.length_field_bytes() - 1),
                byte(self.v.base, self.v.start + self.len - 1)]
