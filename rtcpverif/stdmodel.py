"""Contract models of the standard-library functions the crate calls (result, effect, panic
precondition).  One entry per callee; anything not listed here is reported as unmodelled."""
from . import bits as B
from . import solver
from .lin import (FALSE, INT_BITS, INT_MAX, INT_MIN, TRUE, Lin, eq, f_and, f_not, f_or, flit, ge, gt, le, lin, lt, ne)
from .values import *


def _is_bytes(v):
    return isinstance(v, (SliceV, ArrV))


class Models:
    def __init__(self, I):
        self.I = I
        self.table = {
            "core::slice::<impl [T]>::len": self.m_len,
            "std::vec::Vec::<T, A>::len": self.m_len,
            "core::str::<impl str>::len": self.m_len,
            "std::collections::HashMap::<K, V, S, A>::len": self.m_len,
            "std::collections::BTreeSet::<T, A>::len": self.m_len,
            "core::slice::<impl [T]>::is_empty": self.m_is_empty,
            "core::str::<impl str>::is_empty": self.m_is_empty,
            "std::vec::Vec::<T, A>::is_empty": self.m_is_empty,
            "core::slice::<impl [T]>::iter": self.m_iter,
            "std::collections::BTreeSet::<T, A>::iter": self.m_iter,
            "std::collections::HashMap::<K, V, S, A>::iter": self.m_iter,
            "core::slice::<impl [T]>::last": self.m_last,
            "core::slice::<impl [T]>::chunks_exact": self.m_chunks_exact,
            "core::slice::<impl [T]>::copy_from_slice": self.m_copy_from_slice,
            "core::slice::<impl [T]>::fill": self.m_fill,
            "core::str::<impl str>::as_bytes": self.m_as_bytes,
            "core::str::<impl str>::is_ascii": self.m_is_ascii,
            "std::borrow::Borrow::borrow": self.m_identity,
            "std::boxed::Box::<T>::new": self.m_identity,
            "std::borrow::Cow::<'_, B>::into_owned": self.m_identity,
            "std::ops::Deref::deref": self.m_identity,
            "std::convert::AsRef::as_ref": self.m_identity,
            "std::clone::Clone::clone": self.m_identity,
            "std::convert::Into::into": self.m_into,
            "std::convert::From::from": self.m_from,
            "std::convert::TryInto::try_into": self.m_try_into,
            "std::convert::TryFrom::try_from": self.m_try_from,
            "std::default::Default::default": self.m_default,
            "std::iter::IntoIterator::into_iter": self.m_into_iter,
            "std::iter::Iterator::by_ref": self.m_identity,
            "std::iter::Iterator::copied": lambda e, st, a: self.adapt("copied", e, st, a),
            "std::iter::Iterator::enumerate": lambda e, st, a: self.adapt("enumerate", e, st, a),
            "std::iter::Iterator::map": lambda e, st, a: self.adapt("map", e, st, a),
            "std::iter::Iterator::map_while": lambda e, st, a: self.adapt("map_while", e, st, a),
            "std::iter::Iterator::count": self.m_count,
            "std::iter::Iterator::fold": self.m_fold,
            "std::iter::Iterator::next": self.m_next,
            "std::iter::FromIterator::from_iter": self.m_from_iter,
            "std::ops::Try::branch": self.m_branch,
            "std::ops::FromResidual::from_residual": self.m_from_residual,
            "std::ops::Index::index": self.m_index,
            "std::ops::IndexMut::index_mut": self.m_index,
            "std::option::Option::<T>::map": self.m_opt_map,
            "std::option::Option::<T>::unwrap_or": self.m_unwrap_or,
            "std::option::Option::<T>::unwrap": self.m_unwrap,
            "std::option::Option::<T>::expect": self.m_unwrap,
            "std::option::Option::<T>::is_some": lambda e, st, a: self.m_is_variant(e, st, a, "Some"),
            "std::option::Option::<T>::is_none": lambda e, st, a: self.m_is_variant(e, st, a, "None"),
            "std::result::Result::<T, E>::expect": self.m_unwrap,
            "std::result::Result::<T, E>::unwrap": self.m_unwrap,
            "std::result::Result::<T, E>::is_err": lambda e, st, a: self.m_is_variant(e, st, a, "Err"),
            "std::result::Result::<T, E>::is_ok": lambda e, st, a: self.m_is_variant(e, st, a, "Ok"),
            "std::result::Result::<T, E>::map": self.m_res_map,
            "std::string::String::from_utf8": self.m_from_utf8,
            "std::vec::Vec::<T, A>::push": self.m_push,
            "std::vec::Vec::<T>::new": self.m_vec_new,
            "std::vec::Vec::<T>::with_capacity": self.m_vec_new,
            "std::collections::BTreeSet::<T, A>::insert": self.m_set_insert,
            "std::collections::HashMap::<K, V, S, A>::insert": self.m_map_insert,
            "std::collections::HashMap::<K, V, S, A>::remove": lambda e, st, a: self.m_coll_shrink(e, st, a, "remove"),
            "std::collections::BTreeSet::<T, A>::remove": lambda e, st, a: self.m_coll_shrink(e, st, a, "remove"),
            "std::collections::HashMap::<K, V, S, A>::clear": lambda e, st, a: self.m_coll_shrink(e, st, a, "clear"),
            "std::collections::BTreeSet::<T, A>::clear": lambda e, st, a: self.m_coll_shrink(e, st, a, "clear"),
            "std::vec::Vec::<T, A>::clear": lambda e, st, a: self.m_coll_shrink(e, st, a, "clear"),
            "std::collections::HashMap::<K, V, S, A>::entry": self.m_map_entry,
            "std::collections::hash_map::Entry::<'a, K, V, A>::and_modify": self.m_entry_and_modify,
            "std::collections::hash_map::Entry::<'a, K, V, A>::or_insert": self.m_entry_or_insert,
            "core::num::<impl usize>::checked_sub": self.m_checked_sub,
            "core::num::<impl usize>::saturating_sub": self.m_saturating_sub,
            "core::panicking::panic": self.m_panic,
            "core::panicking::panic_fmt": self.m_panic,
            "core::panicking::panic_explicit": self.m_panic,
            "core::panicking::unreachable_display": self.m_panic,
            "core::fmt::rt::Argument::<'_>::new_display": self.m_opaque,
            "core::fmt::rt::Argument::<'_>::new_debug": self.m_opaque,
            "std::fmt::Arguments::<'a>::from_str": self.m_opaque,
            "std::fmt::Arguments::<'a>::new": self.m_opaque,
            "std::fmt::Arguments::<'a>::new_const": self.m_opaque,
            "std::cmp::PartialEq::eq": self.m_eq,
            "std::cmp::PartialEq::ne": self.m_ne,
        }
        for w in ("u16", "u32", "u64", "u8", "usize"):
            self.table[f"core::num::<impl {w}>::to_be_bytes"] = self.m_to_be_bytes
            self.table[f"core::num::<impl {w}>::from_be_bytes"] = self.m_from_be_bytes
            self.table[f"core::num::<impl {w}>::to_le_bytes"] = self.m_to_le_bytes
            self.table[f"core::num::<impl {w}>::from_le_bytes"] = self.m_from_le_bytes
            self.table[f"core::num::<impl {w}>::wrapping_add"] = self.m_wrapping_add
            self.table[f"core::num::<impl {w}>::wrapping_sub"] = self.m_wrapping_sub
            self.table[f"core::num::<impl {w}>::checked_sub"] = self.m_checked_sub
            self.table[f"core::num::<impl {w}>::saturating_sub"] = self.m_saturating_sub
            self.table[f"core::num::<impl {w}>::checked_add"] = self.m_checked_add
            self.table[f"core::num::<impl {w}>::trailing_zeros"] = self.m_opaque_int
            self.table[f"core::num::<impl {w}>::count_ones"] = self.m_opaque_int
        from . import stdext
        self.ext = stdext.install(self)

    def call(self, e, st, args):
        m = self.table.get(e["fn"])
        if m is None:
            return self._ops_call(e, st, args)
        return m(e, st, args)

    _OPS = {"add": "Add", "sub": "Sub", "mul": "Mul", "div": "Div", "rem": "Rem", "bitand": "BitAnd", "bitor": "BitOr",
            "bitxor": "BitXor", "shl": "Shl", "shr": "Shr"}

    def _ops_call(self, e, st, args):
        """operator traits on integers called as functions, typically with a reference operand (`acc | b` with b: &u8,
        `<u8 as BitOr<&u8>>::bitor`): the primitive operator on the referenced values"""
        import re
        fn = e.get("resolved") or e["fn"]
        m = re.match(r"^<&?(?:'\w+ )?(\w+) as std::ops::(\w+)(?:<[^>]*>)?>::(\w+)$", fn)
        if not m or m.group(3) not in self._OPS or len(args) != 2:
            return None
        vals = []
        for a in args:
            if isinstance(a, RefV):
                a = self.I.read_loc(st, a.key, a.path)
            if isinstance(a, MemRefV):
                return None
            if not isinstance(a, IntV):
                return None
            vals.append(a)
        return [(s, "val", v) for s, v in self.I.binop(st, self._OPS[m.group(3)], vals[0], vals[1], e, vals[0].ty)]

    # ---------------------------------------------------------------- helpers
    def length_of(self, v):
        if isinstance(v, (SliceV, ArrV)):
            return v.length()
        if isinstance(v, CollV):
            return v.count()
        return None

    def ret_ty(self, e):
        return self.I.F.types[e["t"]]

    # ---------------------------------------------------------------- slices / collections
    def m_len(self, e, st, a):
        n = self.length_of(a[0])
        if n is None:
            return None
        return [(st, "val", IntV(n, "usize"))]

    def m_is_empty(self, e, st, a):
        n = self.length_of(a[0])
        if n is None:
            return None
        return [(st, "val", BoolV(flit(eq(n, 0))))]

    def m_iter(self, e, st, a):
        return self.m_into_iter(e, st, a)

    def m_into_iter(self, e, st, a):
        v = a[0]
        if isinstance(v, RefV):
            inner = self.I.read_loc(st, v.key, v.path)
            if isinstance(inner, IterV):
                return [(st, "val", v)]
            v = inner
        if isinstance(v, IterV):
            return [(st, "val", v)]
        if isinstance(v, SliceV):
            # `for x in &mut buf[..]` yields references to the bytes
            at = None
            try:
                at = self.I.F.types[e["args"][0]["t"]]["s"]
            except (KeyError, IndexError, TypeError):
                pass
            if at and at.startswith("&mut ") and e.get("name") == "into_iter":
                return [(st, "val", IterV(("bytes_mut", v)))]
            return [(st, "val", IterV(("bytes", v)))]
        if isinstance(v, ArrV):
            return [(st, "val", IterV(("items", tuple(v.items))))]
        if isinstance(v, CollV):
            return [(st, "val", IterV(("coll", v)))]
        if isinstance(v, StructV) and v.adt in ("std::ops::Range", "std::ops::RangeInclusive") and \
                isinstance(v.fields.get("start"), IntV) and isinstance(v.fields.get("end"), IntV):
            lo, hi, ty = v.fields["start"].l, v.fields["end"].l, v.fields["start"].ty
            if v.adt.endswith("RangeInclusive"):
                hi = hi + 1
            out = [(s, "val", IterV(("range", lo, hi, ty))) for s in self.I.assume(st, flit(le(lo, hi)))]
            out += [(s, "val", IterV(("range", lo, lo, ty))) for s in self.I.assume(st, flit(gt(lo, hi)))]
            return out
        if isinstance(v, StructV):
            return [(st, "val", IterV(("custom", v)))]
        return None

    def adapt(self, kind, e, st, a):
        it = a[0]
        if isinstance(it, RefV):
            it = self.I.read_loc(st, it.key, it.path)
        if not isinstance(it, IterV):
            if isinstance(it, StructV):
                it = IterV(("custom", it))
            else:
                return None
        # the adaptor sits on top of an iterator that may already be positioned past some elements (skip(..)): keep the position
        if kind == "map":
            return [(st, "val", IterV((kind, it.seq, a[1]), it.pos))]
        if kind == "map_while":
            if not (it.pos.is_const() and it.pos.c == 0):
                return None
            return [(st, "val", IterV((kind, it.seq, a[1])))]
        if kind == "enumerate":
            if not (it.pos.is_const() and it.pos.c == 0):
                return None      # indices would have to be rebased
            return [(st, "val", IterV((kind, it.seq)))]
        return [(st, "val", IterV((kind, it.seq), it.pos))]

    def m_last(self, e, st, a):
        v = a[0]
        if isinstance(v, CollV):
            n = v.count()
            out = []
            for s in self.I.assume(st, flit(gt(n, 0))):
                out.append((s, "val", some(self.I.loops.coll_elem(s, v, n - 1))))
            for s in self.I.assume(st, flit(eq(n, 0))):
                out.append((s, "val", NONE))
            return out
        return None

    def m_chunks_exact(self, e, st, a):
        sl, n = a
        if not isinstance(sl, SliceV) or not isinstance(n, IntV):
            return None
        out = []
        for s in self.I.oblige(st, flit(ne(n.l, 0)), "std-precondition", e, "chunks_exact(n): n != 0"):
            out.append((s, "val", IterV(("chunks", sl, n.l))))
        return out

    def m_copy_from_slice(self, e, st, a):
        dst, src = a
        if not isinstance(dst, SliceV) or not _is_bytes(src):
            return None
        out = []
        for s in self.I.oblige(st, flit(eq(dst.length(), src.length())), "std-precondition", e, "copy_from_slice: equal lengths"):
            from .interp import Write
            if isinstance(src, ArrV):
                w = Write(dst.start, dst.end, "bytes", list(src.items), span=self.I.span(e), fn=self.I.stack[-1])
            else:
                w = Write(dst.start, dst.end, "copy", src, span=self.I.span(e), fn=self.I.stack[-1])
            self.I.write(s, dst.base, w)
            out.append((s, "val", UNIT))
        return out

    def m_fill(self, e, st, a):
        dst, v = a
        if not isinstance(dst, SliceV):
            return None
        from .interp import Write
        self.I.write(st, dst.base, Write(dst.start, dst.end, "fill", v, span=self.I.span(e), fn=self.I.stack[-1]))
        return [(st, "val", UNIT)]

    def m_as_bytes(self, e, st, a):
        v = a[0]
        if isinstance(v, SliceV):
            return [(st, "val", SliceV(v.base, v.start, v.end))]
        return None

    def m_is_ascii(self, e, st, a):
        v = a[0]
        if isinstance(v, SliceV):
            return [(st, "val", BoolV(flit(("b", ("is_ascii", v.base, v.start.key(), v.end.key()), True))))]
        return None

    def m_identity(self, e, st, a):
        return [(st, "val", a[0])]

    def m_opaque(self, e, st, a):
        return [(st, "val", Opaque(e["fn"]))]

    def m_opaque_int(self, e, st, a):
        ty = self.I.int_ty(e) or "u32"
        return [(st, "val", self.I.fresh_int(e["name"], ty))]

    def m_index(self, e, st, a):
        sl, r = a
        if isinstance(sl, RefV):
            sl = self.I.read_loc(st, sl.key, sl.path)
        if isinstance(r, IntV):
            return [(s, "val", v) for s, v in self.I.index_read(st, sl, r, e)]
        if not isinstance(r, StructV):
            return None
        n = self.length_of(sl)
        if n is None:
            return None
        v = r.variant
        if any(not isinstance(x, IntV) for x in r.fields.values()):
            return None
        if v == "Range":
            lo, hi = r.fields["start"].l, r.fields["end"].l
        elif v == "RangeFrom":
            lo, hi = r.fields["start"].l, n
        elif v == "RangeTo":
            lo, hi = lin(0), r.fields["end"].l
        elif v == "RangeFull":
            lo, hi = lin(0), n
        elif v == "RangeInclusive":
            lo, hi = r.fields["start"].l, r.fields["end"].l + 1
        elif v == "RangeToInclusive":
            lo, hi = lin(0), r.fields["end"].l + 1
        else:
            return None
        out = []
        goal = f_and(flit(le(lo, hi)), flit(le(hi, n)))
        for s in self.I.oblige(st, goal, "slice-range", e):
            if isinstance(sl, SliceV):
                out.append((s, "val", SliceV(sl.base, sl.start + lo, sl.start + hi)))
            elif isinstance(sl, ArrV) and lo.is_const() and hi.is_const():
                out.append((s, "val", ArrV(sl.items[lo.c:hi.c])))
            else:
                out.append((s, "val", Opaque("range of collection")))
        return out

    # ---------------------------------------------------------------- integers
    def _be_bytes(self, v, n):
        w = 8 * n
        bits = B.to_bits(v.l, w)
        if bits is None:
            return None
        out = []
        for i in range(n):
            lo = 8 * (n - 1 - i)
            r = B.from_bits(bits[lo:lo + 8])
            if r is None:
                return None
            out.append(IntV(r, "u8"))
        return out

    def m_to_be_bytes(self, e, st, a):
        v = a[0]
        if not isinstance(v, IntV):
            return None
        n = INT_BITS[v.ty] // 8
        bs = self._be_bytes(v, n)
        if bs is None:
            return [(st, "val", ArrV([self.I.fresh_int("byte", "u8") for _ in range(n)]))]
        return [(st, "val", ArrV(bs))]

    def m_to_le_bytes(self, e, st, a):
        r = self.m_to_be_bytes(e, st, a)
        if r is None:
            return None
        s, k, v = r[0]
        return [(s, k, ArrV(list(reversed(v.items))))]

    def _bytes_of(self, st, v, e):
        """list of IntV bytes of a fixed-size array-like value"""
        if isinstance(v, ArrV):
            return list(v.items)
        if isinstance(v, SliceV):
            n = v.length()
            if n.is_const():
                return [self.I.read_byte(st, v.base, v.start + i, e) for i in range(n.c)]
        return None

    def m_from_be_bytes(self, e, st, a, little=False):
        bs = self._bytes_of(st, a[0], e)
        ty = self.I.int_ty(e) if isinstance(e.get("t"), int) else None
        if ty is None:
            # called through a function value (`.map(u16::from_be_bytes)`): the integer type is part of the path
            import re as _re
            m_ = _re.search(r"<impl (\w+)>::from_[bl]e_bytes", e.get("fn") or "")
            ty = m_.group(1) if m_ else None
        if bs is None or ty is None:
            return None
        if little:
            bs = list(reversed(bs))
        n = len(bs)
        allbits = []
        for i in range(n - 1, -1, -1):
            b = bs[i]
            bb = B.to_bits(b.l, 8) if isinstance(b, IntV) else None
            if bb is None:
                bb = [None] * 8
            allbits.extend(bb)
        r = B.from_bits(allbits)
        if r is None:
            return [(st, "val", self.I.fresh_int("be", ty))]
        return [(st, "val", IntV(r, ty))]

    def m_from_le_bytes(self, e, st, a):
        return self.m_from_be_bytes(e, st, a, little=True)

    def m_wrapping_add(self, e, st, a):
        x, y = a
        if not (isinstance(x, IntV) and isinstance(y, IntV)):
            return None
        r = x.l + y.l
        m = INT_MAX[x.ty] + 1
        if solver.entails(st.pc, flit(lt(r, m))):
            return [(st, "val", IntV(r, x.ty))]
        return [(st, "val", IntV(Lin.atom(("mod", r.key(), m)), x.ty))]

    def m_wrapping_sub(self, e, st, a):
        x, y = a
        if not (isinstance(x, IntV) and isinstance(y, IntV)):
            return None
        r = x.l - y.l
        m = INT_MAX[x.ty] + 1
        if solver.entails(st.pc, flit(ge(r, 0))):
            return [(st, "val", IntV(r, x.ty))]
        return [(st, "val", IntV(Lin.atom(("mod", r.key(), m)), x.ty))]

    def m_checked_sub(self, e, st, a):
        x, y = a
        if not (isinstance(x, IntV) and isinstance(y, IntV)):
            return None
        out = []
        for s in self.I.assume(st, flit(le(y.l, x.l))):
            out.append((s, "val", some(IntV(x.l - y.l, x.ty))))
        for s in self.I.assume(st, flit(lt(x.l, y.l))):
            out.append((s, "val", NONE))
        return out

    def m_checked_add(self, e, st, a):
        x, y = a
        if not (isinstance(x, IntV) and isinstance(y, IntV)):
            return None
        out = []
        mx = INT_MAX[x.ty]
        for s in self.I.assume(st, flit(le(x.l + y.l, mx))):
            out.append((s, "val", some(IntV(x.l + y.l, x.ty))))
        for s in self.I.assume(st, flit(gt(x.l + y.l, mx))):
            out.append((s, "val", NONE))
        return out

    def m_saturating_sub(self, e, st, a):
        x, y = a
        if not (isinstance(x, IntV) and isinstance(y, IntV)):
            return None
        out = []
        for s in self.I.assume(st, flit(le(y.l, x.l))):
            out.append((s, "val", IntV(x.l - y.l, x.ty)))
        for s in self.I.assume(st, flit(lt(x.l, y.l))):
            out.append((s, "val", IntV(0, x.ty)))
        return out

    # ---------------------------------------------------------------- panics
    def m_panic(self, e, st, a):
        self.I.oblige(st, FALSE, "panic-reachable", e)
        return []

    # ---------------------------------------------------------------- Option / Result / Try
    def _variant(self, st, v, names, e):
        """list of (state, StructV) alternatives for an Option/Result value"""
        if isinstance(v, RefV):
            v = self.I.read_loc(st, v.key, v.path)
        if isinstance(v, StructV):
            return [(st, v)]
        adt = "std::option::Option" if "Some" in names else "std::result::Result"
        out = []
        for n in names:
            s = st.clone()
            fields = {} if n == "None" else {"0": Opaque("payload of unknown " + n)}
            out.append((s, StructV(adt, n, fields)))
        return out

    def m_branch(self, e, st, a):
        v = a[0]
        t = self.I.F.types[e["gargs"][0]] if e.get("gargs") else None
        is_opt = bool(t and t.get("def") == "std::option::Option") or (isinstance(v, StructV) and v.variant in ("Some", "None"))
        names = ("Some", "None") if is_opt else ("Ok", "Err")
        out = []
        for s, sv in self._variant(st, v, names, e):
            if sv.variant in ("Ok", "Some"):
                out.append((s, "val", StructV("std::ops::ControlFlow", "Continue", {"0": sv.fields["0"]})))
            else:
                out.append((s, "val", StructV("std::ops::ControlFlow", "Break", {"0": sv})))
        return out

    def m_from_residual(self, e, st, a):
        r = a[0]
        if isinstance(r, StructV) and r.variant == "Err":
            payload = r.fields["0"]
            rt = self.ret_ty(e)
            if rt.get("def") == "std::result::Result" and isinstance(payload, StructV):
                ft = self.I.F.types[rt["args"][1]]
                if ft.get("k") == "adt" and ft["def"] != payload.adt:
                    conv = self.find_from_impl(payload.adt, ft["def"])
                    if conv:
                        outs = []
                        for s, k, v in self.I.inline(conv, None, st, [payload]):
                            outs.append((s, k, err(v)) if k == "val" else (s, k, v))
                        return outs
                    self.I.unmodelled_at(e, f"error conversion {payload.adt} -> {ft['def']}")
            return [(st, "val", r)]
        return [(st, "val", r)]

    def find_from_impl(self, src_adt, dst_adt):
        F = self.I.F
        for im in F.impls:
            if im["trait"] == "std::convert::From" and F.ty_key(im["self"]) == dst_adt:
                if im["trait_args"] and len(im["trait_args"]) > 1 and F.ty_key(im["trait_args"][1]) == src_adt:
                    for it in im["items"]:
                        if it["name"] == "from":
                            return it["def"]
        return None

    def m_opt_map(self, e, st, a):
        out = []
        for s, sv in self._variant(st, a[0], ("Some", "None"), e):
            if sv.variant == "Some":
                for s2, k, v in self.I.apply_fn(s, a[1], [sv.fields["0"]], e):
                    out.append((s2, k, some(v)) if k == "val" else (s2, k, v))
            else:
                out.append((s, "val", NONE))
        return out

    def m_res_map(self, e, st, a):
        out = []
        for s, sv in self._variant(st, a[0], ("Ok", "Err"), e):
            if sv.variant == "Ok":
                for s2, k, v in self.I.apply_fn(s, a[1], [sv.fields["0"]], e):
                    out.append((s2, k, ok(v)) if k == "val" else (s2, k, v))
            else:
                out.append((s, "val", sv))
        return out

    def m_unwrap_or(self, e, st, a):
        out = []
        for s, sv in self._variant(st, a[0], ("Some", "None"), e):
            out.append((s, "val", sv.fields["0"] if sv.variant == "Some" else a[1]))
        return out

    def m_unwrap(self, e, st, a):
        v = a[0]
        names = ("Some", "None") if "Option" in e["fn"] else ("Ok", "Err")
        out = []
        for s, sv in self._variant(st, v, names, e):
            if sv.variant in ("Ok", "Some"):
                if isinstance(v, StructV):
                    self.I.oblige(s, TRUE, "unwrap", e)
                out.append((s, "val", sv.fields["0"]))
            else:
                self.I.oblige(s, FALSE, "unwrap", e, f"value may be {sv.variant}")
        return out

    def m_is_variant(self, e, st, a, name):
        names = ("Some", "None") if name in ("Some", "None") else ("Ok", "Err")
        out = []
        for s, sv in self._variant(st, a[0], names, e):
            out.append((s, "val", BTRUE if sv.variant == name else BFALSE))
        return out

    def m_from_utf8(self, e, st, a):
        return [(st, "val", Opaque("Result<String, FromUtf8Error>"))]

    # ---------------------------------------------------------------- conversions
    def m_into(self, e, st, a):
        # <T as Into<U>>::into == U::from(T)
        ga = e.get("gargs") or []
        if len(ga) >= 2:
            r = self._from(e, st, a, ga[0], ga[1])
            if r is not None:
                return r
            r = self._int_conv(st, a, ga[1], e)
            if r is not None:
                return r
        return [(st, "val", a[0])]

    def m_from(self, e, st, a):
        ga = e.get("gargs") or []
        if len(ga) >= 2:
            r = self._from(e, st, a, ga[1], ga[0])
            if r is not None:
                return r
            r = self._int_conv(st, a, ga[0], e)
            if r is not None:
                return r
        return [(st, "val", a[0])]

    def _int_conv(self, st, a, dst, e):
        """From/Into between integer types (lossless by construction) and bool -> integer"""
        t = self.I.F.types[dst]
        if t["k"] == "int" and isinstance(a[0], IntV) and a[0].ty != t["s"]:
            return [(s, "val", v) for s, v in self.I.cast_int(st, a[0], t["s"], e)]
        if t["k"] == "int" and isinstance(a[0], BoolV):
            return [(s, "val", v) for s, v in self.I.bool_to_int_split(st, a[0], t["s"])]
        return None

    def _from(self, e, st, a, src, dst):
        F = self.I.F
        dk, sk = self.I.ty_key_subst(st, dst), self.I.ty_key_subst(st, src)
        for im in F.impls:
            if im["trait"] == "std::convert::From" and F.ty_key(im["self"]) == dk and len(im["trait_args"]) > 1:
                ta = F.ty_key(im["trait_args"][1])
                if ta == sk or F.types[im["trait_args"][1]]["k"] == "param" or ta.lstrip("&") == sk.lstrip("&") and F.types[F.strip_ref(im["trait_args"][1])]["k"] == "param":
                    for it in im["items"]:
                        if it["name"] == "from" and it["def"] in F.bodies:
                            return self.I.inline(it["def"], None, st, a)
        return None

    def m_try_into(self, e, st, a):
        v = a[0]
        rt = self.ret_ty(e)
        # slice -> array
        if rt.get("def") == "std::result::Result":
            okt = self.I.F.types[self.I.F.strip_ref(rt["args"][0])]
            if okt["k"] == "array" and okt["len"] is not None and isinstance(v, (SliceV, ArrV)):
                n = okt["len"]
                out = []
                for s in self.I.assume(st, flit(eq(v.length(), n))):
                    if isinstance(v, SliceV):
                        out.append((s, "val", ok(SliceV(v.base, v.start, v.start + n))))
                    else:
                        out.append((s, "val", ok(v)))
                for s in self.I.assume(st, flit(ne(v.length(), n))):
                    out.append((s, "val", err(Opaque("TryFromSliceError"))))
                return out
        ga = e.get("gargs") or []
        if len(ga) >= 2:
            return self._try_from(e, st, a, ga[0], ga[1])
        return None

    def m_try_from(self, e, st, a):
        ga = e.get("gargs") or []
        if len(ga) >= 2:
            return self._try_from(e, st, a, ga[1], ga[0])
        return None

    def _try_from(self, e, st, a, src, dst):
        F = self.I.F
        dt = F.types[F.strip_ref(dst)]
        if dt["k"] == "array":
            return self.ext.arr_try_from(e, st, a)
        dt = F.types[dst]
        if dt["k"] == "int" and isinstance(a[0], IntV):
            ty = dt["s"]
            good = f_and(flit(ge(a[0].l, INT_MIN[ty])), flit(le(a[0].l, INT_MAX[ty])))
            out = [(s, "val", ok(IntV(a[0].l, ty))) for s in self.I.assume(st, good)]
            out += [(s, "val", err(Opaque("TryFromIntError"))) for s in self.I.assume(st, f_not(good))]
            return out
        dk, sk = self.I.ty_key_subst(st, dst), self.I.ty_key_subst(st, src)
        for im in F.impls:
            if im["trait"] == "std::convert::TryFrom" and F.ty_key(im["self"]) == dk and len(im["trait_args"]) > 1:
                if F.ty_key(im["trait_args"][1]) == sk:
                    for it in im["items"]:
                        if it["name"] == "try_from" and it["def"] in F.bodies:
                            return self.I.inline(it["def"], None, st, a)
        return None

    def m_default(self, e, st, a):
        rt = self.ret_ty(e)
        return [(st, "val", self.default_of(st, e["t"]))]

    def default_of(self, st, tyi):
        t = self.I.F.types[tyi]
        k = t["k"]
        if k == "int":
            return IntV(0, t["s"])
        if k == "bool":
            return BFALSE
        if k == "adt":
            d = t["def"]
            if d == "std::borrow::Cow" or d == "std::string::String":
                return SliceV(("lit", b""), 0, 0)
            if d in ("std::vec::Vec", "std::collections::BTreeSet", "std::collections::HashMap"):
                et = self.I.F.types[t["args"][0]]
                if d == "std::vec::Vec" and et["s"] == "u8":
                    return SliceV(("lit", b""), 0, 0)
                return self.new_coll(st, t)
            if d == "std::marker::PhantomData":
                return UNIT
            if d == "std::option::Option":
                return NONE
        return Opaque("default of " + t["s"])

    def new_coll(self, st, t):
        seq = ("new", self.I.fresh("coll"))
        d = t["def"]
        if d == "std::collections::HashMap":
            c = CollV(seq, ("pair", t["args"][0], t["args"][1]), kind="map", built=True)
        else:
            c = CollV(seq, t["args"][0], kind="set" if "BTreeSet" in d else "vec", built=True)
        st.colls[seq] = ()
        return c

    def m_vec_new(self, e, st, a):
        t = self.ret_ty(e)
        et = self.I.F.types[t["args"][0]]
        if et["s"] == "u8":
            return [(st, "val", SliceV(("lit", b""), 0, 0))]
        return [(st, "val", self.new_coll(st, t))]

    def m_push(self, e, st, a):
        c, v = a
        if isinstance(c, RefV):
            c = self.I.read_loc(st, c.key, c.path)
        if isinstance(c, CollV):
            st.colls[c.seq] = st.colls.get(c.seq, ()) + ((list(st.pc), v, st.exist, "push"),)
            st.tiles.pop(c.seq, None)
            return [(st, "val", UNIT)]
        return None

    def m_set_insert(self, e, st, a):
        c, v = a
        if isinstance(c, RefV):
            c = self.I.read_loc(st, c.key, c.path)
        if isinstance(c, CollV):
            st.colls[c.seq] = st.colls.get(c.seq, ()) + ((list(st.pc), v, st.exist, "set-insert"),)
            return [(st, "val", BoolV(flit(("b", self.I.fresh("inserted"), True))))]
        return None

    def m_coll_shrink(self, e, st, a, how):
        """remove(key) / clear() on a builder's collection: recorded like an insertion (the setter rules read the record);
        the elements of a collection with such a record are not modelled (loops.built_elem fails closed)"""
        c = a[0]
        if isinstance(c, RefV):
            c = self.I.read_loc(st, c.key, c.path)
        if not isinstance(c, CollV):
            return None
        v = a[1] if len(a) > 1 else UNIT
        if isinstance(v, RefV):
            v = self.I.read_loc(st, v.key, v.path)
        st.colls[c.seq] = st.colls.get(c.seq, ()) + ((list(st.pc), v, st.exist, how),)
        if how == "clear":
            return [(st, "val", UNIT)]
        return [(st, "val", Opaque("Option<V>") if "HashMap" in e["fn"] else BoolV(flit(("b", self.I.fresh("removed"), True))))]

    def m_map_insert(self, e, st, a):
        c, k, v = a
        if isinstance(c, RefV):
            c = self.I.read_loc(st, c.key, c.path)
        if isinstance(c, CollV):
            st.colls[c.seq] = st.colls.get(c.seq, ()) + ((list(st.pc), TupV([k, v]), st.exist, "map-insert"),)
            return [(st, "val", Opaque("Option<V>"))]
        return None

    def m_map_entry(self, e, st, a):
        c, k = a
        if isinstance(c, RefV):
            c = self.I.read_loc(st, c.key, c.path)
        if isinstance(c, CollV):
            return [(st, "val", StructV("std::collections::hash_map::Entry", "Entry", {"map": c, "key": k, "modify": Opaque("none")}))]
        return None

    def m_entry_and_modify(self, e, st, a):
        en, f = a
        if isinstance(en, StructV) and en.variant == "Entry":
            return [(st, "val", StructV(en.adt, "Entry", {"map": en.fields["map"], "key": en.fields["key"], "modify": f}))]
        return None

    def m_entry_or_insert(self, e, st, a):
        en, v = a
        if isinstance(en, StructV) and en.variant == "Entry":
            c = en.fields["map"]
            how = "entry-or-insert"
            f = en.fields["modify"]
            if isinstance(f, FnV):
                # what does the and_modify closure leave in an existing entry?  (last-write-wins iff the inserted value)
                cell = (st.frame, "entry-cell#" + self.I.fresh("c"))
                ty = v.ty if isinstance(v, IntV) else "u8"
                st.env[cell] = IntV(Lin.atom(("sym", "existing-entry", ty)), ty) if isinstance(v, IntV) else Opaque("existing entry")
                how = "entry-and-modify:other"
                try:
                    outs = self.I.apply_fn(st, f, [RefV(cell)], e)
                    vals = [s2.env.get(cell) for s2, k2, r2 in outs if k2 == "val"]
                    if vals and all(isinstance(x, IntV) and isinstance(v, IntV) and x.l == v.l for x in vals):
                        how = "entry-and-modify:last-write-wins"
                except Exception:
                    pass
                st.env.pop(cell, None)
            st.colls[c.seq] = st.colls.get(c.seq, ()) + ((list(st.pc), TupV([en.fields["key"], v]), st.exist, how),)
            return [(st, "val", Opaque("&mut V"))]
        return None

    # ---------------------------------------------------------------- iterators
    def m_count(self, e, st, a):
        it = a[0]
        if isinstance(it, RefV):
            it = self.I.read_loc(st, it.key, it.path)
        if isinstance(it, StructV):
            it = IterV(("custom", it))
        if isinstance(it, IterV):
            n = self.I.loops.count_of(st, it.seq)
            if n is not None:
                return [(st, "val", IntV(n - it.pos, "usize"))]
        return None

    def m_next(self, e, st, a):
        return self.I.loops.iter_next(e, st, a[0])

    def m_fold(self, e, st, a):
        def step(s, acc, x):
            return self.I.apply_fn(s, a[2], [acc, x], e)

        ety = None
        if isinstance(a[2], FnV) and a[2].fn in self.I.F.bodies:
            ps = self.I.F.bodies[a[2].fn]["params"]
            if len(ps) >= 3 and ps[2].get("pat"):
                ety = ps[2]["pat"].get("t")
        r = self.I.loops.py_for(e, st, a[0], a[1], step, elem_ty=ety, closures=[a[2]])
        if r is None:
            return self.I.loops.fold(e, st, a[0], a[1], a[2])
        return [(s, k, v) for s, k, v, _ in r]

    def m_from_iter(self, e, st, a):
        it = a[0]
        if isinstance(it, IterV):
            self.I.loops.drain(st, it, e)
        return [(st, "val", Opaque("collected"))]

    # ---------------------------------------------------------------- equality on std types
    def m_eq(self, e, st, a):
        x, y = a
        if isinstance(x, IntV) and isinstance(y, IntV):
            return [(st, "val", BoolV(flit(eq(x.l, y.l))))]
        if isinstance(x, StructV) and isinstance(y, StructV):
            f = self.I.struct_eq(x, y)
            if f is not None:
                return [(st, "val", BoolV(f))]
        return [(st, "val", BoolV(flit(("b", self.I.fresh("eq"), True))))]

    def m_ne(self, e, st, a):
        r = self.m_eq(e, st, a)
        return [(s, k, BoolV(f_not(v.f))) for s, k, v in r]

    # ---------------------------------------------------------------- trait objects
    def dyn_call(self, e, st, args):
        """calls through `dyn RtcpPacketWriter` / `dyn FciBuilder`: the trait contract.

        calculate_size(): Ok(S) or Err(E), the same on every call (the object is borrowed immutably);
        write_into_unchecked(view): requires size Ok and len(view) >= S (== S for whole-packet writers, which
        derive the length field from the view), defines exactly view[0..S) and returns S;
        get_padding()/format()/supports_feedback_type(): fixed attributes of the object.
        Each impl in the crate is verified against this contract by the C06/C17 rules."""
        d = args[0]
        name = e["name"]
        h = getattr(self.I, "dyn_hook", None)
        if h is not None:
            r = h(e, st, args)
            if r is not None:
                return r
        I = self.I
        key = ("dyn", d.name)
        S = self._dattr(d, "size", "usize")
        if name == "calculate_size":
            out = []
            for s in I.assume(st, flit(("b", (key, "size_ok"), True))):
                s.pc.append(le(S, LEN_MAX_))
                if d.trait != "RtcpPacketWriter":
                    # FCI is a whole number of 32-bit words (RFC 4585 §6.1); checked for every FciBuilder impl
                    s.pc.append(eq(Lin.atom(("mod", S.key(), 4)), 0))
                out.append((s, "val", ok(IntV(S, "usize"))))
            for s in I.assume(st, flit(("b", (key, "size_ok"), False))):
                out.append((s, "val", err(StructV("RtcpWriteError", "<error-of>", {"__by": d}))))
            return out
        if name == "write_into_unchecked":
            view = args[1]
            if not isinstance(view, SliceV):
                return None
            exact = d.trait == "RtcpPacketWriter"
            goal = f_and(flit(("b", (key, "size_ok"), True)), flit(eq(view.length(), S)) if exact else flit(ge(view.length(), S)))
            out = []
            from .interp import Write
            for s in I.oblige(st, goal, "dyn-contract", e,
                              "member writer is given a buffer of " + ("exactly" if exact else "at least") + " its announced size, and its size calculation succeeded"):
                I.write(s, view.base, Write(view.start, view.start + S, "member", d, span=I.span(e), fn=I.stack[-1] if I.stack else None))
                out.append((s, "val", IntV(S, "usize")))
            return out
        if name == "get_padding":
            p = self._dattr(d, "padding", "u8")
            out = []
            for s in I.assume(st, flit(("b", (key, "has_padding"), True))):
                out.append((s, "val", some(IntV(p, "u8"))))
            for s in I.assume(st, flit(("b", (key, "has_padding"), False))):
                out.append((s, "val", NONE))
            return out
        if name == "format":
            # the format occupies the 5-bit count field of the feedback header (RFC 4585 §6.1); every impl
            # in the crate is checked to return a constant <= 31
            f = self._dattr(d, "format", "u8")
            st.pc.append(le(f, 31))
            return [(st, "val", IntV(f, "u8"))]
        if name == "supports_feedback_type":
            from . import roles
            fk = roles.fci_kind_fields(self.I.F)
            return [(st, "val", StructV("feedback::FciFeedbackPacketType", "FciFeedbackPacketType",
                                        {fk["transport"]: BoolV(flit(("b", (key, "transport"), True))),
                                         fk["payload"]: BoolV(flit(("b", (key, "payload"), True)))}))]
        return None

    def _dattr(self, d, what, ty):
        """an attribute of a trait object: indexed by the element position when the object is a collection element"""
        n = d.name
        if isinstance(n, tuple) and n[1]:
            nm, (seq, kkey) = n
            path = tuple(str(nm).split(".")) if nm else ()
            return Lin.atom(("elem", seq, kkey, path + ("#" + what,), ty))
        return Lin.atom(("sym", f"{what}({self._dname(d)})", ty))

    def _dname(self, d):
        n = d.name
        if isinstance(n, tuple):
            from .lin import show_seq, Lin as _L
            nm, elem = n
            return f"{nm}@{show_seq(elem[0])}[{_L.from_key(elem[1])}]" if elem else str(nm)
        return str(n)


LEN_MAX_ = 2**63 - 1
