"""Abstract values of the interpreter."""
from .lin import FALSE, TRUE, Lin, flit, lin, show_formula


class V:
    pass


class IntV(V):
    __slots__ = ("l", "ty")

    def __init__(self, l, ty="usize"):
        self.l = lin(l)
        self.ty = ty

    def __repr__(self):
        return f"{self.l}:{self.ty}"


class BoolV(V):
    __slots__ = ("f",)

    def __init__(self, f):
        self.f = f

    def __repr__(self):
        return f"Bool({show_formula(self.f)})"


BTRUE = BoolV(TRUE)
BFALSE = BoolV(FALSE)


class TupV(V):
    __slots__ = ("items",)

    def __init__(self, items):
        self.items = list(items)

    def __repr__(self):
        return "(" + ", ".join(map(repr, self.items)) + ")"


UNIT = TupV([])


class StructV(V):
    __slots__ = ("adt", "variant", "fields")

    def __init__(self, adt, variant, fields):
        self.adt, self.variant, self.fields = adt, variant, fields

    def __repr__(self):
        return f"{self.adt.split('::')[-1]}::{self.variant}{{" + ", ".join(f"{k}: {v!r}" for k, v in self.fields.items()) + "}"


class EnumV(V):
    """a symbolic value of a crate-local enum: the variant is decided (and remembered in the path
    condition) when it is first matched; payloads are created on demand"""
    __slots__ = ("adt", "name", "tyargs")

    def __init__(self, adt, name, tyargs=None):
        self.adt, self.name, self.tyargs = adt, name, tyargs

    def __repr__(self):
        return f"enum<{self.adt.split('::')[-1]} {self.name}>"


class SliceV(V):
    """a view [start, end) into the byte buffer `base`"""
    __slots__ = ("base", "start", "end", "is_str")

    def __init__(self, base, start, end, is_str=False):
        self.base, self.start, self.end, self.is_str = base, lin(start), lin(end), is_str

    def length(self):
        return self.end - self.start

    def __repr__(self):
        return f"{self.base}[{self.start}..{self.end}]"


class ArrV(V):
    """an array value given element-wise"""
    __slots__ = ("items",)

    def __init__(self, items):
        self.items = list(items)

    def length(self):
        return Lin.const(len(self.items))

    def __repr__(self):
        return "[" + ", ".join(map(repr, self.items)) + "]"


class CollV(V):
    """abstract collection (Vec/BTreeSet/HashMap/slice of non-byte elements).
    seq: hashable name; elem_ty: type index of the element (as iterated); built: pushes recorded in state"""
    __slots__ = ("seq", "elem_ty", "kind", "built")

    def __init__(self, seq, elem_ty, kind="vec", built=False):
        self.seq, self.elem_ty, self.kind, self.built = seq, elem_ty, kind, built

    def count(self):
        return Lin.atom(("cnt", self.seq))

    def __repr__(self):
        return f"coll<{self.seq}>"


class IterV(V):
    """iterator over an abstract sequence.
    seq kinds: ('coll', CollV) | ('chunks', SliceV, n) | ('bytes', SliceV) | ('custom', StructV) |
               ('map', seq, fn) | ('enumerate', seq) | ('copied', seq) | ('map_while', seq, fn) | ('items', [values])"""
    __slots__ = ("seq", "pos")

    def __init__(self, seq, pos=None):
        self.seq = seq
        self.pos = lin(0) if pos is None else pos

    def __repr__(self):
        return f"iter<{self.seq!r}@{self.pos}>"


class RefV(V):
    """mutable reference to a local place: env key + field path"""
    __slots__ = ("key", "path")

    def __init__(self, key, path=()):
        self.key, self.path = key, tuple(path)

    def __repr__(self):
        return f"&mut {self.key}{''.join('.' + str(p) for p in self.path)}"


class FnV(V):
    """function item or closure"""
    __slots__ = ("fn", "info", "captures")

    def __init__(self, fn, info=None, captures=None):
        self.fn, self.info, self.captures = fn, info, captures

    def __repr__(self):
        return f"fn<{self.fn}>"


class DynV(V):
    """a trait object whose concrete type is unknown; behaves per the trait contract"""
    __slots__ = ("name", "trait", "impl")

    def __init__(self, name, trait, impl=None):
        self.name, self.trait, self.impl = name, trait, impl

    def __repr__(self):
        return f"dyn<{self.name}>"


class MemRefV(V):
    """a reference to one element of a buffer / array value (`slice.last_mut()`, `get_mut(i)` ...)"""
    __slots__ = ("target", "idx")

    def __init__(self, target, idx):
        self.target, self.idx = target, idx

    def __repr__(self):
        return f"&{self.target!r}[{self.idx!r}]"


class PyFn(V):
    """a function value implemented by the analyser: fn(state, args, expr) -> outcomes"""
    __slots__ = ("fn", "name")

    def __init__(self, fn, name="<builtin>"):
        self.fn, self.name = fn, name

    def __repr__(self):
        return f"pyfn<{self.name}>"


class Opaque(V):
    __slots__ = ("why",)

    def __init__(self, why):
        self.why = why

    def __repr__(self):
        return f"?<{self.why}>"


def some(v):
    return StructV("std::option::Option", "Some", {"0": v})


NONE = StructV("std::option::Option", "None", {})


def ok(v):
    return StructV("std::result::Result", "Ok", {"0": v})


def err(v):
    return StructV("std::result::Result", "Err", {"0": v})


def contains_opaque(v):
    if isinstance(v, Opaque):
        return True
    if isinstance(v, TupV) or isinstance(v, ArrV):
        return any(contains_opaque(x) for x in v.items)
    if isinstance(v, StructV):
        return any(contains_opaque(x) for x in v.fields.values())
    return False


def field_of(v, cls, prefer=None):
    """the field of struct value v that holds a `cls` value: the one called `prefer` if there is one, else the only one
    of that kind (private field names are not API: a parsed view is recognised by what it stores)"""
    if not isinstance(v, StructV):
        return None
    if prefer is not None and isinstance(v.fields.get(prefer), cls):
        return v.fields[prefer]
    hits = [x for k, x in v.fields.items() if isinstance(x, cls) and not str(k).startswith("__")]
    return hits[0] if len(hits) == 1 else None
